(* Proofs about the open-type model (Model/OpenType.v): the scalar open member. *)
From PV Require Import Model.Types Model.Proc Model.Enc Model.Dec Model.Obs Model.OpenType.
From Coq Require Import Lia.
Local Open Scope N_scope.

(* ---------- boolean equalities ---------- *)

Lemma list_eqb_N_eq : forall a b : list N, list_eqb N.eqb a b = true -> a = b.
Proof.
  induction a as [|x a IH]; destruct b as [|y b]; simpl; intros H; try discriminate; auto.
  apply andb_prop in H. destruct H as [H1 H2]. apply N.eqb_eq in H1. subst. f_equal. auto.
Qed.

Lemma bytes_eqb_eq : forall a b, bytes_eqb a b = true -> a = b.
Proof. exact list_eqb_N_eq. Qed.

Lemma list_eqb_refl : forall A (eqb: A -> A -> bool) (l: list A),
  (forall x, In x l -> eqb x x = true) -> list_eqb eqb l l = true.
Proof.
  induction l as [|x l IH]; simpl; intros H; auto.
  rewrite H by auto. simpl. apply IH. intros; apply H; auto.
Qed.

Lemma bytes_eqb_refl : forall a, bytes_eqb a a = true.
Proof. intros. apply list_eqb_refl. intros. apply N.eqb_refl. Qed.

(* ---------- abs through tags and records ---------- *)

Lemma abs_base : forall T v, abs T v = abs (base_of T) v.
Proof.
  induction T using ty_ind'; intros v; try reflexivity.
  - simpl. destruct v; apply IHT.
  - simpl. destruct v; apply IHT.
Qed.

(* the record case of [abs], as a top-level function *)
Fixpoint abs_fields (fs: list (presence * ty)) (vs: list (option val)) : list (option aval) :=
  match fs, vs with
  | (p, ft) :: fs', ov :: vs' =>
      (match ov, p with
       | Some x, _ => Some (abs ft x)
       | None, Def d => Some (abs ft d)
       | None, _ => None
       end) :: abs_fields fs' vs'
  | (p, ft) :: fs', [] =>
      (match p with Def d => Some (abs ft d) | _ => None end) :: abs_fields fs' []
  | [], _ => []
  end.

Lemma abs_seq : forall fs vs, abs (TSeq fs) (VRec vs) = ARec (abs_fields fs vs).
Proof. intros. reflexivity. Qed.

Lemma abs_set : forall fs vs, abs (TSet fs) (VRec vs) = ARec (abs_fields fs vs).
Proof. intros. reflexivity. Qed.

Lemma abs_record : forall T fs vs, rec_fields T = Some fs -> abs T (VRec vs) = ARec (abs_fields fs vs).
Proof.
  intros T fs vs H. rewrite abs_base. unfold rec_fields in H.
  destruct (base_of T); try discriminate; inversion H; subst.
  - apply abs_seq.
  - apply abs_set.
Qed.

Lemma abs_record_inv : forall T fs v l, rec_fields T = Some fs ->
  aval_eqb (abs T v) (ARec l) = true -> exists vs, v = VRec vs.
Proof.
  intros T fs v l H E. rewrite abs_base in E. unfold rec_fields in H.
  destruct (base_of T); try discriminate; destruct v; simpl in E; try discriminate; eauto.
Qed.

Lemma abs_fields_nth : forall fs vs i p ft x,
  nth_error fs i = Some (p, ft) -> nth i vs None = Some x ->
  nth i (abs_fields fs vs) None = Some (abs ft x).
Proof.
  induction fs as [|[q gt] fs IH]; intros vs i p ft x Hf Hv.
  - destruct i; discriminate.
  - destruct vs as [|ov vs].
    + destruct i; discriminate.
    + destruct i as [|i]; simpl in *.
      * inversion Hf; subst. reflexivity.
      * eapply IH; eauto.
Qed.

Lemma abs_fields_nth_set : forall fs vs i p ft x,
  nth_error fs i = Some (p, ft) -> (i < length vs)%nat ->
  nth i (abs_fields fs (set_nth i (Some x) vs)) None = Some (abs ft x).
Proof.
  induction fs as [|[q gt] fs IH]; intros vs i p ft x Hf Hl.
  - destruct i; discriminate.
  - destruct vs as [|ov vs]; [simpl in Hl; lia|].
    destruct i as [|i]; simpl in *.
    + inversion Hf; subst. reflexivity.
    + eapply IH; eauto. lia.
Qed.

Lemma abs_fields_nth_none : forall fs vs i p ft,
  nth_error fs i = Some (p, ft) -> match p with Def _ => False | _ => True end ->
  nth i vs None = None -> nth i (abs_fields fs vs) None = None.
Proof.
  induction fs as [|[q gt] fs IH]; intros vs i p ft Hf Hp Hv.
  - destruct i; discriminate.
  - destruct vs as [|ov vs].
    + destruct i as [|i]; simpl in *.
      * inversion Hf; subst. destruct p; try contradiction; reflexivity.
      * eapply IH; eauto. destruct i; reflexivity.
    + destruct i as [|i]; simpl in *.
      * inversion Hf; subst. destruct p; try contradiction; reflexivity.
      * eapply IH; eauto.
Qed.

Lemma list_eqb_opt_nth : forall (l1 l2: list (option aval)) i a,
  list_eqb (opt_eqb aval_eqb) l1 l2 = true -> nth i l2 None = Some a ->
  exists a', nth i l1 None = Some a' /\ aval_eqb a' a = true.
Proof.
  induction l1 as [|x l1 IH]; destruct l2 as [|y l2]; simpl; intros i a H Hn; try discriminate.
  - destruct i; discriminate.
  - apply andb_prop in H. destruct H as [H1 H2].
    destruct i as [|i]; simpl in *.
    + subst y. destruct x; simpl in H1; try discriminate. eauto.
    + eapply IH; eauto.
Qed.

Lemma list_eqb_length : forall A (eqb: A -> A -> bool) (l1 l2: list A),
  list_eqb eqb l1 l2 = true -> length l1 = length l2.
Proof.
  induction l1; destruct l2; simpl; intros H; try discriminate; auto.
  apply andb_prop in H. destruct H. f_equal; auto.
Qed.

(* a member that reads as an ANY with octets b holds exactly b *)
Lemma abs_any_octets : forall ft v b, is_any ft = true ->
  aval_eqb (abs ft v) (AAny b) = true -> octets_of v = Some b.
Proof.
  intros ft v b Ha E. rewrite abs_base in E. unfold is_any in Ha.
  destruct (base_of ft); try discriminate.
  destruct v; simpl in E; try discriminate; apply bytes_eqb_eq in E; subst; reflexivity.
Qed.

Lemma abs_any_VAny : forall ft b, is_any ft = true -> abs ft (VAny b) = AAny b.
Proof.
  intros ft b Ha. rewrite abs_base. unfold is_any in Ha. destruct (base_of ft); try discriminate. reflexivity.
Qed.

(* governing values survive the observation equality *)
Definition gov_ok (gT: ty) (g: val) : bool :=
  match base_of gT, g with
  | (TInt | TEnum), VInt _ => true
  | TOid, VOid _ => true
  | _, _ => false
  end.

Lemma abs_gov : forall gT g g', gov_ok gT g = true ->
  aval_eqb (abs gT g') (abs gT g) = true -> g' = g.
Proof.
  intros gT g g' Hok E. rewrite (abs_base gT g'), (abs_base gT g) in E. unfold gov_ok in Hok.
  destruct (base_of gT); destruct g; try discriminate; destruct g'; simpl in E; try discriminate.
  - apply Z.eqb_eq in E. subst. reflexivity.
  - apply Z.eqb_eq in E. subst. reflexivity.
  - apply list_eqb_N_eq in E. subst. reflexivity.
Qed.

(* ---------- the inner decoding: allowEoo does not matter for a complete encoding ---------- *)

Lemma decode_eoo_false : forall c sp b, decode_eoo c false sp b = decode c sp b.
Proof. reflexivity. Qed.

Lemma dec_fuel_S : forall sp b, exists f, dec_fuel sp b = S f.
Proof. intros. unfold dec_fuel. exists (2 * length b + 2 * match sp with Some T => ty_depth T | None => 0 end + 5)%nat. lia. Qed.

Lemma decode_eoo_no_prefix : forall c sp b, no_eoo_prefix b = true -> decode_eoo c true sp b = decode c sp b.
Proof.
  intros c sp b H. unfold decode_eoo, decode, dec_item.
  destruct (dec_fuel_S sp b) as [f Hf]. rewrite Hf.
  destruct b as [|x [|y r]]; try discriminate. simpl in H.
  set (S0 := match sp with Some T => STy T | None => SNone end).
  simpl dec_call. unfold dec_body.
  destruct (support_indef c); simpl andb; [|reflexivity].
  unfold run_complete.
  cbn [pbind readN resume attempt Nat.eqb Nat.ltb Nat.leb avail pos arrived skipn length closed firstn setpos mark].
  destruct x as [|px]; destruct y as [|py]; simpl in H; try discriminate; reflexivity.
Qed.

Lemma decode_eoo_any : forall c allow sp b, no_eoo_prefix b = true -> decode_eoo c allow sp b = decode c sp b.
Proof. intros c [] sp b H; [apply decode_eoo_no_prefix; auto | apply decode_eoo_false]. Qed.

(* ---------- type maps ---------- *)

Lemma override_wins : forall override dflt g E,
  omap_find g override = Some E -> resolve_type override dflt g = Some E.
Proof. intros. unfold resolve_type. rewrite H. reflexivity. Qed.

Lemma default_used : forall dflt g, resolve_type [] dflt g = omap_find g dflt.
Proof. reflexivity. Qed.

(* ---------- list surgery ---------- *)

Lemma nth_set_nth_other : forall (A: Type) (l: list A) i j (x d: A), i <> j -> nth i (set_nth j x l) d = nth i l d.
Proof.
  induction l as [|y l IH]; intros i j x d Hij; simpl.
  - destruct j; reflexivity.
  - destruct j as [|j]; destruct i as [|i]; simpl; try reflexivity; try congruence.
    apply IH. congruence.
Qed.

Lemma nth_set_nth_same : forall (A: Type) (l: list A) j (x d: A), (j < length l)%nat -> nth j (set_nth j x l) d = x.
Proof.
  induction l as [|y l IH]; intros j x d Hj; simpl in *; [lia|].
  destruct j as [|j]; simpl; auto. apply IH. lia.
Qed.

(* ---------- the first pass fixes the raw member and the governing value ---------- *)

Definition not_def (p: presence) : Prop := match p with Def _ => False | _ => True end.

Section Scalar.
  Variables (c: codec) (T: ty) (fs: list (presence * ty)) (gi oi: nat).
  Variables (p: presence) (ft gT: ty) (pg: presence).
  Hypothesis Hrec : rec_fields T = Some fs.
  Hypothesis Hoi : nth_error fs oi = Some (p, ft).
  Hypothesis Hgi : nth_error fs gi = Some (pg, gT).
  Hypothesis Hany : is_any ft = true.
  Hypothesis Hp : not_def p.
  Hypothesis Hpg : not_def pg.

  Variables (vs: list (option val)) (g: val) (chunk: bytes).
  Hypothesis Hg : nth gi vs None = Some g.
  Hypothesis Hgok : gov_ok gT g = true.
  Hypothesis Hne : gi <> oi.
  Hypothesis Hlen : (oi < length vs)%nat.

  (* what was encoded: the record with the wrapped inner encoding in the open member *)
  Let sent := VRec (set_nth oi (Some (VAny chunk)) vs).

  (* from the plain round trip of the record: the decoded member holds exactly [chunk], the decoded
     governing value is the one that was sent *)
  Lemma first_pass_facts : forall v',
    aval_eqb (abs T v') (abs T sent) = true ->
    exists vs', v' = VRec vs' /\
      (exists fv, nth oi vs' None = Some fv /\ octets_of fv = Some chunk) /\
      nth gi vs' None = Some g.
  Proof.
    intros v' E. unfold sent in E. rewrite (abs_record T fs _ Hrec) in E.
    destruct (abs_record_inv T fs v' _ Hrec E) as [vs' ->].
    rewrite (abs_record T fs _ Hrec) in E. simpl in E.
    exists vs'. split; [reflexivity|]. split.
    - assert (Hn: nth oi (abs_fields fs (set_nth oi (Some (VAny chunk)) vs)) None = Some (abs ft (VAny chunk)))
        by (eapply abs_fields_nth_set; eauto).
      destruct (list_eqb_opt_nth _ _ _ _ E Hn) as [a' [Ha' Ea']].
      rewrite (abs_any_VAny ft chunk Hany) in Ea'.
      destruct (nth oi vs' None) as [fv|] eqn:Hfv.
      + exists fv. split; [reflexivity|].
        rewrite (abs_fields_nth fs vs' oi p ft fv Hoi Hfv) in Ha'. inversion Ha'; subst a'.
        eapply abs_any_octets; eauto.
      + rewrite (abs_fields_nth_none fs vs' oi p ft Hoi Hp Hfv) in Ha'. discriminate.
    - assert (Hgs: nth gi (set_nth oi (Some (VAny chunk)) vs) None = Some g)
        by (rewrite nth_set_nth_other; auto).
      pose proof (abs_fields_nth fs _ gi pg gT g Hgi Hgs) as Hn.
      destruct (list_eqb_opt_nth _ _ _ _ E Hn) as [a' [Ha' Ea']].
      destruct (nth gi vs' None) as [g'|] eqn:Hg'.
      + rewrite (abs_fields_nth fs vs' gi pg gT g' Hgi Hg') in Ha'. inversion Ha'; subst a'.
        f_equal. eapply abs_gov; eauto.
      + rewrite (abs_fields_nth_none fs vs' gi pg gT Hgi Hpg Hg') in Ha'. discriminate.
  Qed.

  (* ----- the decoder's second pass on such a first-pass result ----- *)

  Variables (dflt override: omap) (dot: bool) (wire: bytes).
  Variable v' : val.
  Hypothesis Hfirst : decode c (Some T) wire = Ok (DV T v', []).
  Hypothesis Hobs : aval_eqb (abs T v') (abs T sent) = true.

  Lemma list_elem_any : list_elem ft = None.
  Proof. unfold list_elem. unfold is_any in Hany. destruct (base_of ft); try discriminate; reflexivity. Qed.

  (* resolution switched off: the record is the first-pass record, and its member holds [chunk] *)
  Theorem raw_when_off :
    dot = false -> override = [] ->
    exists vs' fv, dec_open c T gi oi dflt override dot wire = Ok (DV T (VRec vs'), [])
                   /\ nth oi vs' None = Some fv /\ octets_of fv = Some chunk.
  Proof.
    intros -> ->. destruct (first_pass_facts v' Hobs) as [vs' [-> [[fv [Hfv Ho]] Hg']]].
    exists vs', fv. split; [|split; assumption].
    unfold dec_open, dec_open_after. rewrite Hfirst. reflexivity.
  Qed.

  (* governing value not in either map: the raw ANY stays *)
  Theorem raw_when_unmapped :
    resolve_type override dflt g = None ->
    exists vs' fv, dec_open c T gi oi dflt override dot wire = Ok (DV T (VRec vs'), [])
                   /\ nth oi vs' None = Some fv /\ octets_of fv = Some chunk.
  Proof.
    intros Hun. destruct (first_pass_facts v' Hobs) as [vs' [-> [[fv [Hfv Ho]] Hg']]].
    exists vs', fv. split; [|split; assumption].
    unfold dec_open, dec_open_after. rewrite Hfirst. simpl bind.
    destruct (negb (dot || match override with [] => false | _ :: _ => true end)); [reflexivity|].
    rewrite Hrec. unfold second_pass. rewrite Hoi, Hfv, Hg', Hun. reflexivity.
  Qed.

  (* governing value mapped to E, the member's octets decode as E to w: the member becomes w *)
  Theorem resolved_when_mapped : forall E w,
    (dot = true \/ override <> []) ->
    resolve_type override dflt g = Some E ->
    no_eoo_prefix chunk = true ->
    decode c (Some E) chunk = Ok (DV E w, []) ->
    exists vs', dec_open c T gi oi dflt override dot wire
                = Ok (DV (subst_field T oi E) (VRec (set_nth oi (Some w) vs')), [])
                /\ v' = VRec vs'.
  Proof.
    intros E w Hon Hmap Hpre Hin. destruct (first_pass_facts v' Hobs) as [vs' [-> [[fv [Hfv Ho]] Hg']]].
    exists vs'. split; [|reflexivity].
    unfold dec_open, dec_open_after. rewrite Hfirst. simpl bind.
    assert (Hr: (dot || match override with [] => false | _ :: _ => true end) = true).
    { destruct Hon as [-> | Hov]; [reflexivity|]. destruct override; [congruence|]. apply orb_true_r. }
    rewrite Hr. simpl negb. cbv iota. rewrite Hrec.
    unfold second_pass. rewrite Hoi, Hfv, Hg', Hmap, list_elem_any, Ho.
    rewrite (decode_eoo_any c _ (Some E) chunk Hpre), Hin. reflexivity.
  Qed.
End Scalar.

(* ---------- tying the bytes to the encoders ---------- *)

Lemma fix_opts_member : forall c defm ck Ti xi,
  enc c Ti (elem_opts c defm ck) xi = encode c defm ck Ti xi.
Proof. intros c defm ck Ti xi. destruct c; reflexivity. Qed.

(* a mandatory member (or any member under BER) is encoded with exactly the options of a top-level
   encode call: its chunk is encode c defMode chunk Ti xi *)
Lemma member_opts_plain : forall c defm ck T p mo,
  member_opts c defm ck T p = Ok mo -> (is_opt p = false \/ c = BER /\ base_of T = base_of T) ->
  (is_opt p = false -> mo = elem_opts c defm ck).
Proof.
  intros c defm ck T p mo H _ Hp. unfold member_opts in H.
  destruct (concrete_encoder c T) as [ce|e]; simpl in H; [|discriminate].
  inversion H; subst. rewrite Hp, andb_false_r. reflexivity.
Qed.

Lemma member_chunk_is_encode : forall c defm ck T p mo Ti xi,
  member_opts c defm ck T p = Ok mo -> is_opt p = false ->
  enc c Ti mo xi = encode c defm ck Ti xi.
Proof.
  intros. rewrite (member_opts_plain c defm ck T p mo H (or_introl H0) H0). apply fix_opts_member.
Qed.

(* a record whose members are not re-ordered by the encoder: the open record goes through the plain
   record encoder with the wrapped chunk as the value of the ANY *)
Lemma enc_open_plain : forall c defm ck T fs oi p ft vs Ti xi ce bytes,
  rec_fields T = Some fs -> nth_error fs oi = Some (p, ft) -> is_any ft = true ->
  concrete_encoder c T = Ok ce -> sorts_members (fst ce) = false ->
  holds_blob ft Ti = false ->
  enc_open c defm ck T oi (VRec vs) true [(Ti, xi)] = Ok bytes ->
  exists mo chunk, member_opts c defm ck T p = Ok mo /\ enc c Ti mo xi = Ok chunk /\
    encode c defm ck T (VRec (set_nth oi (Some (VAny chunk)) vs)) = Ok bytes.
Proof.
  intros c defm ck T fs oi p ft vs Ti xi ce bytes Hrec Hoi Hany Hce Hs Hb H.
  unfold enc_open in H. rewrite Hrec, Hoi in H. simpl negb in H. cbv iota in H.
  rewrite Hce in H. simpl bind in H. rewrite Hs in H. simpl andb in H. cbv iota in H.
  unfold open_member in H.
  assert (Hl: list_elem ft = None).
  { unfold list_elem. unfold is_any in Hany. destruct (base_of ft); try discriminate; reflexivity. }
  unfold wrap_type in H. rewrite Hl, Hany in H. simpl negb in H. cbv iota in H.
  destruct (member_opts c defm ck T p) as [mo|e] eqn:Hmo; simpl bind in H; [|discriminate].
  unfold wrap_inner in H. rewrite Hb in H.
  destruct (enc c Ti mo xi) as [chunk|e] eqn:Hch; simpl bind in H; [|discriminate].
  exists mo, chunk. auto.
Qed.

(* ---------- SEQUENCE OF / SET OF ANY members ---------- *)

Lemma remove_first_spec : forall A (f: A -> bool) l l',
  remove_first f l = Some l' ->
  (exists y, In y l /\ f y = true) /\ (forall z, In z l' -> In z l) /\ length l = S (length l').
Proof.
  induction l as [|y l IH]; simpl; intros l' H; [discriminate|].
  destruct (f y) eqn:Hf.
  - inversion H; subst. repeat split; eauto.
  - destruct (remove_first f l) as [r|] eqn:Hr; [|discriminate]. inversion H; subst.
    destruct (IH r eq_refl) as [[z [Hz1 Hz2]] [Hsub Hlen]].
    repeat split.
    + exists z. auto.
    + intros w [->|Hw]; auto.
    + simpl. lia.
Qed.

Lemma bag_eqb_in : forall A (eqb: A -> A -> bool) l1 l2,
  bag_eqb eqb l1 l2 = true ->
  Forall (fun a => exists b, In b l2 /\ eqb a b = true) l1 /\ length l1 = length l2.
Proof.
  induction l1 as [|x l1 IH]; intros l2 H; simpl in H.
  - destruct l2; [|discriminate]. split; constructor.
  - destruct (remove_first (eqb x) l2) as [l2'|] eqn:Hr; [|discriminate].
    destruct (remove_first_spec _ _ _ _ Hr) as [[y [Hy1 Hy2]] [Hsub Hlen]].
    destruct (IH l2' H) as [HF HL]. split.
    + constructor; [eauto|]. eapply Forall_impl; [|exact HF].
      intros a [b [Hb1 Hb2]]. exists b. auto.
    + simpl. lia.
Qed.

Lemma list_eqb_in : forall A (eqb: A -> A -> bool) l1 l2,
  list_eqb eqb l1 l2 = true ->
  Forall (fun a => exists b, In b l2 /\ eqb a b = true) l1 /\ length l1 = length l2.
Proof.
  induction l1 as [|x l1 IH]; destruct l2 as [|y l2]; simpl; intros H; try discriminate.
  - split; constructor.
  - apply andb_prop in H. destruct H as [H1 H2]. destruct (IH l2 H2) as [HF HL]. split.
    + constructor; [exists y; auto|]. eapply Forall_impl; [|exact HF].
      intros a [b [Hb1 Hb2]]. exists b. auto.
    + simpl. lia.
Qed.

(* every element of a decoded list member that reads like the list of wrapped chunks holds one of them *)
Lemma list_member_facts : forall ft t fv chunks,
  list_elem ft = Some t -> is_any t = true ->
  aval_eqb (abs ft fv) (abs ft (VList (map VAny chunks))) = true ->
  exists ys, fv = VList ys /\ length ys = length chunks /\
    Forall (fun y => exists ch, In ch chunks /\ octets_of y = Some ch) ys.
Proof.
  intros ft t fv chunks Hl Ht E. rewrite (abs_base ft fv), (abs_base ft (VList _)) in E.
  unfold list_elem in Hl.
  assert (Hel: forall y a, In a (map (abs t) (map VAny chunks)) -> aval_eqb (abs t y) a = true ->
                           exists ch, In ch chunks /\ octets_of y = Some ch).
  { intros y a Ha Ey. rewrite map_map in Ha. apply in_map_iff in Ha. destruct Ha as [ch [<- Hch]].
    exists ch. split; auto. rewrite (abs_any_VAny t ch Ht) in Ey. eapply abs_any_octets; eauto. }
  destruct (base_of ft); try discriminate; inversion Hl; subst; destruct fv; simpl in E; try discriminate.
  - exists xs. split; [reflexivity|]. destruct (list_eqb_in _ _ _ _ E) as [HF HL]. split.
    + rewrite !map_length in HL. exact HL.
    + apply Forall_forall. intros y Hy. rewrite Forall_forall in HF.
      destruct (HF (abs t y) (in_map _ _ _ Hy)) as [a [Ha Ey]]. eauto.
  - exists xs. split; [reflexivity|]. destruct (bag_eqb_in _ _ _ _ E) as [HF HL]. split.
    + rewrite !map_length in HL. exact HL.
    + apply Forall_forall. intros y Hy. rewrite Forall_forall in HF.
      destruct (HF (abs t y) (in_map _ _ _ Hy)) as [a [Ha Ey]]. eauto.
Qed.

(* the per-element second pass *)
Lemma resolve_elems_spec : forall c allow E (P: bytes -> val -> Prop) chunks ys,
  (forall ch, In ch chunks -> no_eoo_prefix ch = true /\ exists w, decode c (Some E) ch = Ok (DV E w, []) /\ P ch w) ->
  Forall (fun y => exists ch, In ch chunks /\ octets_of y = Some ch) ys ->
  exists ws, resolve_elems c allow E ys = Ok ws /\
    Forall2 (fun y w => exists ch, In ch chunks /\ octets_of y = Some ch /\ P ch w) ys ws.
Proof.
  intros c allow E P chunks ys Hin HF. induction HF as [|y ys [ch [Hc Ho]] HF IH].
  - exists []. split; [reflexivity|constructor].
  - destruct IH as [ws [Hws HF2]]. destruct (Hin ch Hc) as [Hpre [w [Hd Hp]]].
    exists (w :: ws). split.
    + simpl. rewrite Ho. rewrite (decode_eoo_any c allow (Some E) ch Hpre), Hd. simpl. rewrite Hws. reflexivity.
    + constructor; eauto.
Qed.

Section ListMember.
  Variables (c: codec) (T: ty) (fs: list (presence * ty)) (gi oi: nat).
  Variables (p: presence) (ft t gT: ty) (pg: presence).
  Hypothesis Hrec : rec_fields T = Some fs.
  Hypothesis Hoi : nth_error fs oi = Some (p, ft).
  Hypothesis Hgi : nth_error fs gi = Some (pg, gT).
  Hypothesis Hlist : list_elem ft = Some t.
  Hypothesis Hany : is_any t = true.
  Hypothesis Hp : not_def p.
  Hypothesis Hpg : not_def pg.

  Variables (vs: list (option val)) (g: val) (chunks: list bytes).
  Hypothesis Hg : nth gi vs None = Some g.
  Hypothesis Hgok : gov_ok gT g = true.
  Hypothesis Hne : gi <> oi.
  Hypothesis Hlen : (oi < length vs)%nat.

  Let sent := VRec (set_nth oi (Some (VList (map VAny chunks))) vs).

  Lemma first_pass_facts_list : forall v',
    aval_eqb (abs T v') (abs T sent) = true ->
    exists vs' ys, v' = VRec vs' /\ nth oi vs' None = Some (VList ys) /\ length ys = length chunks /\
      Forall (fun y => exists ch, In ch chunks /\ octets_of y = Some ch) ys /\
      nth gi vs' None = Some g.
  Proof.
    intros v' E. unfold sent in E. rewrite (abs_record T fs _ Hrec) in E.
    destruct (abs_record_inv T fs v' _ Hrec E) as [vs' ->].
    rewrite (abs_record T fs _ Hrec) in E. simpl in E.
    assert (Hn: nth oi (abs_fields fs (set_nth oi (Some (VList (map VAny chunks))) vs)) None
                = Some (abs ft (VList (map VAny chunks)))) by (eapply abs_fields_nth_set; eauto).
    destruct (list_eqb_opt_nth _ _ _ _ E Hn) as [a' [Ha' Ea']].
    destruct (nth oi vs' None) as [fv|] eqn:Hfv;
      [|rewrite (abs_fields_nth_none fs vs' oi p ft Hoi Hp Hfv) in Ha'; discriminate].
    rewrite (abs_fields_nth fs vs' oi p ft fv Hoi Hfv) in Ha'. inversion Ha'; subst a'.
    destruct (list_member_facts ft t fv chunks Hlist Hany Ea') as [ys [-> [HL HF]]].
    exists vs', ys. repeat split; auto.
    assert (Hgs: nth gi (set_nth oi (Some (VList (map VAny chunks))) vs) None = Some g)
      by (rewrite nth_set_nth_other; auto).
    pose proof (abs_fields_nth fs _ gi pg gT g Hgi Hgs) as Hn2.
    destruct (list_eqb_opt_nth _ _ _ _ E Hn2) as [a2 [Ha2 Ea2]].
    destruct (nth gi vs' None) as [g'|] eqn:Hg'.
    - rewrite (abs_fields_nth fs vs' gi pg gT g' Hgi Hg') in Ha2. inversion Ha2; subst a2.
      f_equal. eapply abs_gov; eauto.
    - rewrite (abs_fields_nth_none fs vs' gi pg gT Hgi Hpg Hg') in Ha2. discriminate.
  Qed.

  Variables (dflt override: omap) (dot: bool) (wire: bytes).
  Variable v' : val.
  Hypothesis Hfirst : decode c (Some T) wire = Ok (DV T v', []).
  Hypothesis Hobs : aval_eqb (abs T v') (abs T sent) = true.

  Theorem raw_list :
    (dot = false /\ override = []) \/ resolve_type override dflt g = None ->
    exists vs' ys, dec_open c T gi oi dflt override dot wire = Ok (DV T (VRec vs'), [])
      /\ nth oi vs' None = Some (VList ys) /\ length ys = length chunks
      /\ Forall (fun y => exists ch, In ch chunks /\ octets_of y = Some ch) ys.
  Proof.
    intros Hoff. destruct (first_pass_facts_list v' Hobs) as [vs' [ys [-> [Hfv [HL [HF Hg']]]]]].
    exists vs', ys. split; [|auto].
    unfold dec_open, dec_open_after. rewrite Hfirst. simpl bind.
    destruct Hoff as [[-> ->] | Hun]; [reflexivity|].
    destruct (negb (dot || match override with [] => false | _ :: _ => true end)); [reflexivity|].
    rewrite Hrec. unfold second_pass. rewrite Hoi, Hfv, Hg', Hun. reflexivity.
  Qed.

  Theorem resolved_list : forall E (P: bytes -> val -> Prop),
    (dot = true \/ override <> []) ->
    resolve_type override dflt g = Some E ->
    (forall ch, In ch chunks -> no_eoo_prefix ch = true /\ exists w, decode c (Some E) ch = Ok (DV E w, []) /\ P ch w) ->
    exists vs' ys ws, v' = VRec vs' /\ nth oi vs' None = Some (VList ys) /\ length ys = length chunks /\
      dec_open c T gi oi dflt override dot wire
        = Ok (DV (subst_field T oi (retype_list ft E)) (VRec (set_nth oi (Some (VList ws)) vs')), []) /\
      Forall2 (fun y w => exists ch, In ch chunks /\ octets_of y = Some ch /\ P ch w) ys ws.
  Proof.
    intros E P Hon Hmap Hin. destruct (first_pass_facts_list v' Hobs) as [vs' [ys [-> [Hfv [HL [HF Hg']]]]]].
    set (allow := own_len_indef (length (tagset_of' T) - 1) wire).
    destruct (resolve_elems_spec c allow E P chunks ys Hin HF) as [ws [Hws HF2]].
    exists vs', ys, ws. repeat split; auto.
    unfold dec_open, dec_open_after. rewrite Hfirst. simpl bind.
    assert (Hr: (dot || match override with [] => false | _ :: _ => true end) = true).
    { destruct Hon as [-> | Hov]; [reflexivity|]. destruct override; [congruence|]. apply orb_true_r. }
    rewrite Hr. simpl negb. cbv iota. rewrite Hrec.
    unfold second_pass. rewrite Hoi, Hfv, Hg', Hmap, Hlist. fold allow. rewrite Hws. reflexivity.
  Qed.
End ListMember.

(* ---------- the statements of Props/C18.v ---------- *)

Definition roundtrips (c: codec) (defm: bool) (ck: N) (T: ty) : Prop :=
  forall v b, encode c defm ck T v = Ok b ->
    exists v', decode c (Some T) b = Ok (DV T v', []) /\ aval_eqb (abs T v') (abs T v) = true.

Theorem raw_is_complete_encoding :
  forall c defm ck T fs gi oi p ft pg gT vs g Ti xi ce dflt override dot wire,
  rec_fields T = Some fs -> nth_error fs oi = Some (p, ft) -> nth_error fs gi = Some (pg, gT) ->
  is_any ft = true -> not_def p -> not_def pg -> gi <> oi -> (oi < length vs)%nat ->
  nth gi vs None = Some g -> gov_ok gT g = true ->
  concrete_encoder c T = Ok ce -> sorts_members (fst ce) = false -> holds_blob ft Ti = false ->
  roundtrips c defm ck T ->
  enc_open c defm ck T oi (VRec vs) true [(Ti, xi)] = Ok wire ->
  ((dot = false /\ override = []) \/ resolve_type override dflt g = None) ->
  exists mo chunk vs' fv,
    member_opts c defm ck T p = Ok mo /\ enc c Ti mo xi = Ok chunk /\
    (is_opt p = false -> encode c defm ck Ti xi = Ok chunk) /\
    dec_open c T gi oi dflt override dot wire = Ok (DV T (VRec vs'), []) /\
    nth oi vs' None = Some fv /\ octets_of fv = Some chunk.
Proof.
  intros c defm ck T fs gi oi p ft pg gT vs g Ti xi ce dflt override dot wire
         Hrec Hoi Hgi Hany Hp Hpg Hne Hlen Hg Hgok Hce Hs Hb RT Henc Hoff.
  destruct (enc_open_plain c defm ck T fs oi p ft vs Ti xi ce wire Hrec Hoi Hany Hce Hs Hb Henc)
    as [mo [chunk [Hmo [Hch Hplain]]]].
  destruct (RT _ _ Hplain) as [v' [Hfirst Hobs]].
  exists mo, chunk.
  assert (Hres: exists vs' fv, dec_open c T gi oi dflt override dot wire = Ok (DV T (VRec vs'), [])
                               /\ nth oi vs' None = Some fv /\ octets_of fv = Some chunk).
  { destruct Hoff as [[Hd Ho] | Hun].
    - eapply raw_when_off; eauto.
    - eapply raw_when_unmapped; eauto. }
  destruct Hres as [vs' [fv [H1 [H2 H3]]]]. exists vs', fv. repeat split; auto.
  intros Hopt. rewrite <- Hch. symmetry. eapply member_chunk_is_encode; eauto.
Qed.

Theorem resolved :
  forall c defm ck T fs gi oi p ft pg gT vs g Ti xi ce dflt override dot wire chunk,
  rec_fields T = Some fs -> nth_error fs oi = Some (p, ft) -> nth_error fs gi = Some (pg, gT) ->
  is_any ft = true -> not_def p -> is_opt p = false -> not_def pg -> gi <> oi -> (oi < length vs)%nat ->
  nth gi vs None = Some g -> gov_ok gT g = true ->
  concrete_encoder c T = Ok ce -> sorts_members (fst ce) = false -> holds_blob ft Ti = false ->
  roundtrips c defm ck T -> roundtrips c defm ck Ti ->
  enc_open c defm ck T oi (VRec vs) true [(Ti, xi)] = Ok wire ->
  encode c defm ck Ti xi = Ok chunk -> no_eoo_prefix chunk = true ->
  (dot = true \/ override <> []) -> resolve_type override dflt g = Some Ti ->
  exists w vs',
    dec_open c T gi oi dflt override dot wire
      = Ok (DV (subst_field T oi Ti) (VRec (set_nth oi (Some w) vs')), []) /\
    aval_eqb (abs Ti w) (abs Ti xi) = true.
Proof.
  intros c defm ck T fs gi oi p ft pg gT vs g Ti xi ce dflt override dot wire chunk
         Hrec Hoi Hgi Hany Hp Hopt Hpg Hne Hlen Hg Hgok Hce Hs Hb RT RTi Henc Hchunk Hpre Hon Hmap.
  destruct (enc_open_plain c defm ck T fs oi p ft vs Ti xi ce wire Hrec Hoi Hany Hce Hs Hb Henc)
    as [mo [chunk' [Hmo [Hch Hplain]]]].
  rewrite (member_chunk_is_encode c defm ck T p mo Ti xi Hmo Hopt), Hchunk in Hch. inversion Hch; subst chunk'.
  destruct (RT _ _ Hplain) as [v' [Hfirst Hobs]].
  destruct (RTi _ _ Hchunk) as [w [Hin Hw]].
  destruct (resolved_when_mapped c T fs gi oi p ft gT pg Hrec Hoi Hgi Hany Hp Hpg vs g chunk Hg Hgok Hne Hlen
              dflt override dot wire v' Hfirst Hobs Ti w Hon Hmap Hpre Hin) as [vs' [Hd _]].
  exists w, vs'. split; assumption.
Qed.

Theorem override_wins_resolved :
  forall c defm ck T fs gi oi p ft pg gT vs g Ti xi ce dflt override dot wire chunk,
  rec_fields T = Some fs -> nth_error fs oi = Some (p, ft) -> nth_error fs gi = Some (pg, gT) ->
  is_any ft = true -> not_def p -> is_opt p = false -> not_def pg -> gi <> oi -> (oi < length vs)%nat ->
  nth gi vs None = Some g -> gov_ok gT g = true ->
  concrete_encoder c T = Ok ce -> sorts_members (fst ce) = false -> holds_blob ft Ti = false ->
  roundtrips c defm ck T -> roundtrips c defm ck Ti ->
  enc_open c defm ck T oi (VRec vs) true [(Ti, xi)] = Ok wire ->
  encode c defm ck Ti xi = Ok chunk -> no_eoo_prefix chunk = true ->
  omap_find g override = Some Ti ->
  exists w vs',
    dec_open c T gi oi dflt override dot wire
      = Ok (DV (subst_field T oi Ti) (VRec (set_nth oi (Some w) vs')), []) /\
    aval_eqb (abs Ti w) (abs Ti xi) = true.
Proof.
  intros. eapply resolved; eauto.
  - right. destruct override; [discriminate|congruence].
  - apply override_wins; assumption.
Qed.

(* the wrapped elements of a list member *)
Lemma wrap_inners_chunks : forall c o t inners xs,
  Forall (fun i => holds_blob t (fst i) = false) inners ->
  wrap_inners c o t inners = Ok xs ->
  exists chunks, xs = map VAny chunks /\
    Forall2 (fun i ch => enc c (fst i) o (snd i) = Ok ch) inners chunks.
Proof.
  induction inners as [|[Ti xi] inners IH]; intros xs HF H; simpl in H.
  - inversion H. exists []. split; [reflexivity|constructor].
  - inversion HF as [|? ? Hb HF']; subst. simpl in Hb. rewrite Hb in H.
    destruct (enc c Ti o xi) as [ch|e] eqn:Hch; simpl in H; [|discriminate].
    destruct (wrap_inners c o t inners) as [xs'|e] eqn:Hxs; simpl in H; [|discriminate].
    inversion H; subst. destruct (IH xs' HF' eq_refl) as [chunks [-> HF2]].
    exists (ch :: chunks). split; [reflexivity|]. constructor; auto.
Qed.

Lemma Forall2_imp : forall A B (R S: A -> B -> Prop) l1 l2,
  (forall a b, R a b -> S a b) -> Forall2 R l1 l2 -> Forall2 S l1 l2.
Proof. induction 2; constructor; auto. Qed.

Lemma Forall2_len : forall A B (R: A -> B -> Prop) l1 l2, Forall2 R l1 l2 -> length l1 = length l2.
Proof. induction 1; simpl; auto. Qed.

Lemma enc_open_plain_list : forall c defm ck T fs oi p ft t vs inners wire,
  rec_fields T = Some fs -> nth_error fs oi = Some (p, ft) -> list_elem ft = Some t -> is_any t = true ->
  Forall (fun i => holds_blob t (fst i) = false) inners ->
  enc_open c defm ck T oi (VRec vs) true inners = Ok wire ->
  exists chunks, Forall2 (fun i ch => encode c defm ck (fst i) (snd i) = Ok ch) inners chunks /\
    encode c defm ck T (VRec (set_nth oi (Some (VList (map VAny chunks))) vs)) = Ok wire.
Proof.
  intros c defm ck T fs oi p ft t vs inners wire Hrec Hoi Hl Hany HF H.
  unfold enc_open in H. rewrite Hrec, Hoi in H. simpl negb in H. cbv iota in H.
  destruct (concrete_encoder c T) as [ce|e]; simpl bind in H; [|discriminate].
  rewrite Hl in H. rewrite andb_false_r in H. unfold open_member, wrap_type in H. rewrite Hl, Hany in H.
  simpl negb in H. cbv iota in H.
  destruct (wrap_inners c (elem_opts c defm ck) t inners) as [xs|e] eqn:Hxs; simpl bind in H; [|discriminate].
  destruct (wrap_inners_chunks _ _ _ _ _ HF Hxs) as [chunks [-> HF2]].
  exists chunks. split; [|exact H].
  eapply Forall2_imp; [|exact HF2]. intros [Ti xi] ch Hc. simpl in *. rewrite <- fix_opts_member. exact Hc.
Qed.

Lemma Forall2_in_r : forall A B (R: A -> B -> Prop) l1 l2 b,
  Forall2 R l1 l2 -> In b l2 -> exists a, In a l1 /\ R a b.
Proof.
  induction 1; simpl; intros Hin; [contradiction|].
  destruct Hin as [->|Hin]; [eauto|]. destruct (IHForall2 Hin) as [a [Ha Hr]]. eauto.
Qed.

Theorem raw_list_is_complete_encodings :
  forall c defm ck T fs gi oi p ft t pg gT vs g inners dflt override dot wire,
  rec_fields T = Some fs -> nth_error fs oi = Some (p, ft) -> nth_error fs gi = Some (pg, gT) ->
  list_elem ft = Some t -> is_any t = true -> not_def p -> not_def pg -> gi <> oi -> (oi < length vs)%nat ->
  nth gi vs None = Some g -> gov_ok gT g = true ->
  Forall (fun i => holds_blob t (fst i) = false) inners ->
  roundtrips c defm ck T ->
  enc_open c defm ck T oi (VRec vs) true inners = Ok wire ->
  ((dot = false /\ override = []) \/ resolve_type override dflt g = None) ->
  exists vs' ys,
    dec_open c T gi oi dflt override dot wire = Ok (DV T (VRec vs'), []) /\
    nth oi vs' None = Some (VList ys) /\ length ys = length inners /\
    Forall (fun y => exists Ti xi ch, In (Ti, xi) inners /\ encode c defm ck Ti xi = Ok ch /\ octets_of y = Some ch) ys.
Proof.
  intros c defm ck T fs gi oi p ft t pg gT vs g inners dflt override dot wire
         Hrec Hoi Hgi Hl Hany Hp Hpg Hne Hlen Hg Hgok HF RT Henc Hoff.
  destruct (enc_open_plain_list c defm ck T fs oi p ft t vs inners wire Hrec Hoi Hl Hany HF Henc) as [chunks [HF2 Hplain]].
  destruct (RT _ _ Hplain) as [v' [Hfirst Hobs]].
  destruct (raw_list c T fs gi oi p ft t gT pg Hrec Hoi Hgi Hl Hany Hp Hpg vs g chunks Hg Hgok Hne Hlen
              dflt override dot wire v' Hfirst Hobs Hoff) as [vs' [ys [Hd [Hn [HL HFy]]]]].
  exists vs', ys. repeat split; auto.
  - rewrite HL. symmetry. eapply Forall2_len; eauto.
  - eapply Forall_impl; [|exact HFy]. intros y [ch [Hc Ho]].
    destruct (Forall2_in_r _ _ _ _ _ _ HF2 Hc) as [[Ti xi] [Hi He]]. simpl in He. exists Ti, xi, ch. auto.
Qed.

Theorem resolved_list_elements :
  forall c defm ck T fs gi oi p ft t pg gT vs g E xs dflt override dot wire,
  rec_fields T = Some fs -> nth_error fs oi = Some (p, ft) -> nth_error fs gi = Some (pg, gT) ->
  list_elem ft = Some t -> is_any t = true -> not_def p -> not_def pg -> gi <> oi -> (oi < length vs)%nat ->
  nth gi vs None = Some g -> gov_ok gT g = true ->
  holds_blob t E = false ->
  roundtrips c defm ck T -> roundtrips c defm ck E ->
  enc_open c defm ck T oi (VRec vs) true (map (fun x => (E, x)) xs) = Ok wire ->
  (forall x ch, In x xs -> encode c defm ck E x = Ok ch -> no_eoo_prefix ch = true) ->
  (dot = true \/ override <> []) -> resolve_type override dflt g = Some E ->
  exists vs' ws,
    dec_open c T gi oi dflt override dot wire
      = Ok (DV (subst_field T oi (retype_list ft E)) (VRec (set_nth oi (Some (VList ws)) vs')), []) /\
    length ws = length xs /\
    Forall (fun w => exists x, In x xs /\ aval_eqb (abs E w) (abs E x) = true) ws.
Proof.
  intros c defm ck T fs gi oi p ft t pg gT vs g E xs dflt override dot wire
         Hrec Hoi Hgi Hl Hany Hp Hpg Hne Hlen Hg Hgok Hb RT RTe Henc Hpre Hon Hmap.
  assert (HF: Forall (fun i : ty * val => holds_blob t (fst i) = false) (map (fun x => (E, x)) xs)).
  { apply Forall_forall. intros i Hi. apply in_map_iff in Hi. destruct Hi as [x [<- _]]. exact Hb. }
  destruct (enc_open_plain_list c defm ck T fs oi p ft t vs _ wire Hrec Hoi Hl Hany HF Henc) as [chunks [HF2 Hplain]].
  destruct (RT _ _ Hplain) as [v' [Hfirst Hobs]].
  set (P := fun (ch: bytes) (w: val) => exists x, In x xs /\ aval_eqb (abs E w) (abs E x) = true).
  assert (Hin: forall ch, In ch chunks ->
             no_eoo_prefix ch = true /\ exists w, decode c (Some E) ch = Ok (DV E w, []) /\ P ch w).
  { intros ch Hc. destruct (Forall2_in_r _ _ _ _ _ _ HF2 Hc) as [[Ti x] [Hi He]]. simpl in He.
    apply in_map_iff in Hi. destruct Hi as [x' [Heq Hx]]. inversion Heq; subst Ti x'.
    split; [eapply Hpre; eauto|]. destruct (RTe _ _ He) as [w [Hd Hw]]. exists w. split; auto. exists x. auto. }
  destruct (resolved_list c T fs gi oi p ft t gT pg Hrec Hoi Hgi Hl Hany Hp Hpg vs g chunks Hg Hgok Hne Hlen
              dflt override dot wire v' Hfirst Hobs E P Hon Hmap Hin) as [vs' [ys [ws [_ [_ [HL [Hd HF3]]]]]]].
  exists vs', ws. split; [exact Hd|]. split.
  - rewrite <- (Forall2_len _ _ _ _ _ HF3), HL, <- (Forall2_len _ _ _ _ _ HF2). apply map_length.
  - clear - HF3. induction HF3 as [|y w ys ws [ch [_ [_ Hp]]] _ IH]; constructor; auto.
Qed.

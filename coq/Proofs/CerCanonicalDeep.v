(* C03, clause 9 over containers: the CER encoder's output for SEQUENCE, SEQUENCE OF, SET, SET OF,
   CHOICE and ANY values (nested to any depth over the simple types, any tagging, outside findings
   F01 and F24) satisfies the reference's canonical-form check [cer_canonical] (Spec/X690.v):
   indefinite length exactly for the constructed encodings, strings of at most 1000 contents octets
   primitive, longer ones a run of full 1000-octet primitive segments and a last non-empty one.

   The check is untyped, so three things the type must not do (all computable, [shape_dom]):
   - put a UNIVERSAL string tag number, by IMPLICIT tagging, on something that is not a string
     ([tags_ok], as [cer_tags_ok] of Proofs/ReaderCer.v);
   - produce a member that begins with the octet 00 inside an indefinite-length encoding, where any
     reader takes it for end-of-contents ([eoc_safe], [nz_ty]);
   and one thing the value must not do: the octets of an ANY are written as they are, so they must
   themselves be a canonical TLV that does not begin with 00 ([anys_ok], a proposition about the value;
   vacuous for types without ANY, [any_free]). *)
From Coq Require Import Lia Sorting.Permutation.
From PV Require Import Base.Bytes Model.Tag Model.TableTypes Model.Types Model.Enc Gen.Tables Spec.X690
     Proofs.SpecOctets Proofs.TagAlgebra Proofs.ContainerCodecDefs Proofs.ContainerCodecSort
     Proofs.DerAbsFunction Proofs.DerReference Proofs.DerReference2
     Proofs.ReaderParse Proofs.ReaderInterp Proofs.ReaderFrame Proofs.ReaderModel Proofs.ReaderCer
     Proofs.CerReferenceDeep Proofs.CerComplete.
Local Open Scope N_scope.

(* ====================================================================== *)
(* 1. the domain                                                           *)
(* ====================================================================== *)

Definition str_base (B: ty) : bool := match B with TBits | TOcts | TStr _ => true | _ => false end.

(* no UNIVERSAL string tag number on anything but the string's own (innermost) identifier *)
Definition tags_ok (T: ty) : bool :=
  match tagset_of T with
  | Ok (t0 :: r) => (str_base (base_of T) || negb (ustr_tag t0)) && forallb (fun t => negb (ustr_tag t)) r
  | _ => true
  end.

(* every encoding of the type begins with a non-zero octet (an ANY: see anys_ok) *)
Fixpoint nz_ty (T: ty) : bool :=
  match T with
  | TChoice alts => forallb nz_ty alts
  | TAny => true
  | _ => match tagset_of T with
         | Ok [t0] => negb (cls_eqb (tcls t0) Univ && N.eqb (tnum t0) 0)
         | _ => true
         end
  end.

Definition pos_ok (T: ty) : bool := tags_ok T && eoc_safe T.

Fixpoint sub_dom (T: ty) : bool :=
  match T with
  | TImp _ x => sub_dom x
  | TExp _ x => (negb (bare x) || nz_ty x) && sub_dom x
  | TSeqOf t | TSetOf t => pos_ok t && nz_ty t && sub_dom t
  | TSeq fs | TSet fs =>
      (fix go (fs: list (presence * ty)) : bool :=
         match fs with [] => true | (p, ft) :: r => pos_ok ft && nz_ty ft && sub_dom ft && go r end) fs
  | TChoice alts =>
      (fix go (l: list ty) : bool := match l with [] => true | a :: r => pos_ok a && sub_dom a && go r end) alts
  | _ => true
  end.

Definition sub_fields : list (presence * ty) -> bool :=
  fix go (fs: list (presence * ty)) : bool :=
    match fs with [] => true | (p, ft) :: r => pos_ok ft && nz_ty ft && sub_dom ft && go r end.
Definition sub_alts : list ty -> bool :=
  fix go (l: list ty) : bool := match l with [] => true | a :: r => pos_ok a && sub_dom a && go r end.

Lemma sub_dom_seq fs : sub_dom (TSeq fs) = sub_fields fs. Proof. reflexivity. Qed.
Lemma sub_dom_set fs : sub_dom (TSet fs) = sub_fields fs. Proof. reflexivity. Qed.
Lemma sub_dom_choice alts : sub_dom (TChoice alts) = sub_alts alts. Proof. reflexivity. Qed.

Lemma sub_alts_in a : forall alts, sub_alts alts = true -> In a alts -> pos_ok a = true /\ sub_dom a = true.
Proof.
  induction alts as [|x r IH]; intros H Hin; [contradiction|].
  change (sub_alts (x :: r)) with (pos_ok x && sub_dom x && sub_alts r)%bool in H.
  apply andb_true_iff in H. destruct H as [H H3]. apply andb_true_iff in H. destruct H as [H1 H2].
  destruct Hin as [->|Hin]; [split; assumption|apply IH; assumption].
Qed.

Definition shape_dom (T: ty) : bool := pos_ok T && sub_dom T.

(* the octets of every ANY held by the value are a canonical TLV that does not begin with 00 *)
Fixpoint anys_ok (T: ty) (v: val) {struct T} : Prop :=
  match T with
  | TImp _ x | TExp _ x => anys_ok x v
  | TSeqOf t | TSetOf t => match v with VList xs => Forall (anys_ok t) xs | _ => True end
  | TSeq fs | TSet fs =>
      match v with
      | VRec vs =>
          (fix go (fs: list (presence * ty)) (vs: list (option val)) : Prop :=
             match fs with
             | [] => True
             | (p, ft) :: fs' => (match ohd vs with Some x => anys_ok ft x | None => True end) /\ go fs' (otl vs)
             end) fs vs
      | _ => True
      end
  | TChoice alts =>
      match v with
      | VChoice i x =>
          (fix go (l: list ty) (k: nat) : Prop :=
             match l, k with
             | a :: _, O => anys_ok a x
             | _ :: r, S k' => go r k'
             | [], _ => True
             end) alts i
      | _ => True
      end
  | TAny => match v with VAny ab => cer_ok ab /\ nz_head ab | _ => True end
  | _ => True
  end.

Definition anys_fields : list (presence * ty) -> list (option val) -> Prop :=
  fix go (fs: list (presence * ty)) (vs: list (option val)) : Prop :=
    match fs with
    | [] => True
    | (p, ft) :: fs' => (match ohd vs with Some x => anys_ok ft x | None => True end) /\ go fs' (otl vs)
    end.

Lemma anys_ok_seq fs vs : anys_ok (TSeq fs) (VRec vs) = anys_fields fs vs. Proof. reflexivity. Qed.
Lemma anys_ok_set fs vs : anys_ok (TSet fs) (VRec vs) = anys_fields fs vs. Proof. reflexivity. Qed.
Lemma anys_ok_choice alts i x :
  anys_ok (TChoice alts) (VChoice i x) = match nth_error alts i with Some a => anys_ok a x | None => True end.
Proof. cbn [anys_ok]. revert i. induction alts as [|a r IH]; intros [|i]; try reflexivity. cbn [nth_error]. apply IH. Qed.

Lemma anys_ok_base : forall T v, anys_ok T v = anys_ok (base_of T) v.
Proof.
  induction T as [| | | | | | | | n|fs IH|fs IH|t IH|t IH|alts IH| |tg x IH|tg x IH] using ty_ind'; intros v; try reflexivity.
  - cbn [anys_ok base_of]. apply IH.
  - cbn [anys_ok base_of]. apply IH.
Qed.

Lemma sub_dom_base : forall T, sub_dom T = true -> sub_dom (base_of T) = true.
Proof.
  induction T as [| | | | | | | | n|fs IH|fs IH|t IH|t IH|alts IH| |tg x IH|tg x IH] using ty_ind'; intros H; try exact H.
  - cbn [sub_dom base_of] in *. apply IH. exact H.
  - cbn [sub_dom base_of] in *. apply andb_true_iff in H. apply IH. tauto.
Qed.

(* types that hold no ANY: nothing is asked of the value *)
Fixpoint any_free (T: ty) : bool :=
  match T with
  | TImp _ x | TExp _ x => any_free x
  | TSeqOf t | TSetOf t => any_free t
  | TSeq fs | TSet fs =>
      (fix go (fs: list (presence * ty)) : bool := match fs with [] => true | (p, ft) :: r => any_free ft && go r end) fs
  | TChoice alts => forallb any_free alts
  | TAny => false
  | _ => true
  end.

Lemma any_free_anys_ok : forall T, any_free T = true -> forall v, anys_ok T v.
Proof.
  induction T as [| | | | | | | | n|fs IH|fs IH|t IH|t IH|alts IH| |tg x IH|tg x IH] using ty_ind'; intros H v;
    try exact I; try discriminate H.
  - destruct v; try exact I. rewrite anys_ok_seq. cbn [any_free] in H. revert fs0 H.
    induction fs as [|[p ft] fs' IHfs]; intros vs H; [exact I|].
    inversion IH as [|? ? H1 H2]; subst. apply andb_true_iff in H. destruct H as [Ha Hb].
    change (anys_fields ((p, ft) :: fs') vs) with
      ((match ohd vs with Some x => anys_ok ft x | None => True end) /\ anys_fields fs' (otl vs)).
    split; [destruct (ohd vs); [apply (H1 Ha)|exact I]|apply (IHfs H2 _ Hb)].
  - destruct v; try exact I. rewrite anys_ok_set. cbn [any_free] in H. revert fs0 H.
    induction fs as [|[p ft] fs' IHfs]; intros vs H; [exact I|].
    inversion IH as [|? ? H1 H2]; subst. apply andb_true_iff in H. destruct H as [Ha Hb].
    change (anys_fields ((p, ft) :: fs') vs) with
      ((match ohd vs with Some x => anys_ok ft x | None => True end) /\ anys_fields fs' (otl vs)).
    split; [destruct (ohd vs); [apply (H1 Ha)|exact I]|apply (IHfs H2 _ Hb)].
  - destruct v; try exact I. cbn [anys_ok any_free] in *. apply Forall_forall. intros x _. apply (IH H).
  - destruct v; try exact I. cbn [anys_ok any_free] in *. apply Forall_forall. intros x _. apply (IH H).
  - destruct v; try exact I. rewrite anys_ok_choice. cbn [any_free] in H.
    destruct (nth_error alts i) as [a|] eqn:Ea; [|exact I].
    rewrite Forall_forall in IH. rewrite forallb_forall in H. pose proof (nth_error_In _ _ Ea) as Hin.
    apply (IH a Hin (H a Hin)).
  - cbn [anys_ok any_free] in *. apply (IH H).
  - cbn [anys_ok any_free] in *. apply (IH H).
Qed.

(* ====================================================================== *)
(* 2. small facts                                                          *)
(* ====================================================================== *)

Lemma cwrap_cons indef t r c : cwrap indef (t :: r) c = cwrap indef r (ctlv indef (tcls t) (tnum t) c).
Proof. reflexivity. Qed.

Lemma cwrap_nz ts c : ts <> [] -> nz_head (cwrap true ts c).
Proof.
  intros Hne. destruct (exists_last Hne) as (ts0 & last & ->). rewrite cwrap_snoc.
  unfold ctlv. apply ident_nz_head. auto.
Qed.

Lemma cer_ok_nonempty e : cer_ok e -> e <> [].
Proof. intros (n & Hp & _). apply (parses_nonempty e n Hp). Qed.

Lemma ustr_false_of_negb t : negb (ustr_tag t) = true -> ustr (tcls t) (tnum t) = false.
Proof. unfold ustr_tag. intros H. apply Bool.negb_true_iff in H. exact H. Qed.

Lemma Forall_perm {A} (P: A -> Prop) l1 l2 : Permutation l1 l2 -> Forall P l1 -> Forall P l2.
Proof.
  intros Hp H. apply Forall_forall. intros x Hx. rewrite Forall_forall in H. apply H.
  apply (Permutation_in x (Permutation_sym Hp) Hx).
Qed.

Lemma sort_setof_perm_self es : Permutation es (sort_setof es).
Proof.
  unfold sort_setof. destruct es as [|a [|b r]]; try apply Permutation_refl. apply sort_by_perm_self.
Qed.

Lemma tags_ok_simple T : simple_base (base_of T) = true -> tags_ok T = cer_tags_ok T.
Proof.
  intros Hs. unfold tags_ok, cer_tags_ok. destruct (tagset_of T) as [[|t0 r]|]; try reflexivity.
  destruct (base_of T); try discriminate Hs; reflexivity.
Qed.

(* nz_ty of a type with a tag of its own, in terms of its tag set *)
Lemma nz_ty_tagged T : bare T = false ->
  nz_ty T = match tagset_of T with Ok [t0] => negb (cls_eqb (tcls t0) Univ && N.eqb (tnum t0) 0) | _ => true end.
Proof. destruct T; intros H; try discriminate H; reflexivity. Qed.

(* an EXPLICIT tag over a bare CHOICE / ANY somewhere in the stack: the bare type's encodings begin with a non-zero octet *)
Lemma sub_dom_bare_nz : forall T, cer_wrap_ok T = true -> sub_dom T = true -> bare (base_of T) = true -> bare T = false ->
  nz_ty (base_of T) = true.
Proof.
  induction T as [| | | | | | | | n|fs IH|fs IH|t IH|t IH|alts IH| |tg x IH|tg x IH] using ty_ind';
    intros Hw Hs Hb Hnb; cbn [base_of] in *; try congruence.
  - cbn [cer_wrap_ok sub_dom] in *. apply andb_true_iff in Hw. destruct Hw as [Hx Hw]. apply Bool.negb_true_iff in Hx.
    apply (IH Hw Hs Hb Hx).
  - cbn [cer_wrap_ok sub_dom] in *. apply andb_true_iff in Hw. destruct Hw as [_ Hw].
    apply andb_true_iff in Hs. destruct Hs as [Hn Hs].
    destruct (bare x) eqn:Ex.
    + rewrite (bare_base x Ex). cbn [negb orb] in Hn. exact Hn.
    + apply (IH Hw Hs Hb eq_refl).
Qed.

(* ====================================================================== *)
(* 3. the simple types (with the shape of the output, for the first octet)  *)
(* ====================================================================== *)

Theorem cer_output_cer_ok : forall T v b,
  der_ref_val T v = true -> no_f01 T = true -> eoc_safe T = true -> cer_tags_ok T = true ->
  enc CER T (mkOpts false 1000 false) v = Ok b -> cer_ok b /\ (nz_ty T = true -> nz_head b).
Proof.
  intros T v b Hd Hf Hsafe Htags He.
  change (encode CER false 1000 T v = Ok b) in He.
  destruct (cer_output_shape T v false 1000 b Hd Hf He) as (cd & fl & content & ic & t0 & r & Hce & Hc & Hts & Hc0 & Hbd & Hb).
  pose proof (der_ref_simple _ _ Hd) as Hsb.
  unfold der_ref_val in Hd.
  destruct (cer_contents_small (base_of T) v cd fl content ic Hd Hce Hc) as [Hs1 Hs2].
  destruct (leaf_reads CER (base_of T) v cd fl cer_opts content ic Hd Hce Hc) as (_ & Hic & _).
  pose proof (eoc_safe_free T _ ic Hsafe Hts) as Hfree.
  unfold cer_tags_ok in Htags. rewrite Hts in Htags. apply andb_true_iff in Htags. destruct Htags as [Ht0 Hr].
  pose (inner := ident (tcls t0) ic (tnum t0) ++
                (if ic then [128] ++ content ++ [0; 0] else length_octets (N.of_nat (length content)) ++ content)).
  change (b = fold_left (wrap_step true) r inner) in Hb.
  assert (Hinner: cer_ok inner).
  { subst inner. destruct ic.
    - destruct (Hs2 eq_refl) as (n & ps & Hn & -> & Hps & Hseg).
      apply (cer_ok_itlv_pieces (tcls t0) (tnum t0) n ps).
      + destruct Hn as [-> | ->]; discriminate.
      + apply Forall_forall. intros p Hp. rewrite Forall_forall in Hps. apply small_lt_max. apply Hps. exact Hp.
      + intros _. exact Hps.
      + intros _. exact Hseg.
    - apply (cer_ok_prim (tcls t0) (tnum t0) content); [apply Hbd; reflexivity|].
      intros Hu. apply Hs1; [reflexivity|].
      apply Bool.orb_true_iff in Ht0. destruct Ht0 as [Hi|Hn]; [exact Hi|].
      unfold ustr_tag in Hn. rewrite Hu in Hn. discriminate Hn. }
  assert (Hr': Forall (fun t => ustr (tcls t) (tnum t) = false) r).
  { apply Forall_forall. intros t Ht. rewrite forallb_forall in Hr. apply ustr_false_of_negb. apply Hr. exact Ht. }
  destruct r as [|t1 r'].
  - cbn [fold_left] in Hb. subst b. split; [exact Hinner|].
    intros Hnz. rewrite nz_ty_tagged, Hts in Hnz by (destruct T; try reflexivity; discriminate Hsb).
    subst inner. apply ident_nz_head. apply Bool.negb_true_iff in Hnz.
    destruct (tcls t0); try (left; discriminate). right. right. cbn [cls_eqb andb] in Hnz.
    destruct (N.eqb_spec (tnum t0) 0) as [E|E]; [discriminate Hnz|exact E].
  - subst b. split.
    + apply cer_ok_wrap; [exact Hr'|exact Hinner|].
      subst inner. apply ident_nz_head. cbn [eoc_free] in Hfree. tauto.
    + intros _. change (fold_left (wrap_step true) (t1 :: r') inner) with (cwrap true (t1 :: r') inner).
      apply cwrap_nz. discriminate.
Qed.

(* ====================================================================== *)
(* 4. the induction                                                        *)
(* ====================================================================== *)

Definition Pk (T: ty) : Prop := forall i v b,
  cer_all T v = true -> (i = false \/ f24c T v = false) ->
  pos_ok T = true -> sub_dom T = true -> anys_ok T v ->
  enc CER T (mkOpts false 1000 i) v = Ok b -> cer_ok b /\ (nz_ty T = true -> nz_head b).

Theorem Pk_simple T : simple_base (base_of T) = true -> Pk T.
Proof.
  intros Hs i v b Hd _ Hpos _ _ He. destruct (cer_all_simple_val T v Hs Hd) as [Hv Hf].
  assert (He': enc CER T (mkOpts false 1000 false) v = Ok b).
  { destruct i; [rewrite <- (cer_simple_ifne T v Hv)|]; exact He. }
  unfold pos_ok in Hpos. apply andb_true_iff in Hpos. destruct Hpos as [Ht Hsafe].
  rewrite (tags_ok_simple T Hs) in Ht.
  exact (cer_output_cer_ok T v b Hv Hf Hsafe Ht He').
Qed.

(* what the contents of a constructed or bare type are made of *)
Definition Qk (B: ty) : Prop := forall v cd fl content ic,
  cer_all B v = true -> sub_dom B = true -> anys_ok B v ->
  concrete_encoder CER B = Ok (cd, fl) -> enc_content CER B cd fl cer_opts v = Ok (content, ic) ->
  ic = true /\ ef_indef fl = true /\
  exists tsb es, tagset_of B = Ok tsb /\ Forall (fun t => tcon t = true) tsb /\
    content = concat es /\ Forall cer_ok es /\
    ((bare B = false \/ nz_ty B = true) -> Forall nz_head es) /\
    (bare B = true -> exists e, es = [e]) /\
    (content = [] -> f24c_base B v = true).

Theorem Pk_of_Q T : str_base (base_of T) = false -> Qk (base_of T) -> Pk T.
Proof.
  intros Hstr HQ i v b Hd Hi Hpos Hsub Hany He.
  rewrite cer_all_base in Hd. apply andb_true_iff in Hd. destruct Hd as [Hw Hdb].
  pose proof (cer_wrap_imp_ok T Hw) as Himp. rewrite anys_ok_base in Hany.
  rewrite enc_cer_unfold in He.
  destruct (concrete_encoder CER T) as [[cd fl]|] eqn:Ece; cbn [bind fst snd] in He; [|discriminate He].
  destruct (tagset_of T) as [ts|] eqn:Ets; cbn [bind] in He; [|discriminate He].
  destruct (enc_content CER T cd fl cer_opts v) as [[content ic]|] eqn:Ec; cbn [bind fst snd] in He; [|discriminate He].
  rewrite concrete_encoder_base in Ece. rewrite enc_content_base in Ec.
  destruct (HQ v cd fl content ic Hdb (sub_dom_base T Hsub) Hany Ece Ec)
    as (-> & Hfl & tsb & es & Htsb & Hcons & Hcont & Hes & Hnz & Hone & Hf24).
  rewrite Hfl in He.
  pose proof (tagset_all_cons2 T tsb ts Himp Htsb Hcons Ets) as Hall.
  destruct ts as [|t1 r1].
  - (* no tag: a CHOICE or an ANY as written *)
    cbn [frame] in He. apply ok_inj in He. subst b.
    pose proof (empty_tagset_bare T Ets) as Hb. pose proof (bare_base T Hb) as HbT. rewrite HbT in *.
    destruct (Hone Hb) as (e & ->). cbn [concat] in Hcont. rewrite app_nil_r in Hcont. subst content.
    inversion Hes as [|? ? He0 _]; subst. split; [exact He0|].
    intros Hn. specialize (Hnz (or_intror Hn)). inversion Hnz; subst. assumption.
  - assert (Hnb: bare T = false).
    { destruct (bare T) eqn:Eb; [|reflexivity]. rewrite (bare_tagset T Eb) in Ets. discriminate Ets. }
    assert (Hb: b = cwrap true (t1 :: r1) content).
    { apply (frame_cwrap (t1 :: r1) content i b Hall); [|exact He].
      destruct Hi as [Hi|Hi]; [left; exact Hi|]. right. intros E.
      unfold f24c in Hi. rewrite Hnb, (Hf24 E) in Hi. discriminate Hi. }
    subst b. split; [|intros _; apply cwrap_nz; discriminate].
    unfold pos_ok in Hpos. apply andb_true_iff in Hpos. destruct Hpos as [Ht _].
    unfold tags_ok in Ht. rewrite Ets, Hstr in Ht. cbn [orb] in Ht. apply andb_true_iff in Ht. destruct Ht as [Ht1 Htr].
    rewrite cwrap_cons. unfold cwrap. apply cer_ok_wrap.
    + apply Forall_forall. intros t Hin. rewrite forallb_forall in Htr. apply ustr_false_of_negb. apply Htr. exact Hin.
    + rewrite ctlv_true, Hcont. apply cer_ok_itlv; [exact Hes| |apply ustr_false_of_negb; exact Ht1].
      apply Hnz. destruct (bare (base_of T)) eqn:Eb; [right|left; reflexivity].
      apply (sub_dom_bare_nz T Hw Hsub Eb Hnb).
    + unfold ctlv. apply ident_nz_head. auto.
Qed.

(* an empty constructed value is finding F24's case *)
Lemma empty_is_f24 B v cd fl u : base_of B = B -> tagset_of B = Ok [utag true u] ->
  concrete_encoder CER B = Ok (cd, fl) -> ef_indef fl = true ->
  enc_content CER B cd fl cer_opts v = Ok ([], true) -> cer_all B v = true ->
  cer B v = Some (cwrap true [utag true u] []).
Proof.
  intros Hb Hts Hce Hfl He Hd.
  apply (Rcer_all B B eq_refl false v _ Hd (or_introl eq_refl)).
  rewrite enc_cer_unfold, Hce. cbn [bind fst snd]. rewrite Hts. cbn [bind]. rewrite He. cbn [bind fst snd]. rewrite Hfl.
  apply frame_cwrap_total; [constructor; [reflexivity|constructor]|left; reflexivity].
Qed.

Lemma sub_fields_cons p ft fs' : sub_fields ((p, ft) :: fs') = (pos_ok ft && nz_ty ft && sub_dom ft && sub_fields fs')%bool.
Proof. reflexivity. Qed.
Lemma anys_fields_cons p ft fs' vs :
  anys_fields ((p, ft) :: fs') vs = ((match ohd vs with Some x => anys_ok ft x | None => True end) /\ anys_fields fs' (otl vs)).
Proof. reflexivity. Qed.

(* the members written by the SEQUENCE / SET loop *)
Lemma cparts_ok : forall fs, Forall (fun f => Pk (snd f)) fs ->
  forall vs parts, cfields_ok fs vs = true -> sub_fields fs = true -> anys_fields fs vs ->
  cparts fs vs = Ok parts -> Forall cer_ok (map snd parts) /\ Forall nz_head (map snd parts).
Proof.
  induction fs as [|[p ft] fs' IH]; intros Hall vs parts Hd Hs Ha Hp.
  - cbn in Hp. injection Hp as <-. split; constructor.
  - inversion Hall as [|? ? Hft Hall']; subst. cbn [snd] in Hft. specialize (IH Hall').
    rewrite cfields_ok_cons in Hd. apply andb_true_iff in Hd. destruct Hd as [Hd1 Hd2].
    rewrite sub_fields_cons in Hs. apply andb_true_iff in Hs. destruct Hs as [Hs Hs4].
    apply andb_true_iff in Hs. destruct Hs as [Hs Hs3]. apply andb_true_iff in Hs. destruct Hs as [Hs1 Hs2].
    rewrite anys_fields_cons in Ha. destruct Ha as [Ha1 Ha2].
    rewrite cparts_cons in Hp. cbv zeta in Hp.
    assert (Hemit: forall i x, ohd vs = Some x -> cer_all ft x = true -> (i = false \/ f24c ft x = false) ->
              (do b <- enc CER ft (mkOpts false 1000 i) x; do rest <- cparts fs' (otl vs);
               Ok ((smallest_outer ft, b) :: rest)) = Ok parts ->
              Forall cer_ok (map snd parts) /\ Forall nz_head (map snd parts)).
    { intros i x Ex Hx Hi H. rewrite Ex in Ha1.
      destruct (enc CER ft (mkOpts false 1000 i) x) as [b0|] eqn:Eb; cbn [bind] in H; [|discriminate H].
      destruct (cparts fs' (otl vs)) as [rest|] eqn:Er; cbn [bind] in H; [|discriminate H].
      injection H as <-.
      destruct (Hft i x b0 Hx Hi Hs1 Hs3 Ha1 Eb) as [H1 H2].
      destruct (IH (otl vs) rest Hd2 Hs4 Ha2 Er) as [I1 I2].
      cbn [map snd]. split; constructor; try assumption. apply H2. exact Hs2. }
    destruct p as [| |d]; destruct (ohd vs) as [x|] eqn:Ex.
    + apply (Hemit false x eq_refl Hd1); [left; reflexivity|exact Hp].
    + discriminate Hd1.
    + apply andb_true_iff in Hd1. destruct Hd1 as [Hx Hf]. apply Bool.negb_true_iff in Hf.
      apply (Hemit true x eq_refl Hx); [right; exact Hf|exact Hp].
    + apply (IH (otl vs)); assumption.
    + apply andb_true_iff in Hd1. destruct Hd1 as [Hd1 Hdd]. apply andb_true_iff in Hd1. destruct Hd1 as [_ Hx].
      destruct (val_py_eq x d) as [[|]|]; [apply (IH (otl vs)); assumption| |discriminate Hp].
      apply (Hemit false x eq_refl Hx); [left; reflexivity|exact Hp].
    + apply (IH (otl vs)); assumption.
Qed.

Lemma celems_ok t : Pk t -> pos_ok t = true -> nz_ty t = true -> sub_dom t = true ->
  forall xs parts, forallb (cer_all t) xs = true -> Forall (anys_ok t) xs -> celems t xs = Ok parts ->
  Forall cer_ok parts /\ Forall nz_head parts.
Proof.
  intros Ht Hp Hn Hs. induction xs as [|x r IH]; intros parts Hd Ha He.
  - cbn in He. injection He as <-. split; constructor.
  - cbn [forallb] in Hd. apply andb_true_iff in Hd. destruct Hd as [Hx Hr].
    inversion Ha as [|? ? Ha1 Ha2]; subst.
    change (celems t (x :: r)) with (do p <- enc CER t cer_opts x; do ps <- celems t r; Ok (p :: ps)) in He.
    destruct (enc CER t cer_opts x) as [b0|] eqn:Eb; cbn [bind] in He; [|discriminate He].
    destruct (celems t r) as [ps|] eqn:Er; cbn [bind] in He; [|discriminate He].
    injection He as <-.
    destruct (Ht false x b0 Hx (or_introl eq_refl) Hp Hs Ha1 Eb) as [H1 H2].
    destruct (IH ps Hr Ha2 eq_refl) as [I1 I2].
    split; constructor; try assumption. apply H2. exact Hn.
Qed.

Definition Rk (T: ty) : Prop := forall T', base_of T' = base_of T -> Pk T'.

Theorem Rk_all : forall T, Rk T.
Proof.
  induction T as [| | | | | | | | n|fs IH|fs IH|t IH|t IH|alts IH| |tg x IH|tg x IH] using ty_ind'.
  16: { exact IH. }
  16: { exact IH. }
  1-9: (intros T' Hb; apply Pk_simple; rewrite Hb; reflexivity).
  all: intros T' Hb; apply Pk_of_Q; rewrite Hb; cbn [base_of]; [reflexivity|]; intros v cd fl content ic Hd Hs Ha Hce He.
  - (* SEQUENCE *)
    destruct v as [bb|z|bs|bo|cs| |arcs|r|vs|xs|i x|ab]; try discriminate Hd.
    rewrite cer_all_seq in Hd. rewrite sub_dom_seq in Hs. rewrite anys_ok_seq in Ha.
    pose proof Hce as Hce0. pose proof He as He0.
    encoder_is Hce. rewrite enc_content_seq_cer in He.
    destruct (cparts fs vs) as [parts|] eqn:Ep; cbn [bind] in He; [|discriminate He].
    injection He as <- <-.
    assert (HP: Forall (fun f => Pk (snd f)) fs).
    { apply Forall_forall. intros f Hf. rewrite Forall_forall in IH. apply (IH f Hf). reflexivity. }
    destruct (cparts_ok fs HP vs parts Hd Hs Ha Ep) as [H1 H2].
    split; [reflexivity|split; [reflexivity|]].
    exists [utag true 16], (map snd parts).
    split; [reflexivity|split; [constructor; [reflexivity|constructor]|split; [reflexivity|split; [exact H1|split; [intros _; exact H2|split; [discriminate|]]]]]].
    intros E. rewrite E in He0.
    pose proof (empty_is_f24 (TSeq fs) (VRec vs) _ _ 16 eq_refl eq_refl Hce0 eq_refl He0) as Hc.
    unfold f24c_base. rewrite Hc by (rewrite cer_all_seq; exact Hd). reflexivity.
  - (* SET *)
    destruct v as [bb|z|bs|bo|cs| |arcs|r|vs|xs|i x|ab]; try discriminate Hd.
    pose proof Hd as Hd0. rewrite cer_all_set in Hd. apply andb_true_iff in Hd. destruct Hd as [_ Hd].
    rewrite sub_dom_set in Hs. rewrite anys_ok_set in Ha.
    pose proof Hce as Hce0. pose proof He as He0.
    encoder_is Hce. rewrite enc_content_set_cer in He.
    destruct (cparts fs vs) as [parts|] eqn:Ep; cbn [bind] in He; [|discriminate He].
    injection He as <- <-.
    assert (HP: Forall (fun f => Pk (snd f)) fs).
    { apply Forall_forall. intros f Hf. rewrite Forall_forall in IH. apply (IH f Hf). reflexivity. }
    destruct (cparts_ok fs HP vs parts Hd Hs Ha Ep) as [H1 H2].
    assert (Hperm: Permutation (map snd parts) (map snd (sort_by tagset_ltb fst parts))).
    { apply Permutation_map. apply sort_by_perm_self. }
    split; [reflexivity|split; [reflexivity|]].
    exists [utag true 17], (map snd (sort_by tagset_ltb fst parts)).
    split; [reflexivity|split; [constructor; [reflexivity|constructor]|split; [reflexivity|split; [exact (Forall_perm _ _ _ Hperm H1)|split; [intros _; exact (Forall_perm _ _ _ Hperm H2)|split; [discriminate|]]]]]].
    intros E. rewrite E in He0.
    pose proof (empty_is_f24 (TSet fs) (VRec vs) _ _ 17 eq_refl eq_refl Hce0 eq_refl He0 Hd0) as Hc.
    unfold f24c_base. rewrite Hc. reflexivity.
  - (* SEQUENCE OF *)
    destruct v as [bb|z|bs|bo|cs| |arcs|r|vs|xs|i x|ab]; try discriminate Hd.
    pose proof Hd as Hd0. cbn [cer_all] in Hd. cbn [sub_dom] in Hs. cbn [anys_ok] in Ha.
    apply andb_true_iff in Hs. destruct Hs as [Hs Hs3]. apply andb_true_iff in Hs. destruct Hs as [Hs1 Hs2].
    pose proof Hce as Hce0. pose proof He as He0.
    encoder_is Hce. rewrite enc_content_seqof_cer in He.
    destruct (celems t xs) as [parts|] eqn:Ep; cbn [bind] in He; [|discriminate He].
    injection He as <- <-.
    destruct (celems_ok t (IH t eq_refl) Hs1 Hs2 Hs3 xs parts Hd Ha Ep) as [H1 H2].
    split; [reflexivity|split; [reflexivity|]].
    exists [utag true 16], parts.
    split; [reflexivity|split; [constructor; [reflexivity|constructor]|split; [reflexivity|split; [exact H1|split; [intros _; exact H2|split; [discriminate|]]]]]].
    intros E. rewrite E in He0.
    pose proof (empty_is_f24 (TSeqOf t) (VList xs) _ _ 16 eq_refl eq_refl Hce0 eq_refl He0 Hd0) as Hc.
    unfold f24c_base. rewrite Hc. reflexivity.
  - (* SET OF *)
    destruct v as [bb|z|bs|bo|cs| |arcs|r|vs|xs|i x|ab]; try discriminate Hd.
    pose proof Hd as Hd0. cbn [cer_all] in Hd. apply andb_true_iff in Hd. destruct Hd as [Hd _].
    cbn [sub_dom] in Hs. cbn [anys_ok] in Ha.
    apply andb_true_iff in Hs. destruct Hs as [Hs Hs3]. apply andb_true_iff in Hs. destruct Hs as [Hs1 Hs2].
    pose proof Hce as Hce0. pose proof He as He0.
    encoder_is Hce. rewrite enc_content_setof_cer in He.
    destruct (celems t xs) as [parts|] eqn:Ep; cbn [bind] in He; [|discriminate He].
    injection He as <- <-.
    destruct (celems_ok t (IH t eq_refl) Hs1 Hs2 Hs3 xs parts Hd Ha Ep) as [H1 H2].
    pose proof (sort_setof_perm_self parts) as Hperm.
    split; [reflexivity|split; [reflexivity|]].
    exists [utag true 17], (sort_setof parts).
    split; [reflexivity|split; [constructor; [reflexivity|constructor]|split; [reflexivity|split; [exact (Forall_perm _ _ _ Hperm H1)|split; [intros _; exact (Forall_perm _ _ _ Hperm H2)|split; [discriminate|]]]]]].
    intros E. rewrite E in He0.
    pose proof (empty_is_f24 (TSetOf t) (VList xs) _ _ 17 eq_refl eq_refl Hce0 eq_refl He0 Hd0) as Hc.
    unfold f24c_base. rewrite Hc. reflexivity.
  - (* CHOICE *)
    destruct v as [bb|z|bs|bo|cs| |arcs|r|vs|xs|i x|ab]; try discriminate Hd.
    rewrite cer_all_choice in Hd. rewrite sub_dom_choice in Hs. rewrite anys_ok_choice in Ha.
    encoder_is Hce. rewrite enc_content_choice in He.
    destruct (nth_error alts i) as [a|] eqn:Ea; [|discriminate Hd].
    unfold encw in He. change (enc_with CER (enc_content CER) a cer_opts x) with (enc CER a cer_opts x) in He.
    destruct (enc CER a cer_opts x) as [p|] eqn:Ep; cbn [bind] in He; [|discriminate He].
    injection He as <- <-.
    pose proof (nth_error_In _ _ Ea) as Hin.
    destruct (sub_alts_in a alts Hs Hin) as [Hpa Hsa].
    rewrite Forall_forall in IH. pose proof (IH a Hin a eq_refl) as Pa.
    destruct (Pa false x p Hd (or_introl eq_refl) Hpa Hsa Ha Ep) as [H1 H2].
    split; [reflexivity|split; [reflexivity|]].
    exists [], [p].
    split; [reflexivity|split; [constructor|split; [cbn [concat]; rewrite app_nil_r; reflexivity|split; [constructor; [exact H1|constructor]|split; [|split]]]]].
    + intros [Hbr|Hn]; [discriminate Hbr|]. constructor; [|constructor]. apply H2.
      cbn [nz_ty] in Hn. rewrite forallb_forall in Hn. apply Hn. exact Hin.
    + intros _. exists p. reflexivity.
    + intros E. exfalso. apply (cer_ok_nonempty p H1). exact E.
  - (* ANY *)
    destruct v as [bb|z|bs|bo|cs| |arcs|r|vs|xs|i x|ab]; try discriminate Hd.
    cbn [anys_ok] in Ha. destruct Ha as [Ha1 Ha2].
    encoder_is Hce. cbn [enc_content octets_of o_def cer_opts negb] in He. injection He as <- <-.
    split; [reflexivity|split; [reflexivity|]].
    exists [], [ab].
    split; [reflexivity|split; [constructor|split; [cbn [concat]; rewrite app_nil_r; reflexivity|split; [constructor; [exact Ha1|constructor]|split; [|split]]]]].
    + intros _. constructor; [exact Ha2|constructor].
    + intros _. exists ab. reflexivity.
    + intros E. exfalso. apply (cer_ok_nonempty ab Ha1). exact E.
Qed.

(* ====================================================================== *)
(* 5. the theorems                                                         *)
(* ====================================================================== *)

(* Every CER encoder output over the universe of Proofs/CerReferenceDeep.v - containers, CHOICE and ANY
   included, in whatever mode the encoder is called - meets the canonical-form rules of clause 9 *)
Theorem cer_output_canonical_all : forall T v d k b,
  cer_all T v = true -> shape_dom T = true -> anys_ok T v ->
  encode CER d k T v = Ok b -> cer_canonical b = true.
Proof.
  intros T v d k b Hd Hs Ha He. apply cer_ok_canonical.
  unfold shape_dom in Hs. apply andb_true_iff in Hs. destruct Hs as [Hp Hs].
  unfold encode in He. rewrite enc_cer_unfold, <- (enc_cer_unfold T false 1000 false v) in He.
  exact (proj1 (Rk_all T T eq_refl false v b Hd (or_introl eq_refl) Hp Hs Ha He)).
Qed.

(* types without ANY: a statement about booleans only *)
Corollary cer_output_canonical_any_free : forall T v d k b,
  cer_all T v = true -> shape_dom T = true -> any_free T = true ->
  encode CER d k T v = Ok b -> cer_canonical b = true.
Proof.
  intros T v d k b Hd Hs Hf He.
  exact (cer_output_canonical_all T v d k b Hd Hs (any_free_anys_ok T Hf v) He).
Qed.

(* what is asked of an ANY holds, for instance, of a primitive TLV *)
Lemma any_prim_ok c num contents : N.of_nat (length contents) < max_len ->
  (ustr c num = true -> (length contents <= 1000)%nat) -> (c <> Univ \/ num <> 0) ->
  cer_ok (tlv c false num contents) /\ nz_head (tlv c false num contents).
Proof.
  intros Hl Hu Hn. split; [apply cer_ok_prim; assumption|]. unfold tlv. apply ident_nz_head. tauto.
Qed.

(* ---- witnesses ---- *)

(* the universe witness of Proofs/CerReferenceDeep.v, ANY values [04 01 09], [01 01 00], [05 00] *)
Example cer_output_canonical_all_witness :
  let T := TExp (mkTag Appl false 1) (TSet [
     (Req, TImp (mkTag Ctx false 1) TInt);
     (Req, TChoice [TOcts; TImp (mkTag Ctx false 0) TBool; TExp (mkTag Ctx false 5) (TChoice [TNull; TAny])]);
     (Opt, TSetOf (TChoice [TInt; TStr 12; TAny]));
     (Def (VInt 7), TInt);
     (Opt, TExp (mkTag Priv false 2) TAny);
     (Req, TSeq [(Opt, TSeqOf TBool); (Req, TSetOf TNull)])]) in
  let v := VRec [Some (VInt 1);
     Some (VChoice 2 (VChoice 1 (VAny [4;1;9])));
     Some (VList [VChoice 1 (VOcts [104;105]); VChoice 0 (VInt 300); VChoice 2 (VAny [1;1;0]); VChoice 0 (VInt 3)]);
     Some (VInt 8); Some (VAny [5;0]);
     Some (VRec [Some (VList [VBool true]); Some (VList [])])] in
  cer_all T v = true /\ shape_dom T = true /\ anys_ok T v /\
  exists b, encode CER true 7 T v = Ok b /\ cer_canonical b = true.
Proof.
  cbv zeta. split; [vm_compute; reflexivity|]. split; [vm_compute; reflexivity|]. split.
  - assert (A1: cer_ok [4;1;9] /\ nz_head [4;1;9]).
    { apply (any_prim_ok Univ 4 [9]); [vm_compute; reflexivity|intros _; cbn [length]; lia|right; lia]. }
    assert (A2: cer_ok [1;1;0] /\ nz_head [1;1;0]).
    { apply (any_prim_ok Univ 1 [0]); [vm_compute; reflexivity|intros H; discriminate H|right; lia]. }
    assert (A3: cer_ok [5;0] /\ nz_head [5;0]).
    { apply (any_prim_ok Univ 5 []); [vm_compute; reflexivity|intros H; discriminate H|right; lia]. }
    cbn [anys_ok ohd otl]. repeat split; try exact I; try (apply A1); try (apply A2); try (apply A3).
    + repeat (constructor; [first [exact I | exact A2]|]). constructor.
    + repeat constructor.
    + constructor.
  - eexists. split; [vm_compute; reflexivity|vm_compute; reflexivity].
Qed.

(* a SEQUENCE OF segmented strings under tags, a SET OF SEQUENCE: no ANY, booleans only *)
Example cer_output_canonical_any_free_witness :
  let T := TSeq [(Req, TSeqOf (TImp (mkTag Ctx false 2) TOcts)); (Opt, TSetOf (TSeq [(Req, TInt); (Opt, TBits)]))] in
  let v := VRec [Some (VList [VOcts (repeat 65 (25 * 100)%nat); VOcts []]);
                 Some (VList [VRec [Some (VInt 2); None]; VRec [Some (VInt 1); Some (VBits [true])]])] in
  cer_all T v = true /\ shape_dom T = true /\ any_free T = true /\
  exists b, encode CER false 0 T v = Ok b /\ cer_canonical b = true.
Proof.
  cbv zeta. repeat (split; [vm_compute; reflexivity|]).
  eexists. split; [vm_compute; reflexivity|vm_compute; reflexivity].
Qed.

(* why shape_dom: [UNIVERSAL 4] IMPLICIT SEQUENCE - the untyped check takes the SEQUENCE for a constructed
   OCTET STRING and asks for segments; a component [UNIVERSAL 0] IMPLICIT NULL reads as end-of-contents *)
Example cer_canonical_needs_shape_dom :
  (let T := TImp (mkTag Univ false 4) (TSeq [(Req, TSeq [])]) in let v := VRec [Some (VRec [])] in
   cer_all T v = true /\ shape_dom T = false /\
   exists b, encode CER true 0 T v = Ok b /\ cer T v = Some b /\ cer_canonical b = false) /\
  (let T := TSeq [(Req, TImp (mkTag Univ false 0) TNull); (Req, TInt)] in let v := VRec [Some VNull; Some (VInt 5)] in
   cer_all T v = true /\ shape_dom T = false /\
   exists b, encode CER true 0 T v = Ok b /\ cer T v = Some b /\ cer_canonical b = false).
Proof.
  split; cbv zeta; (split; [vm_compute; reflexivity|]); (split; [vm_compute; reflexivity|]);
    eexists; (split; [vm_compute; reflexivity|]); split; vm_compute; reflexivity.
Qed.

(* why anys_ok: an ANY whose octets are a definite-length constructed TLV is written as it is *)
Example cer_canonical_needs_anys_ok :
  let T := TSeq [(Req, TAny)] in let v := VRec [Some (VAny [48; 0])] in
  cer_all T v = true /\ shape_dom T = true /\ cer_canonical [48; 0] = false /\
  exists b, encode CER true 0 T v = Ok b /\ cer T v = Some b /\ cer_canonical b = false.
Proof.
  cbv zeta. repeat (split; [vm_compute; reflexivity|]).
  eexists. split; [vm_compute; reflexivity|]. split; vm_compute; reflexivity.
Qed.

Print Assumptions Rk_all.
Print Assumptions cer_output_canonical_all.
Print Assumptions cer_output_canonical_any_free.

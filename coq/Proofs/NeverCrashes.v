(* C08, part 1: NO built-in exception.

   In Model/Dec.v every place where the Python code would raise a built-in exception (TypeError when a
   fragment of a constructed string is not a string, IndexError / AttributeError in the SEQUENCE / SET /
   CHOICE decoders when a component decoder hands back something that is not a value object, IndexError
   for an OBJECT IDENTIFIER without sub-identifiers ...) is an explicit outcome [Err (ECrash k)].
   This file proves that NONE of them is reachable: for every codec, every fuel, every guiding type
   (no well-formedness condition whatsoever) or none, every accumulated tag set / re-entry state / flags
   and EVERY behaviour of the stream (the statement is about all leaves of the interaction tree, so it
   covers every byte string, every way of arrival, every answer of tell / markedPosition).

   Method: a global invariant of [dec_call] by induction on the fuel, through every payload decoder:
     [R sp ae sf d] - what the entry point can hand back -
       * end-of-octets only if the caller allowed it,
       * a bare octets object only if the caller passed the substrate collector,
       * never noValue / None,
       * with spec OCTET STRING / BIT STRING / ANY a value object holding octets / bits / octets. *)
From Coq Require Import Lia.
From PV Require Import Base.Bytes Model.Tag Model.TableTypes Model.Types Model.Proc Model.Enc Model.Dec Gen.Tables.
Local Open Scope nat_scope.

(* ====================================================================================== *)
(* Part 0: all leaves of an interaction tree                                               *)
(* ====================================================================================== *)

(* errors the decoder model may end in: anything but a built-in exception (and the marker EUnclean,
   which only [guard] produces) *)
Definition good_err (e: err) : Prop := match e with ECrash _ | EUnclean => False | _ => True end.

Fixpoint leaves {A} (P: A -> Prop) (p: proc A) : Prop :=
  match p with
  | Ret a => P a
  | Raise e => good_err e
  | ReadN n k => forall b, leaves P (k b)
  | Tell k => forall q, leaves P (k q)
  | SeekBack d k => leaves P k
  | Mark k => leaves P k
  | GetMark k => forall q, leaves P (k q)
  | AtEOS k => forall b, leaves P (k b)
  | ReadAll k => forall b, leaves P (k b)
  end.

Definition rgood {A} (P: A -> Prop) (r: res A) : Prop :=
  match r with Ok a => P a | Err e => good_err e end.

Lemma leaves_bind {A B} (Q: A -> Prop) (P: B -> Prop) (p: proc A) (f: A -> proc B) :
  leaves Q p -> (forall a, Q a -> leaves P (f a)) -> leaves P (pbind p f).
Proof.
  intros Hp Hf. induction p as [a0|e|n k IH|k IH|d k IH|k IH|k IH|k IH|k IH]; cbn [pbind leaves] in *;
    try (intros x; apply IH; apply Hp); try (apply IH; exact Hp).
  - apply Hf. exact Hp.
  - exact Hp.
Qed.

Lemma leaves_mono {A} (Q P: A -> Prop) (p: proc A) : leaves Q p -> (forall a, Q a -> P a) -> leaves P p.
Proof.
  intros Hp HQ. induction p as [a0|e|n k IH|k IH|d k IH|k IH|k IH|k IH|k IH]; cbn [leaves] in *;
    try (intros x; apply IH; apply Hp); try (apply IH; exact Hp).
  - apply HQ. exact Hp.
  - exact Hp.
Qed.

Lemma leaves_bind_any {A B} (P: B -> Prop) (p: proc A) (f: A -> proc B) :
  leaves (fun _ => True) p -> (forall a, leaves P (f a)) -> leaves P (pbind p f).
Proof. intros Hp Hf. apply (leaves_bind (fun _ => True)); [exact Hp|]. intros a _. apply Hf. Qed.

(* whatever the stream does, a finished run ends in a leaf *)
Lemma leaves_resume {A} (P: A -> Prop) (p: proc A) : leaves P p ->
  forall s r s', resume p s = inr (r, s') -> rgood P r.
Proof.
  induction p as [a0|e|n k IH|k IH|d k IH|k IH|k IH|k IH|k IH]; intros Hp s r s' H; cbn [resume leaves] in *.
  - inversion H; subst. exact Hp.
  - inversion H; subst. exact Hp.
  - destruct (attempt s n) as [[c| |] s1]; [exact (IH c (Hp c) _ _ _ H)|discriminate H|].
    inversion H; subst. exact I.
  - exact (IH _ (Hp _) _ _ _ H).
  - exact (IH Hp _ _ _ H).
  - exact (IH Hp _ _ _ H).
  - exact (IH _ (Hp _) _ _ _ H).
  - destruct (Nat.eqb (length (avail s)) 0).
    + destruct (closed s); [exact (IH _ (Hp _) _ _ _ H)|discriminate H].
    + exact (IH _ (Hp _) _ _ _ H).
  - destruct (Nat.eqb (length (avail s)) 0).
    + destruct (closed s); [|discriminate H]. inversion H; subst. exact I.
    + exact (IH _ (Hp _) _ _ _ H).
Qed.

Lemma leaves_lift {A} (P: A -> Prop) (r: res A) : rgood P r -> leaves P (lift r).
Proof. destruct r; exact (fun H => H). Qed.

Lemma leaves_readN n : leaves (fun _ => True) (readN n).
Proof. intros b. exact I. Qed.
Lemma leaves_tell : leaves (fun _ => True) tell.
Proof. intros b. exact I. Qed.
Lemma leaves_read1 : leaves (fun _ => True) read1.
Proof. intros b. exact I. Qed.
Lemma leaves_getmark : leaves (fun _ => True) getmark.
Proof. intros b. exact I. Qed.

(* ====================================================================================== *)
(* Part 1: the pure functions                                                              *)
(* ====================================================================================== *)

(* the sub-identifier loop: a non-empty content never gives an empty list *)
Lemma oid_subids_good : forall fuel b, rgood (fun l => b <> [] -> l <> []) (oid_subids fuel b).
Proof.
  induction fuel as [|f IH]; intros b; cbn [oid_subids]; [exact I|].
  destruct b as [|s r]; [cbn; congruence|].
  destruct (N.ltb s 128).
  - specialize (IH r). destruct (oid_subids f r) as [rest|e]; cbn [bind rgood] in *; [discriminate|exact IH].
  - destruct (N.eqb s 128); [exact I|].
    destruct (N.leb 128 s).
    + destruct r as [|n' r']; [exact I|].
      match goal with |- rgood _ ?x => cut (rgood (fun l : list N => l <> []) x) end.
      { intros H. destruct (_ : res (list N)); cbn [rgood] in *; auto. }
      generalize (length (n' :: r')). intros fuel2.
      generalize (N.shiftl 0 7 + N.land s 127)%N as acc. revert n' r'.
      induction fuel2 as [|f2 IH2]; intros next r acc; [exact I|].
      destruct (N.leb 128 next).
      * destruct r as [|n2 r2]; [exact I|]. apply IH2.
      * specialize (IH r). destruct (oid_subids f r) as [rest|e]; cbn [bind rgood] in *; [discriminate|exact IH].
    + specialize (IH r). destruct (oid_subids f r) as [rest|e]; cbn [bind rgood] in *; [discriminate|exact IH].
Qed.

Lemma dec_oid_good b : rgood (fun _ => True) (dec_oid b).
Proof.
  unfold dec_oid. destruct b as [|o r]; [exact I|].
  pose proof (oid_subids_good (S (length (o :: r))) (o :: r)) as H.
  destruct (oid_subids (S (length (o :: r))) (o :: r)) as [subs|e]; cbn [bind rgood] in *; [|exact H].
  destruct subs as [|x l]; [exfalso; apply H; [discriminate|reflexivity]|].
  destruct (N.leb x 39); [exact I|]. destruct (N.leb x 79); exact I.
Qed.

Lemma dec_real_good b : rgood (fun _ => True) (dec_real b).
Proof.
  unfold dec_real. destruct b as [|fo chunk]; [exact I|].
  destruct (negb (N.eqb (N.land fo 128) 0)).
  - destruct chunk as [|c0 crest]; [exact I|].
    destruct (if N.eqb (N.land fo 3 + 1) 4 then (c0, crest) else ((N.land fo 3 + 1)%N, c0 :: crest)) as [n chunk1].
    destruct (firstn (N.to_nat n) chunk1); [exact I|]. destruct (skipn (N.to_nat n) chunk1); [exact I|].
    destruct (N.ltb 2 (N.land (N.shiftr fo 4) 3)); exact I.
  - destruct (negb (N.eqb (N.land fo 64) 0)); [exact I|]. destruct chunk; exact I.
Qed.

Lemma bits_of_octets_good b p : rgood (fun _ => True) (bits_of_octets b p).
Proof. unfold bits_of_octets. destruct (Nat.ltb _ _); exact I. Qed.

Lemma tm_get_good m ts : rgood (fun _ => True) (tm_get m ts).
Proof.
  unfold tm_get. destruct (tm_postponed m); [exact I|]. destruct (tm_find ts (tm_present m)); [exact I|].
  destruct (tm_default m); [|exact I]. destruct (tm_mem ts (tm_skip m)); exact I.
Qed.

(* positions handed out by the tag-to-position map are positions of the list *)
Lemma assoc_In {A B} (eqb: A -> A -> bool) k (l: list (A * B)) v : assoc eqb k l = Some v -> exists k', In (k', v) l.
Proof.
  induction l as [|[a b] r IH]; cbn [assoc]; [discriminate|].
  destruct (eqb k a); intros H.
  - inversion H; subst. exists a. left. reflexivity.
  - destruct (IH H) as [k' Hk]. exists k'. right. exact Hk.
Qed.

Lemma tag_to_pos_bound : forall fs i acc m, tag_to_pos fs i acc = Some m ->
  (forall k j, In (k, j) acc -> j < i) -> forall k j, In (k, j) m -> j < i + length fs.
Proof.
  induction fs as [|t r IH]; intros i acc m H Hacc k j Hin; cbn [tag_to_pos] in H.
  - inversion H; subst. cbn [length]. specialize (Hacc k j Hin). lia.
  - destruct (tm_postponed (tagmap_of t)); [discriminate|].
    destruct (existsb _ _); [discriminate|].
    cbn [length]. replace (i + S (length r)) with (S i + length r) by lia.
    apply (IH (S i) _ m H) with (k := k); [|exact Hin].
    intros k0 j0 Hin0. apply in_app_or in Hin0. destruct Hin0 as [Hin0|Hin0].
    + specialize (Hacc k0 j0 Hin0). lia.
    + apply in_map_iff in Hin0. destruct Hin0 as (x & Hx & _). inversion Hx; subst. lia.
Qed.

Lemma position_by_type_good l ts : rgood (fun i => i < length l) (position_by_type l ts).
Proof.
  unfold position_by_type. destruct (tag_to_pos l 0 []) as [m|] eqn:E; [|exact I].
  destruct (assoc tagset_eqb ts m) as [i|] eqn:Ea; [|exact I]. cbn [rgood].
  destruct (assoc_In _ _ _ _ Ea) as [k Hk].
  apply (tag_to_pos_bound l 0 [] m E) with (k := k); [|exact Hk]. intros k0 j0 [].
Qed.

Lemma ambiguous_run_length fs : length (ambiguous_run fs) <= length fs.
Proof.
  induction fs as [|[p t] r IH]; cbn [ambiguous_run length]; [lia|].
  destruct p; cbn [length]; lia.
Qed.

Lemma seq_position_good lf fs is_set det idx T v :
  (is_set = false -> idx < length fs) -> (det = true -> is_set = false) ->
  rgood (fun i => i < length fs) (seq_position lf fs is_set det idx T v).
Proof.
  intros Hidx Hdet. unfold seq_position. destruct det; [cbn [rgood]; auto|]. cbv zeta.
  destruct is_set.
  - pose proof (position_by_type_good (map snd fs) (effective_tagset (S lf) T v)) as H.
    rewrite map_length in H. exact H.
  - specialize (Hidx eq_refl).
    destruct (nth_error fs idx) as [[p t]|] eqn:En; [|apply nth_error_None in En; lia].
    destruct (is_req p); [exact Hidx|].
    pose proof (position_by_type_good (ambiguous_run (skipn idx fs)) (effective_tagset (S lf) T v)) as H.
    destruct (position_by_type _ _) as [k|e]; cbn [bind rgood] in *; [|exact H].
    pose proof (ambiguous_run_length (skipn idx fs)) as Hl. rewrite skipn_length in Hl. lia.
Qed.

(* ====================================================================================== *)
(* Part 2: what the entry point hands back                                                 *)
(* ====================================================================================== *)

Definition is_octs (v: val) : Prop := match v with VOcts _ => True | _ => False end.
Definition is_bits (v: val) : Prop := match v with VBits _ => True | _ => False end.
Definition is_anyv (v: val) : Prop := match v with VAny _ => True | _ => False end.

Definition spec_shape (sp: spec) (v: val) : Prop :=
  match sp with
  | STy TOcts => is_octs v
  | STy TBits => is_bits v
  | STy TAny => is_anyv v
  | _ => True
  end.

Definition R (sp: spec) (ae sf: bool) (d: dval) : Prop :=
  match d with
  | DV _ v => spec_shape sp v
  | DEoo => ae = true
  | DRaw _ => sf = true
  | DNoValue | DNone => False
  end.

(* what a payload decoder hands back *)
Definition cshape (cd: dec_codec) (v: val) : Prop :=
  match cd with
  | DcOcts | DcStr => is_octs v
  | DcBits => is_bits v
  | DcAny => is_anyv v
  | _ => True
  end.

Definition DVof (S: val -> Prop) (sf: bool) (d: dval) : Prop :=
  match d with DV _ v => S v | DRaw _ => sf = true | _ => False end.

Lemma R_weaken sp ae sf d : R sp false false d -> R sp ae sf d.
Proof. destruct d; cbn [R]; try discriminate; auto. Qed.

(* clone(value): the value stays what it is, except that BOOLEAN turns the integer into a truth value *)
Lemma leaves_create (S: val -> Prop) sf sp proto ts v :
  S v -> (forall z, v = VInt z -> forall b, S (VBool b)) -> leaves (DVof S sf) (create sp proto ts v).
Proof.
  intros Hv Hb. unfold create. cbv zeta.
  destruct (base_of (match sp with Some T => T | None => schemaless_ty proto ts end)); destruct v;
    try exact Hv; try (exact (Hb _ eq_refl _)).
  destruct (str_octets_ok n b) as [[|]|]; [exact Hv|exact I|exact I].
Qed.

Lemma leaves_create_any sf sp proto ts v : leaves (DVof (fun _ => True) sf) (create sp proto ts v).
Proof. apply leaves_create; auto. Qed.

Lemma leaves_create_octs sf sp proto ts b : leaves (DVof is_octs sf) (create sp proto ts (VOcts b)).
Proof. apply leaves_create; [exact I|]. intros z H. discriminate H. Qed.
Lemma leaves_create_bits sf sp proto ts b : leaves (DVof is_bits sf) (create sp proto ts (VBits b)).
Proof. apply leaves_create; [exact I|]. intros z H. discriminate H. Qed.
Lemma leaves_create_anyv sf sp proto ts b : leaves (DVof is_anyv sf) (create sp proto ts (VAny b)).
Proof. apply leaves_create; [exact I|]. intros z H. discriminate H. Qed.

(* the payload decoder chosen for OCTET STRING / BIT STRING / ANY by type *)
Lemma by_type_shape c T cd fl v : by_type c T = Some (cd, fl) -> cshape cd v -> spec_shape (STy T) v.
Proof.
  intros H Hs. destruct T; try exact I; destruct c; vm_compute in H; inversion H; subst; exact Hs.
Qed.

(* ====================================================================================== *)
(* Part 3: through every payload decoder                                                   *)
(* ====================================================================================== *)

Ltac lv_step :=
  match goal with
  | |- leaves _ (Ret _) => cbn [leaves]
  | |- leaves _ (Raise _) => exact I
  | |- leaves _ (pbind tell _) => apply leaves_bind_any; [apply leaves_tell|intro]
  | |- leaves _ (pbind read1 _) => apply leaves_bind_any; [apply leaves_read1|intro]
  | |- leaves _ (pbind (readN _) _) => apply leaves_bind_any; [apply leaves_readN|intro]
  | |- leaves _ (pbind getmark _) => apply leaves_bind_any; [apply leaves_getmark|intro]
  | |- leaves _ (if ?b then _ else _) => destruct b
  end.

Section DecSafe.
  Variable c : codec.
  Variable rec : spec -> tagset -> option (option N) -> bool -> bool -> proc dval.
  Variable lf : nat.
  Hypothesis Hrec : forall sp ts r ae sf, leaves (R sp ae sf) (rec sp ts r ae sf).

  Lemma leaves_read_len n : leaves (fun _ => True) (read_len lf n).
  Proof. unfold read_len. destruct (N.ltb index_max n); [exact I|apply leaves_readN]. Qed.

  Ltac lv := repeat first [ lv_step | apply leaves_bind_any; [apply leaves_read_len|intro] ].

  Lemma leaves_dec_integer sf sp proto ts len : leaves (DVof (fun _ => True) sf) (dec_integer lf sp proto ts len).
  Proof. unfold dec_integer. lv. apply leaves_create_any. Qed.

  Lemma leaves_dec_bool_cer sf sp ts len : leaves (DVof (fun _ => True) sf) (dec_bool_cer lf sp ts len).
  Proof.
    unfold dec_bool_cer. lv.
    repeat match goal with |- leaves _ (match ?x with _ => _ end) => destruct x end;
      first [exact I|apply leaves_create_any].
  Qed.

  Lemma leaves_dec_null sf sp ts len : leaves (DVof (fun _ => True) sf) (dec_null lf sp ts len).
  Proof. unfold dec_null. lv. apply leaves_create_any. Qed.

  Lemma leaves_dec_oid_v sf sp ts len : leaves (DVof (fun _ => True) sf) (dec_oid_v lf sp ts len).
  Proof.
    unfold dec_oid_v. lv. apply leaves_bind_any; [apply leaves_lift; apply dec_oid_good|]. intros x.
    apply leaves_create_any.
  Qed.

  Lemma leaves_dec_real_v sf sp ts len : leaves (DVof (fun _ => True) sf) (dec_real_v lf sp ts len).
  Proof.
    unfold dec_real_v. lv. apply leaves_bind_any; [apply leaves_lift; apply dec_real_good|]. intros x.
    apply leaves_create_any.
  Qed.

  Lemma leaves_collector S len : leaves (DVof S true) (collector lf len).
  Proof.
    unfold collector. destruct len as [n|].
    - lv. reflexivity.
    - intros b. reflexivity.
  Qed.

  (* --- OCTET STRING and the character strings: a fragment is octets, whichever way it comes back --- *)
  Lemma leaves_octets_loop sf proto sp ts len start : forall n acc,
    leaves (DVof is_octs sf) (octets_loop rec proto sp ts len start n acc).
  Proof.
    induction n as [|n IH]; intros acc; cbn [octets_loop]; [exact I|].
    lv; [|apply leaves_create_octs].
    apply (leaves_bind (R (STy TOcts) false true)); [apply Hrec|]. intros f Hf.
    destruct f as [T v| |b| |]; cbn [R spec_shape] in Hf; try discriminate Hf; try contradiction; [|apply IH].
    destruct v; cbn [is_octs] in Hf; try contradiction. apply IH.
  Qed.

  Lemma leaves_dec_octets sf proto fl sp ts len sfun : leaves (DVof is_octs sf) (dec_octets rec lf proto fl sp ts len sfun).
  Proof. unfold dec_octets. lv; [apply leaves_create_octs|apply leaves_octets_loop]. Qed.

  Lemma leaves_octets_indef_loop sf proto sp ts : forall n acc,
    leaves (DVof is_octs sf) (octets_indef_loop rec proto sp ts n acc).
  Proof.
    induction n as [|n IH]; intros acc; cbn [octets_indef_loop]; [exact I|].
    apply (leaves_bind (R (STy TOcts) true true)); [apply Hrec|]. intros f Hf.
    destruct f as [T v| |b| |]; cbn [R spec_shape] in Hf; try contradiction;
      [|apply leaves_create_octs|apply IH].
    destruct v; cbn [is_octs] in Hf; try contradiction. apply IH.
  Qed.

  (* --- BIT STRING --- *)
  Lemma leaves_add_bits acc f : R (STy TBits) true false f -> f <> DEoo -> leaves (fun _ => True) (add_bits_fragment acc f).
  Proof.
    intros Hf Hne. destruct f as [T v| |b| |]; cbn [R spec_shape] in Hf; try discriminate Hf; try contradiction.
    destruct v; cbn [is_bits] in Hf; try contradiction. exact I.
  Qed.

  Lemma leaves_bits_loop sf sp ts len start : forall n acc, leaves (DVof is_bits sf) (bits_loop rec sp ts len start n acc).
  Proof.
    induction n as [|n IH]; intros acc; cbn [bits_loop]; [exact I|].
    lv; [|apply leaves_create_bits].
    apply (leaves_bind (R (STy TBits) false false)); [apply Hrec|]. intros f Hf.
    apply leaves_bind_any; [|intros acc'; apply IH].
    apply leaves_add_bits.
    - destruct f; cbn [R] in *; try discriminate Hf; auto.
    - intros ->. discriminate Hf.
  Qed.

  Lemma leaves_dec_bits fl sp ts len sfun : leaves (DVof is_bits sfun) (dec_bits rec lf fl sp ts len sfun).
  Proof.
    unfold dec_bits. destruct sfun; [apply leaves_collector|]. lv.
    - apply leaves_bind_any; [apply leaves_lift; apply bits_of_octets_good|]. intros bs. apply leaves_create_bits.
    - apply leaves_bits_loop.
  Qed.

  Lemma leaves_bits_indef_loop sf sp ts : forall n acc, leaves (DVof is_bits sf) (bits_indef_loop rec sp ts n acc).
  Proof.
    induction n as [|n IH]; intros acc; cbn [bits_indef_loop]; [exact I|].
    apply (leaves_bind (R (STy TBits) true false)); [apply Hrec|]. intros f Hf.
    destruct f as [T v| |b| |]; try (apply leaves_create_bits);
      (apply leaves_bind_any; [apply leaves_add_bits; [exact Hf|discriminate]|intros acc'; apply IH]).
  Qed.

  Lemma leaves_dec_bits_indef sp ts sfun : leaves (DVof is_bits sfun) (dec_bits_indef rec lf sp ts sfun).
  Proof. unfold dec_bits_indef. destruct sfun; [apply leaves_collector|apply leaves_bits_indef_loop]. Qed.

  (* --- ANY --- *)
  Lemma leaves_dec_any sp ts len sfun : leaves (DVof is_anyv sfun) (dec_any lf sp ts len sfun).
  Proof.
    unfold dec_any. cbv zeta. apply leaves_bind_any.
    - destruct (match sp with None => true | Some T => negb (tagset_eqb ts (tagset_of' T)) end); [|exact I].
      intros m p. exact I.
    - intros len'. lv; [reflexivity|apply leaves_create_anyv].
  Qed.

  Lemma leaves_any_indef_loop sp ts sfun tagged : forall n acc,
    leaves (DVof is_anyv sfun) (any_indef_loop rec sp ts sfun tagged n acc).
  Proof.
    induction n as [|n IH]; intros acc; cbn [any_indef_loop]; [exact I|].
    apply (leaves_bind (R (STy TAny) true true)); [apply Hrec|]. intros f Hf.
    destruct f as [T v| |b| |]; cbn [R spec_shape] in Hf; try contradiction; [| |apply IH].
    - destruct v; cbn [is_anyv] in Hf; try contradiction. apply IH.
    - cbv zeta. destruct sfun; [reflexivity|apply leaves_create_anyv].
  Qed.

  Lemma leaves_dec_any_indef sp ts sfun : leaves (DVof is_anyv sfun) (dec_any_indef rec lf sp ts sfun).
  Proof.
    unfold dec_any_indef. cbv zeta. apply leaves_bind_any.
    - destruct (match sp with None => false | Some T => tagset_eqb ts (tagset_of' T) end); [exact I|].
      intros m p b. exact I.
    - intros header. apply leaves_any_indef_loop.
  Qed.

  (* --- the constructed types: a component is a value object (or the end-of-octets it was allowed) --- *)
  Definition ae_of (len: option N) : bool := match len with None => true | Some _ => false end.

  Lemma leaves_record_loop sf T fs is_set len start : forall n idx vs extra,
    leaves (DVof (fun _ => True) sf) (record_loop rec lf T fs is_set len start n idx vs extra).
  Proof.
    induction n as [|n IH]; intros idx vs extra; cbn [record_loop]; cbv zeta; [exact I|].
    apply leaves_bind_any; [apply leaves_tell|]. intros p.
    assert (Hfin: leaves (DVof (fun _ => True) sf)
                    (if match fs with [] => true | _ => false end then Ret (DV T (VRec []))
                     else if required_seen fs vs then Ret (DV T (VRec vs)) else Raise EMalformed)).
    { destruct (match fs with [] => true | _ => false end); [exact I|]. destruct (required_seen fs vs); exact I. }
    destruct (negb (match len with Some l => N.ltb (N.of_nat (p - start)) l | None => true end)); [exact Hfin|].
    match goal with |- leaves _ (match ?x with Some _ => _ | None => _ end) => destruct x as [sp'|] end; [|exact I].
    apply (leaves_bind (R sp' (ae_of len) false)); [apply Hrec|]. intros d Hd.
    destruct d as [Tc vc| |b| |]; cbn [R] in Hd; try discriminate Hd; try contradiction; [|exact Hfin].
    destruct (match fs with [] => true | _ => false end); [exact I|].
    destruct (negb is_set && Nat.leb (length fs) idx)%bool eqn:Eg; [exact I|].
    apply (leaves_bind (fun i => i < length fs)).
    - apply leaves_lift. apply seq_position_good.
      + intros ->. cbn [negb andb] in Eg. apply Nat.leb_gt in Eg. exact Eg.
      + intros Hd'. apply andb_prop in Hd'. destruct Hd' as [Hd' _]. destruct is_set; [discriminate Hd'|reflexivity].
    - intros i Hi. destruct (Nat.leb_spec (length fs) i) as [Hle|_]; [lia|]. apply IH.
  Qed.

  Lemma leaves_dec_record sf T fs is_set len : leaves (DVof (fun _ => True) sf) (dec_record rec lf T fs is_set len).
  Proof. unfold dec_record. cbv zeta. apply leaves_bind_any; [apply leaves_tell|]. intros start. apply leaves_record_loop. Qed.

  Lemma leaves_listof_loop sf T t len start : forall n acc,
    leaves (DVof (fun _ => True) sf) (listof_loop rec T t len start n acc).
  Proof.
    induction n as [|n IH]; intros acc; cbn [listof_loop]; cbv zeta; [exact I|].
    apply leaves_bind_any; [apply leaves_tell|]. intros p.
    destruct (negb _); [exact I|].
    apply (leaves_bind (R (STy t) (ae_of len) false)); [apply Hrec|]. intros d Hd.
    destruct d as [Tc vc| |b| |]; cbn [R] in Hd; try discriminate Hd; try contradiction; [apply IH|exact I].
  Qed.

  Lemma leaves_dec_listof sf T t len : leaves (DVof (fun _ => True) sf) (dec_listof rec lf T t len).
  Proof. unfold dec_listof. apply leaves_bind_any; [apply leaves_tell|]. intros start. apply leaves_listof_loop. Qed.

  Lemma leaves_schemaless_loop sf is_set ts len start : forall n acc,
    leaves (DVof (fun _ => True) sf) (schemaless_loop rec is_set ts len start n acc).
  Proof.
    induction n as [|n IH]; intros acc; cbn [schemaless_loop]; cbv zeta; [exact I|].
    apply leaves_bind_any; [apply leaves_tell|]. intros p.
    assert (Hfin: forall X Y, leaves (DVof (fun _ => True) sf)
                    (match acc with [] => Ret (DV X (VList [])) | (T0, _) :: _ => Ret (DV (Y T0) (
                       if is_set && forallb (fun tv => tagset_eqb (tagset_of' (fst tv)) (tagset_of' T0)) acc
                       then VList ((fix number (i: nat) (l: list (ty * val)) : list val :=
                                     match l with [] => [] | tv :: r => VChoice i (snd tv) :: number (S i) r end) O acc)
                       else VRec (map (fun tv => Some (snd tv)) acc))) end)).
    { intros X Y. destruct acc as [|[T0 v0] r]; exact I. }
    destruct (negb _); [apply Hfin|].
    apply (leaves_bind (R SNone (ae_of len) false)); [apply Hrec|]. intros d Hd.
    destruct d as [Tc vc| |b| |]; cbn [R] in Hd; try discriminate Hd; try contradiction; [apply IH|apply Hfin].
  Qed.

  Lemma leaves_dec_schemaless sf is_set ts len : leaves (DVof (fun _ => True) sf) (dec_schemaless rec lf is_set ts len).
  Proof. unfold dec_schemaless. apply leaves_bind_any; [apply leaves_tell|]. intros start. apply leaves_schemaless_loop. Qed.

  Lemma leaves_choice_place sf sp ae T alts d : R sp ae false d -> d <> DEoo ->
    leaves (DVof (fun _ => True) sf) (choice_place lf T alts d).
  Proof.
    intros Hd Hne. destruct d as [Tc vc| |b| |]; cbn [R] in Hd; try discriminate Hd; try contradiction.
    unfold choice_place. apply leaves_bind_any; [apply leaves_lift|intros i; exact I].
    pose proof (position_by_type_good alts (effective_tagset (S lf) Tc vc)) as H.
    destruct (position_by_type _ _); [exact I|exact H].
  Qed.

  Lemma leaves_choice_loop sf T alts ts tagged : forall n cur,
    match cur with Some x => DVof (fun _ => True) sf x | None => True end ->
    leaves (DVof (fun _ => True) sf) (choice_loop rec lf T alts ts tagged n cur).
  Proof.
    induction n as [|n IH]; intros cur Hcur; cbn [choice_loop]; cbv zeta; [exact I|].
    apply (leaves_bind (R (SMap (fields_tagmap true alts)) (if tagged then true else false) false)).
    { destruct tagged; apply Hrec. }
    intros d Hd.
    assert (Hk: d <> DEoo -> leaves (DVof (fun _ => True) sf)
                  (let! x := choice_place lf T alts d in if tagged then choice_loop rec lf T alts ts tagged n (Some x) else Ret x)).
    { intros Hne. apply (leaves_bind (DVof (fun _ => True) sf)); [exact (leaves_choice_place sf _ _ T alts d Hd Hne)|].
      intros x Hx. destruct tagged; [apply IH; exact Hx|exact Hx]. }
    destruct d as [Tc vc| |b| |]; try (apply Hk; discriminate).
    destruct cur as [x|]; [exact Hcur|exact I].
  Qed.

  Lemma leaves_dec_choice sf T alts ts len : leaves (DVof (fun _ => True) sf) (dec_choice rec lf T alts ts len).
  Proof.
    unfold dec_choice. cbv zeta. destruct len as [l|]; [|apply leaves_choice_loop; exact I].
    apply (leaves_bind (R (SMap (fields_tagmap true alts)) false false)).
    { destruct (tagset_eqb (tagset_of' T) ts); apply Hrec. }
    intros d Hd. apply (leaves_choice_place sf _ _ T alts d Hd). intros ->. discriminate Hd.
  Qed.

  (* --- an explicit tag: whatever is inside comes back --- *)
  Lemma leaves_raw_loop sp ae sf ts : forall n last,
    (last = DNoValue \/ (R sp ae sf last /\ last <> DEoo)) -> leaves (R sp ae sf) (raw_loop rec sp ts n last).
  Proof.
    induction n as [|n IH]; intros last Hl; cbn [raw_loop]; [exact I|].
    apply (leaves_bind (R sp true false)); [apply Hrec|]. intros d Hd.
    assert (Hk: d <> DEoo -> leaves (R sp ae sf) (raw_loop rec sp ts n d)).
    { intros Hne. apply IH. right. split; [|exact Hne].
      destruct d; cbn [R] in *; try discriminate Hd; try contradiction; auto. }
    destruct d as [Tc vc| |b| |]; try (apply Hk; discriminate).
    destruct Hl as [->|[Hl Hne]]; [exact I|].
    destruct last; try exact Hl. exact I.
  Qed.

  Lemma leaves_dec_raw sp ae ts len sfun : leaves (R sp ae sfun) (dec_raw rec lf sp ts len sfun).
  Proof.
    unfold dec_raw. destruct sfun.
    - apply (leaves_mono (DVof (fun _ => False) true)); [apply leaves_collector|].
      intros d Hd. destruct d; cbn [DVof R] in *; try contradiction; reflexivity.
    - destruct len as [l|].
      + apply (leaves_mono (R sp false false)); [apply Hrec|]. intros d. apply R_weaken.
      + apply leaves_raw_loop. left. reflexivity.
  Qed.

  (* --- the payload decoder of a class --- *)
  Lemma DVof_mono (S S': val -> Prop) sf d : (forall v, S v -> S' v) -> DVof S sf d -> DVof S' sf d.
  Proof. intros H. destruct d; cbn [DVof]; auto. Qed.

  Lemma leaves_dec_value cd fl sp ts len sfun : leaves (DVof (cshape cd) sfun) (dec_value rec lf cd fl sp ts len sfun).
  Proof.
    unfold dec_value. cbv zeta.
    destruct cd, len; cbn [cshape];
      try exact I;
      try apply leaves_dec_integer; try apply leaves_dec_bool_cer; try apply leaves_dec_null;
      try apply leaves_dec_oid_v; try apply leaves_dec_real_v;
      try apply leaves_dec_octets; try apply leaves_octets_indef_loop;
      try apply leaves_dec_bits; try apply leaves_dec_bits_indef;
      try apply leaves_dec_any; try apply leaves_dec_any_indef;
      try (destruct (negb (tag0_cons ts)); [exact I|];
           destruct sfun; [apply leaves_collector|];
           destruct sp as [T|]; [|apply leaves_dec_schemaless];
           destruct (base_of T); try exact I; first [apply leaves_dec_record|apply leaves_dec_listof]);
      try (destruct sp as [T|]; [|exact I]; destruct (base_of T); try exact I;
           destruct sfun; [apply leaves_collector|apply leaves_dec_choice]).
  Qed.

  Lemma leaves_run_value (P: dval -> Prop) (len: option N) (k: proc dval) : leaves P k ->
    leaves P (match len with
              | None => k
              | Some l => let! p0 := tell in let! v := k in let! p1 := tell in
                          if N.eqb (N.of_nat (p1 - p0)) l then Ret v else Raise EMalformed
              end).
  Proof.
    intros Hk. destruct len as [l|]; [|exact Hk].
    apply leaves_bind_any; [apply leaves_tell|]. intros p0.
    apply (leaves_bind P); [exact Hk|]. intros v Hv.
    apply leaves_bind_any; [apply leaves_tell|]. intros p1.
    destruct (N.eqb _ _); [exact Hv|exact I].
  Qed.

  Lemma DVof_R_ty c0 T cd fl ae sf d : by_type c0 T = Some (cd, fl) -> DVof (cshape cd) sf d -> R (STy T) ae sf d.
  Proof.
    intros Hb Hd. destruct d; cbn [DVof R] in *; try contradiction; [|exact Hd].
    exact (by_type_shape c0 T cd fl v Hb Hd).
  Qed.

  Lemma DVof_R_other sp cd ae sf d : (match sp with STy _ => False | _ => True end) -> DVof (cshape cd) sf d -> R sp ae sf d.
  Proof.
    intros Hsp Hd. destruct d; cbn [DVof R] in *; try contradiction; [|exact Hd].
    destruct sp; [exact I|contradiction|exact I].
  Qed.

  Lemma leaves_dispatch sp ae ts len sfun : leaves (R sp ae sfun) (dispatch c rec lf sp ts len sfun).
  Proof.
    unfold dispatch. cbv zeta.
    assert (Hfail: leaves (R sp ae sfun)
                     (match (match ts with
                             | t :: _ => if tcon t && negb (cls_eqb (tcls t) Univ) then Some (dec_raw rec lf sp ts len sfun) else None
                             | [] => None end) with
                      | Some k => match len with
                                  | None => k
                                  | Some l => let! p0 := tell in let! v := k in let! p1 := tell in
                                              if N.eqb (N.of_nat (p1 - p0)) l then Ret v else Raise EMalformed
                                  end
                      | None => Raise EMalformed end)).
    { destruct ts as [|t r]; [exact I|].
      destruct (tcon t && negb (cls_eqb (tcls t) Univ))%bool; [|exact I].
      apply leaves_run_value. apply leaves_dec_raw. }
    destruct sp as [|T|m].
    - destruct (by_tag c ts) as [[cd fl]|].
      { apply leaves_run_value. apply (leaves_mono _ _ _ (leaves_dec_value cd fl None ts len sfun)).
        intros d. apply DVof_R_other. exact I. }
      destruct (by_tag c (firstn 1 ts)) as [[cd fl]|]; [|exact Hfail].
      apply leaves_run_value. apply (leaves_mono _ _ _ (leaves_dec_value cd fl None ts len sfun)).
      intros d. apply DVof_R_other. exact I.
    - destruct (tagset_eqb ts (tagset_of' T) || tm_contains (tagmap_of T) ts)%bool; [|exact Hfail].
      destruct (tm_postponed (tagmap_of T)); [exact I|].
      destruct (by_type c T) as [[cd fl]|] eqn:Eb; [|exact Hfail].
      apply leaves_run_value. apply (leaves_mono _ _ _ (leaves_dec_value cd fl (Some T) ts len sfun)).
      intros d. exact (DVof_R_ty c T cd fl ae sfun d Eb).
    - apply leaves_bind_any; [apply leaves_lift; apply tm_get_good|]. intros chosen.
      destruct chosen as [T|]; [|exact Hfail].
      destruct (by_type c T) as [[cd fl]|]; [|exact Hfail].
      apply leaves_run_value. apply (leaves_mono _ _ _ (leaves_dec_value cd fl (Some T) ts len sfun)).
      intros d. apply DVof_R_other. exact I.
  Qed.

  Lemma leaves_long_tag cl f : forall k acc, leaves (fun _ => True) (long_tag cl f k acc).
  Proof.
    induction k as [|k IH]; intros acc; cbn [long_tag]; cbv zeta; [exact I|].
    apply leaves_bind_any; [apply leaves_read1|]. intros b. destruct (N.eqb _ _); [exact I|apply IH].
  Qed.

  Lemma leaves_read_tag : leaves (fun _ => True) (read_tag lf).
  Proof.
    unfold read_tag. cbv zeta. apply leaves_bind_any; [apply leaves_read1|]. intros o.
    destruct (N.eqb _ _); [apply leaves_long_tag|exact I].
  Qed.

  Lemma leaves_read_length : leaves (fun _ => True) (read_length c).
  Proof.
    unfold read_length. apply leaves_bind_any; [apply leaves_read1|]. intros o.
    destruct (N.ltb o 128); [exact I|]. destruct (N.eqb o 128); [destruct (support_indef c); exact I|].
    intros b. exact I.
  Qed.

  Lemma leaves_dec_body sp acc rs ae sfun : leaves (R sp ae sfun) (dec_body c rec lf sp acc rs ae sfun).
  Proof.
    unfold dec_body. cbv zeta.
    assert (Hmain: leaves (R sp ae sfun)
                     (match rs with
                      | Some len => dispatch c rec lf sp acc len sfun
                      | None => Mark (let! t := read_tag lf in let! len := read_length c in dispatch c rec lf sp (t :: acc) len sfun)
                      end)).
    { destruct rs as [len|]; [apply leaves_dispatch|]. cbn [leaves].
      apply leaves_bind_any; [apply leaves_read_tag|]. intros t.
      apply leaves_bind_any; [apply leaves_read_length|]. intros len. apply leaves_dispatch. }
    destruct (ae && support_indef c)%bool eqn:Eae; [|exact Hmain].
    apply andb_prop in Eae. destruct Eae as [Eae _].
    intros b. cbn [pbind].
    repeat match goal with |- leaves _ (match ?x with _ => _ end) => destruct x end;
      try exact Hmain.
    exact Eae.
  Qed.
End DecSafe.

(* the invariant holds of the entry point: any codec, fuel, specification, tag set, re-entry state, flags *)
Theorem leaves_dec_call c : forall f sp acc rs ae sfun, leaves (R sp ae sfun) (dec_call c f sp acc rs ae sfun).
Proof.
  induction f as [|f IH]; intros sp acc rs ae sfun; cbn [dec_call]; [exact I|].
  apply leaves_dec_body. exact IH.
Qed.
Print Assumptions leaves_dec_call.

(* ====================================================================================== *)
(* Part 4: the statements                                                                  *)
(* ====================================================================================== *)

Definition item_spec (sp: option ty) : spec := match sp with Some T => STy T | None => SNone end.

Definition is_value (d: dval) : Prop := match d with DV _ _ => True | _ => False end.

Lemma R_item_value sp d : R (item_spec sp) false false d -> is_value d.
Proof. destruct d; cbn [R is_value]; try discriminate; auto. Qed.

(* (1a) on ANY stream - open or closed, whatever has arrived, wherever the position and the mark are -
   a run of the item decoder that finishes ends in a value object or in an error that is not a built-in
   exception *)
Theorem item_never_crashes c fuel sp s r s' :
  resume (dec_item c fuel sp) s = inr (r, s') -> rgood is_value r.
Proof.
  intros H. unfold dec_item in H. fold (item_spec sp) in H.
  pose proof (leaves_resume _ _ (leaves_dec_call c fuel (item_spec sp) [] None false false) s r s' H) as Hr.
  destruct r as [d|e]; cbn [rgood] in *; [exact (R_item_value sp d Hr)|exact Hr].
Qed.

(* the same of the entry point in any state: nested calls, re-entry after the header, end-of-octets
   allowed, substrate collector *)
Theorem call_never_crashes c fuel sp acc rs ae sf s r s' :
  resume (dec_call c fuel sp acc rs ae sf) s = inr (r, s') -> rgood (R sp ae sf) r.
Proof. exact (leaves_resume _ _ (leaves_dec_call c fuel sp acc rs ae sf) s r s'). Qed.

(* suspension keeps the invariant: what is retried is a subtree *)
Lemma leaves_suspended {A} (P: A -> Prop) (p: proc A) : leaves P p -> forall s p' s', resume p s = inl (p', s') -> leaves P p'.
Proof.
  induction p as [a0|e|n k IH|k IH|d k IH|k IH|k IH|k IH|k IH]; intros Hp s p' s' H; cbn [resume leaves] in *;
    try discriminate H.
  - destruct (attempt s n) as [[c0| |] s1]; [exact (IH c0 (Hp c0) _ _ _ H)| |discriminate H].
    inversion H; subst. exact Hp.
  - exact (IH _ (Hp _) _ _ _ H).
  - exact (IH Hp _ _ _ H).
  - exact (IH Hp _ _ _ H).
  - exact (IH _ (Hp _) _ _ _ H).
  - destruct (Nat.eqb (length (avail s)) 0).
    + destruct (closed s); [exact (IH _ (Hp _) _ _ _ H)|]. inversion H; subst. exact Hp.
    + exact (IH _ (Hp _) _ _ _ H).
  - destruct (Nat.eqb (length (avail s)) 0).
    + destruct (closed s); [discriminate H|]. inversion H; subst. exact Hp.
    + exact (IH _ (Hp _) _ _ _ H).
Qed.

(* (1b) under EVERY schedule of arrivals, polls and close: whatever the driver reports is an underrun
   or a value object or an error that is not a built-in exception *)
Theorem drive_never_crashes {A} (P: A -> Prop) : forall sched (p: proc A) s, leaves P p ->
  Forall (fun o => match o with OUnder => True | ODone r _ => rgood P r end) (drive sched p s).
Proof.
  induction sched as [|e rest IH]; intros p s Hp; cbn [drive];
    destruct (resume p s) as [[p' s1]|[r s1]] eqn:E;
    try (constructor; [exact (leaves_resume P p Hp s r s1 E)|constructor]).
  - constructor; [exact I|constructor].
  - constructor; [exact I|]. apply IH. exact (leaves_suspended P p Hp s p' s1 E).
Qed.

Corollary item_drive_never_crashes c fuel sp sched s :
  Forall (fun o => match o with OUnder => True | ODone r _ => rgood is_value r end)
         (drive sched (dec_item c fuel sp) s).
Proof.
  eapply Forall_impl; [|apply (drive_never_crashes (R (item_spec sp) false false))].
  - intros [|r p]; [auto|]. destruct r as [d|e]; cbn [rgood]; [apply R_item_value|auto].
  - unfold dec_item. fold (item_spec sp). apply leaves_dec_call.
Qed.

(* (1) one-shot decoding: for every codec, every fuel, every guiding type or none, every byte string *)
Theorem decode_with_never_crashes c fuel sp b :
  match decode_with c fuel sp b with
  | Ok (d, _) => is_value d
  | Err e => good_err e
  end.
Proof.
  unfold decode_with, run_complete.
  destruct (resume (dec_item c fuel sp) (mkStream b 0 true 0)) as [[p s1]|[r s1]] eqn:E; [exact I|].
  pose proof (item_never_crashes c fuel sp _ r s1 E) as H. destruct r as [d|e]; exact H.
Qed.

Theorem NO_CRASH : forall c fuel sp b r, decode_with c fuel sp b = r ->
  match r with Err (ECrash _) => False | _ => True end.
Proof.
  intros c fuel sp b r <-. pose proof (decode_with_never_crashes c fuel sp b) as H.
  destruct (decode_with c fuel sp b) as [[d tl]|e]; [exact I|]. destruct e; try exact I. exact H.
Qed.

Theorem decode_never_crashes c sp b :
  match decode c sp b with
  | Ok (d, _) => is_value d
  | Err e => good_err e
  end.
Proof. exact (decode_with_never_crashes c (dec_fuel sp b) sp b). Qed.

Print Assumptions NO_CRASH.
Print Assumptions decode_never_crashes.
Print Assumptions item_drive_never_crashes.

(* ---------- non-vacuity: inputs that walk up to each crash site of the model and end in a library error ---------- *)
Local Open Scope N_scope.
Example crash_sites_end_in_library_errors :
  (* constructed BIT STRING with an empty fragment *)
  decode BER None [35;2;3;0] = Err EMalformed
  (* constructed OCTET STRING whose fragment is an INTEGER, indefinite and definite, with and without a type *)
  /\ decode BER None [36;128;2;1;0;0;0] = Err EMalformed
  /\ decode BER (Some TOcts) [36;128;2;1;0;0;0] = Err EMalformed
  /\ decode BER None [36;5;2;1;0;0;0] = Err EMalformed
  (* OBJECT IDENTIFIER: no content, a lone leading 0x80, a cut sub-identifier *)
  /\ decode BER None [6;0] = Err EMalformed
  /\ decode BER None [6;1;128] = Err EMalformed
  /\ decode BER None [6;2;129;128] = Err EUnderrun
  (* SEQUENCE: a component no member accepts / too many components *)
  /\ decode BER (Some (TSeq [(Opt,TInt);(Req,TBool)])) [48;3;4;1;0] = Err EMalformed
  /\ decode BER (Some (TSeq [(Req,TInt)])) [48;6;2;1;0;2;1;0] = Err EMalformed
  (* CHOICE: no alternative *)
  /\ decode BER (Some (TChoice [TInt;TBool])) [4;1;0] = Err EMalformed
  (* truncated content, unterminated long tag, indefinite length under DER, unterminated nesting *)
  /\ decode BER None [2;132;255;255;255;255] = Err EEndOfStream
  /\ decode BER None [31;255;255] = Err EEndOfStream
  /\ decode DER None [48;128;0;0] = Err EMalformed
  /\ decode BER None [160;128;160;128;160;128] = Err EEndOfStream
  /\ decode BER None [0;0;0;0] = Err EMalformed.
Proof. repeat split; vm_compute; reflexivity. Qed.

(* SET / CHOICE members of type ANY in constructed indefinite form (where a bare octets object used to
   escape): decoded *)
Example any_members_decoded :
  decode BER (Some (TSet [(Opt,TInt);(Req,TAny)])) [49;128;36;128;4;1;0;0;0;0;0]
    = Ok (DV (TSet [(Opt,TInt);(Req,TAny)]) (VRec [None; Some (VAny [36;128;4;1;0;0;0])]), []).
Proof. vm_compute. reflexivity. Qed.

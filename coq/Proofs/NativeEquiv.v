(* The value-object encoder of Model/Enc.v does not distinguish a value from its canonical form
   (Proofs/NativeRoundTrip.v), for any of the three codecs and any mode: hence encoding the
   Python tree the native encoder makes of a value gives the octets of the value itself. *)
From Coq Require Import Lia.
From PV Require Import Model.Native Proofs.NativeText Proofs.NativeRoundTrip.
Local Open Scope N_scope.

(* ---------- Python == on scalars ---------- *)

Lemma list_eqb_refl : forall A (eqb: A -> A -> bool), (forall a, eqb a a = true) ->
  forall l, list_eqb eqb l l = true.
Proof. intros A eqb H. induction l as [|a l IH]; [reflexivity|]. simpl. rewrite H, IH. reflexivity. Qed.

Lemma list_eqb_sym : forall A (eqb: A -> A -> bool), (forall a b, eqb a b = eqb b a) ->
  forall x y, list_eqb eqb x y = list_eqb eqb y x.
Proof.
  intros A eqb H. induction x as [|a x IH]; destruct y as [|b y]; try reflexivity.
  simpl. rewrite (H a b), (IH y). reflexivity.
Qed.

Lemma bytes_eqb_refl : forall b, bytes_eqb b b = true.
Proof. apply list_eqb_refl, N.eqb_refl. Qed.
Lemma bytes_eqb_sym : forall a b, bytes_eqb a b = bytes_eqb b a.
Proof. apply list_eqb_sym, N.eqb_sym. Qed.

Lemma val_py_eq_canon : forall T x d, scalar_default_ty T = true -> wf_native T x = true ->
  val_py_eq (canon T x) d = val_py_eq x d.
Proof.
  induction T; intros v d Hs Hw; try reflexivity; try discriminate Hs.
  - (* character strings *)
    destruct v; try discriminate Hw; try reflexivity.
    destruct d; try reflexivity. simpl. rewrite bytes_eqb_sym. reflexivity.
  - exact (IHT v d Hs Hw).
  - exact (IHT v d Hs Hw).
Qed.

Definition scalar_val (d: val) : bool :=
  match d with
  | VBool _ | VInt _ | VBits _ | VOcts _ | VChars _ | VNull | VOid _ => true
  | _ => false end.

Lemma val_py_eq_refl : forall d, scalar_val d = true -> val_py_eq d d = Some true.
Proof.
  destruct d; intro H; try discriminate H; cbn [val_py_eq].
  - rewrite Bool.eqb_reflx. reflexivity.
  - rewrite Z.eqb_refl. reflexivity.
  - rewrite (list_eqb_refl bool Bool.eqb Bool.eqb_reflx). reflexivity.
  - rewrite bytes_eqb_refl. reflexivity.
  - rewrite bytes_eqb_refl. reflexivity.
  - reflexivity.
  - rewrite (list_eqb_refl N N.eqb N.eqb_refl). reflexivity.
Qed.

Lemma val_py_eq_self : forall T d, scalar_default_ty T = true -> wf_native T d = true ->
  val_py_eq d d = Some true.
Proof.
  induction T; intros d Hs Hw; try discriminate Hs;
    try (apply val_py_eq_refl; destruct d; try discriminate Hw; reflexivity).
  - exact (IHT d Hs Hw).
  - exact (IHT d Hs Hw).
Qed.

(* ---------- the inner loops of Enc.enc_content, by name ---------- *)

Definition enc_list (c: codec) (t: ty) (o: eopts) : list val -> res (list bytes) :=
  fix go (xs: list val) : res (list bytes) :=
    match xs with
    | [] => Ok []
    | x :: r => do p <- enc_with c (enc_content c) t o x; do ps <- go r; Ok (p :: ps)
    end.

Definition enc_alt (c: codec) (o: eopts) (x: val) : list ty -> nat -> res (bytes * bool) :=
  fix go (alts: list ty) (k: nat) : res (bytes * bool) :=
    match alts, k with
    | a :: _, O => do p <- enc_with c (enc_content c) a o x; Ok (p, true)
    | _ :: r, S k' => go r k'
    | [], _ => Err EMalformed
    end.

Definition chosen_alt (x: val) : list ty -> nat -> tagset :=
  fix go (l: list ty) (k: nat) : tagset :=
    match l, k with
    | a :: _, O => chosen_outer a x
    | _ :: r, S k' => go r k'
    | [], _ => []
    end.

Definition omit_of (cd: enc_codec) (fl: enc_flags) : bool :=
  match cd with EcSeq => ef_omit_empty fl | EcSetCer | EcSetDer => true | _ => false end.
Definition dyn_of (cd: enc_codec) : bool := match cd with EcSetDer => true | _ => false end.
Definition field_opts (cd: enc_codec) (fl: enc_flags) (o: eopts) (p: presence) : eopts :=
  if omit_of cd fl then mkOpts (o_def o) (o_chunk o) (match p with Opt => true | _ => false end) else o.
Definition emit (c: codec) (cd: enc_codec) (fl: enc_flags) (o: eopts) (p: presence) (ft: ty) (x: val)
           (rest: res (list (tagset * bytes))) : res (list (tagset * bytes)) :=
  do b <- enc_with c (enc_content c) ft (field_opts cd fl o p) x;
  do r <- rest;
  Ok ((set_sort_key (dyn_of cd) ft x, b) :: r).

Definition enc_fields (c: codec) (cd: enc_codec) (fl: enc_flags) (o: eopts)
  : list (presence * ty) -> list (option val) -> res (list (tagset * bytes)) :=
  fix go (fs: list (presence * ty)) (vs: list (option val)) : res (list (tagset * bytes)) :=
    match fs with
    | [] => Ok []
    | (p, ft) :: fs' =>
        let ov := match vs with x :: _ => x | [] => None end in
        let vs' := match vs with _ :: r => r | [] => [] end in
        match p, ov with
        | Opt, None => go fs' vs'
        | Def d, None => go fs' vs'
        | Def d, Some x => match val_py_eq x d with
                           | Some true => go fs' vs'
                           | Some false => emit c cd fl o p ft x (go fs' vs')
                           | None => Err EUnmodelled end
        | Req, None => if all_optional_container ft then emit c cd fl o p ft (VRec []) (go fs' vs') else Err EMalformed
        | _, Some x => emit c cd fl o p ft x (go fs' vs')
        end
    end.

Lemma enc_content_seqof : forall c t cd fl o xs,
  enc_content c (TSeqOf t) cd fl o (VList xs) =
  do parts <- enc_list c t o xs;
  match cd with
  | EcSeqOfBer | EcSeqOfCer => Ok (concat parts, true)
  | EcSetOfCer => Ok (concat (sort_setof parts), true)
  | _ => Err EMalformed
  end.
Proof. reflexivity. Qed.

Lemma enc_content_setof : forall c t cd fl o xs,
  enc_content c (TSetOf t) cd fl o (VList xs) =
  do parts <- enc_list c t o xs;
  match cd with
  | EcSeqOfBer | EcSeqOfCer => Ok (concat parts, true)
  | EcSetOfCer => Ok (concat (sort_setof parts), true)
  | _ => Err EMalformed
  end.
Proof. reflexivity. Qed.

Lemma enc_content_choice : forall c alts cd fl o i x,
  enc_content c (TChoice alts) cd fl o (VChoice i x) =
  match cd with EcChoice => enc_alt c o x alts i | _ => Err EMalformed end.
Proof. intros. destruct cd; reflexivity. Qed.

Lemma enc_content_seq : forall c fs cd fl o vs,
  enc_content c (TSeq fs) cd fl o (VRec vs) =
  do parts <- enc_fields c cd fl o fs vs;
  match cd with
  | EcSeq => Ok (concat (map snd parts), true)
  | EcSetCer | EcSetDer => Ok (concat (map snd (sort_by tagset_ltb fst parts)), true)
  | _ => Err EMalformed
  end.
Proof. reflexivity. Qed.

Lemma enc_content_set : forall c fs cd fl o vs,
  enc_content c (TSet fs) cd fl o (VRec vs) =
  do parts <- enc_fields c cd fl o fs vs;
  match cd with
  | EcSeq => Ok (concat (map snd parts), true)
  | EcSetCer | EcSetDer => Ok (concat (map snd (sort_by tagset_ltb fst parts)), true)
  | _ => Err EMalformed
  end.
Proof. reflexivity. Qed.

Lemma chosen_outer_choice : forall alts i x, chosen_outer (TChoice alts) (VChoice i x) = chosen_alt x alts i.
Proof. reflexivity. Qed.

Lemma enc_fields_cons : forall c cd fl o p ft fs' vs,
  enc_fields c cd fl o ((p, ft) :: fs') vs =
  let ov := match vs with x :: _ => x | [] => None end in
  let vs' := match vs with _ :: r => r | [] => [] end in
  match p, ov with
  | Opt, None => enc_fields c cd fl o fs' vs'
  | Def d, None => enc_fields c cd fl o fs' vs'
  | Def d, Some x => match val_py_eq x d with
                     | Some true => enc_fields c cd fl o fs' vs'
                     | Some false => emit c cd fl o p ft x (enc_fields c cd fl o fs' vs')
                     | None => Err EUnmodelled end
  | Req, None => if all_optional_container ft then emit c cd fl o p ft (VRec []) (enc_fields c cd fl o fs' vs')
                 else Err EMalformed
  | _, Some x => emit c cd fl o p ft x (enc_fields c cd fl o fs' vs')
  end.
Proof. reflexivity. Qed.

Lemma canon_fields_cons : forall p ft fs' vs,
  canon_fields ((p, ft) :: fs') vs =
  (match (match vs with x :: _ => x | [] => None end), p with
   | Some x, _ => Some (canon ft x)
   | None, Def d => Some (canon ft d)
   | None, _ => None
   end) :: canon_fields fs' (match vs with _ :: r => r | [] => [] end).
Proof. reflexivity. Qed.

Lemma wf_fields_cons : forall p ft fs' vs,
  wf_fields ((p, ft) :: fs') vs =
  (match (match vs with x :: _ => x | [] => None end), p with
   | Some x, _ => wf_native ft x
   | None, Opt => true
   | None, Def d => wf_native ft d
   | None, Req => false
   end) && wf_fields fs' (match vs with _ :: r => r | [] => [] end).
Proof. reflexivity. Qed.

(* ---------- the encoder does not tell a value from its canonical form ---------- *)

Definition EncOk (c: codec) (T: ty) : Prop :=
  ok17_ty T = true -> forall v, wf_native T v = true ->
  (forall cd fl o, enc_content c T cd fl o (canon T v) = enc_content c T cd fl o v)
  /\ chosen_outer T (canon T v) = chosen_outer T v.

Lemma enc_with_eq : forall c T o v v',
  (forall cd fl o, enc_content c T cd fl o v' = enc_content c T cd fl o v) ->
  enc_with c (enc_content c) T o v' = enc_with c (enc_content c) T o v.
Proof.
  intros c T o v v' H. unfold enc_with.
  destruct (concrete_encoder c T) as [[cd fl]|e]; [|reflexivity]. cbn [bind].
  destruct (tagset_of T) as [ts|e]; [|reflexivity]. cbn [bind].
  rewrite H. reflexivity.
Qed.

Lemma emit_eq : forall c cd fl o p ft x rest, EncOk c ft -> ok17_ty ft = true -> wf_native ft x = true ->
  emit c cd fl o p ft (canon ft x) rest = emit c cd fl o p ft x rest.
Proof.
  intros c cd fl o p ft x rest IH Hok Hw. destruct (IH Hok x Hw) as [He Hc].
  unfold emit. rewrite (enc_with_eq c ft _ x (canon ft x) He).
  unfold set_sort_key. rewrite Hc. reflexivity.
Qed.

Lemma enc_list_canon : forall c t o, EncOk c t -> ok17_ty t = true ->
  forall xs, forallb (wf_native t) xs = true ->
  enc_list c t o (map (canon t) xs) = enc_list c t o xs.
Proof.
  intros c t o IH Hok. induction xs as [|x xs IHxs]; intro H; [reflexivity|].
  simpl in H. apply andb_prop in H. destruct H as [Hx Hxs].
  cbn [map enc_list]. fold (enc_list c t o).
  rewrite (enc_with_eq c t o x (canon t x) (proj1 (IH Hok x Hx))), (IHxs Hxs). reflexivity.
Qed.

Lemma enc_alt_canon : forall c o x alts, Forall (EncOk c) alts -> forallb ok17_ty alts = true ->
  forall k, wf_alt x alts k = true ->
  enc_alt c o (canon_alt x alts k) alts k = enc_alt c o x alts k
  /\ chosen_alt (canon_alt x alts k) alts k = chosen_alt x alts k.
Proof.
  intros c o x alts HF. induction HF as [|a r Ha _ IH]; intros Hok k H.
  - destruct k; discriminate H.
  - simpl in Hok. apply andb_prop in Hok. destruct Hok as [Hoka Hokr].
    destruct k as [|k'].
    + cbn [wf_alt] in H. destruct (Ha Hoka x H) as [He Hc].
      cbn [enc_alt canon_alt chosen_alt]. split; [|exact Hc].
      rewrite (enc_with_eq c a o x (canon a x) He). reflexivity.
    + exact (IH Hokr k' H).
Qed.

Definition ok_field (f: presence * ty) : bool :=
  ok17_ty (snd f) && match fst f with
                     | Def d => scalar_default_ty (snd f) && wf_native (snd f) d
                     | _ => true end.

Lemma enc_fields_canon : forall c cd fl o fs, Forall (fun f => EncOk c (snd f)) fs ->
  forallb ok_field fs = true ->
  forall vs, wf_fields fs vs = true ->
  enc_fields c cd fl o fs (canon_fields fs vs) = enc_fields c cd fl o fs vs.
Proof.
  intros c cd fl o fs HF. induction HF as [|[p ft] fs' Hft _ IH]; intros Hok vs Hwf; [reflexivity|].
  simpl in Hft. cbn [forallb] in Hok. apply andb_prop in Hok. destruct Hok as [Hokf Hokr].
  unfold ok_field in Hokf. cbn [fst snd] in Hokf. apply andb_prop in Hokf. destruct Hokf as [Hokt Hokd].
  rewrite wf_fields_cons in Hwf. apply andb_prop in Hwf. destruct Hwf as [Hslot Hrest].
  rewrite canon_fields_cons, !enc_fields_cons. cbv zeta.
  specialize (IH Hokr _ Hrest).
  destruct vs as [|[x|] vs']; cbn [hd tl] in *.
  - (* no slot at all: as an unassigned one *)
    destruct p as [| |d]; try discriminate Hslot.
    + exact IH.
    + apply andb_prop in Hokd. destruct Hokd as [Hsc Hwd].
      rewrite (val_py_eq_canon ft d d Hsc Hwd), (val_py_eq_self ft d Hsc Hwd). exact IH.
  - (* assigned *)
    destruct p as [| |d].
    + rewrite IH. apply emit_eq; assumption.
    + rewrite IH. apply emit_eq; assumption.
    + apply andb_prop in Hokd. destruct Hokd as [Hsc Hwd].
      rewrite (val_py_eq_canon ft x d Hsc Hslot).
      destruct (val_py_eq x d) as [[|]|]; [exact IH| |reflexivity].
      rewrite IH. apply emit_eq; assumption.
  - (* unassigned *)
    destruct p as [| |d]; try discriminate Hslot.
    + exact IH.
    + apply andb_prop in Hokd. destruct Hokd as [Hsc Hwd].
      rewrite (val_py_eq_canon ft d d Hsc Hwd), (val_py_eq_self ft d Hsc Hwd). exact IH.
Qed.

Lemma ok17_fields : forall fs,
  forallb (fun f : presence * ty => ok17_ty (snd f)
             && match fst f with
                | Def d => scalar_default_ty (snd f) && wf_native (snd f) d
                | _ => true end) fs = forallb ok_field fs.
Proof. reflexivity. Qed.

Theorem encoder_ignores_canon : forall c T, EncOk c T.
Proof.
  intro c. apply ty_ind'; unfold EncOk.
  - intros _ v _. split; reflexivity.
  - intros _ v _. split; reflexivity.
  - intros _ v _. split; reflexivity.
  - intros _ v _. split; reflexivity.
  - intros _ v _. split; reflexivity.
  - intros _ v _. split; reflexivity.
  - intros _ v _. split; reflexivity.
  - (* REAL *) intros _ v H. destruct v as [| | | | | | |r| | | |]; try discriminate H.
    split; [|reflexivity]. intros cd fl o.
    destruct r as [| |m e|m e|]; simpl in H; try discriminate H; try reflexivity;
      apply Z.eqb_eq in H; subst m; destruct cd; reflexivity.
  - (* character strings *) intros n _ v H. split; [|reflexivity]. intros cd fl o.
    destruct v; try discriminate H; try reflexivity; destruct cd; reflexivity.
  - (* SEQUENCE *) intros fs HF Hok v H. destruct v as [| | | | | | | |vs| | |]; try discriminate H.
    rewrite wf_seq in H. split; [|reflexivity]. intros cd fl o.
    cbn [ok17_ty] in Hok. rewrite ok17_fields in Hok.
    rewrite canon_seq, !enc_content_seq, (enc_fields_canon c cd fl o fs HF Hok vs H). reflexivity.
  - (* SET *) intros fs HF Hok v H. destruct v as [| | | | | | | |vs| | |]; try discriminate H.
    rewrite wf_set in H. split; [|reflexivity]. intros cd fl o.
    cbn [ok17_ty] in Hok. rewrite ok17_fields in Hok.
    rewrite canon_set, !enc_content_set, (enc_fields_canon c cd fl o fs HF Hok vs H). reflexivity.
  - (* SEQUENCE OF *) intros t IH Hok v H. destruct v as [| | | | | | | | |xs| |]; try discriminate H.
    simpl in H, Hok. split; [|reflexivity]. intros cd fl o.
    change (canon (TSeqOf t) (VList xs)) with (VList (map (canon t) xs)).
    rewrite !enc_content_seqof, (enc_list_canon c t o IH Hok xs H). reflexivity.
  - (* SET OF *) intros t IH Hok v H. destruct v as [| | | | | | | | |xs| |]; try discriminate H.
    simpl in H, Hok. split; [|reflexivity]. intros cd fl o.
    change (canon (TSetOf t) (VList xs)) with (VList (map (canon t) xs)).
    rewrite !enc_content_setof, (enc_list_canon c t o IH Hok xs H). reflexivity.
  - (* CHOICE *) intros alts HF Hok v H. destruct v as [| | | | | | | | | |i x|]; try discriminate H.
    rewrite wf_choice in H. cbn [ok17_ty] in Hok.
    rewrite canon_choice, !chosen_outer_choice. split.
    + intros cd fl o. rewrite !enc_content_choice.
      destruct cd; try reflexivity. apply (enc_alt_canon c o x alts HF Hok i H).
    + apply (enc_alt_canon c (mkOpts true 0 false) x alts HF Hok i H).
  - (* ANY *) intros Hok. discriminate Hok.
  - (* IMPLICIT *) intros t x IH Hok v H. destruct (IH Hok v H) as [He Hc].
    split; [exact He|]. destruct v; reflexivity.
  - (* EXPLICIT *) intros t x IH Hok v H. destruct (IH Hok v H) as [He Hc].
    split; [exact He|]. destruct v; reflexivity.
Qed.

(* ---------- C17, second half ---------- *)

Theorem pyvalue_equiv : forall c defm chunk T v p,
  ok17 T v = true -> pyval_of T v = Ok p ->
  encode_py c defm chunk T p = encode c defm chunk T v.
Proof.
  intros c defm chunk T v p Hok Hp. unfold ok17 in Hok. apply andb_prop in Hok. destruct Hok as [Hty Hwf].
  destruct (native_builtins_roundtrip T true v Hwf) as [p' [E1 E2]].
  unfold pyval_of in Hp. rewrite E1 in Hp. injection Hp as <-.
  unfold encode_py. rewrite E2. cbn [bind]. unfold encode, enc.
  apply enc_with_eq. apply (encoder_ignores_canon c T Hty v Hwf).
Qed.

Theorem pyvalue_equiv_three : forall T v p, ok17 T v = true -> pyval_of T v = Ok p ->
  encode_py BER true 0 T p = encode BER true 0 T v
  /\ encode_py CER true 0 T p = encode CER true 0 T v
  /\ encode_py DER true 0 T p = encode DER true 0 T v.
Proof. intros T v p H E. repeat split; exact (pyvalue_equiv _ true 0 T v p H E). Qed.

(* an OPTIONAL member absent from the mapping is skipped; a mandatory or DEFAULT one is refused *)
Lemma absent_optional_key : forall s ft fs kvs i,
  lookup_py i kvs = None ->
  from_fields s kvs i ((Opt, ft) :: fs) = (do r <- from_fields s kvs (S i) fs; Ok (None :: r)).
Proof. intros s ft fs kvs i H. cbn [from_fields]. rewrite H. reflexivity. Qed.

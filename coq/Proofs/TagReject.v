(* C13, rejection half: an encoding of a simple type under any stack of IMPLICIT/EXPLICIT tags is
   refused (with a library error) by a decoder guided by a type whose tag set differs.

   What the decoder does: it reads identifier octets from the outside inwards, accumulating the tags
   (innermost first) and comparing the accumulated tags with the WHOLE tag set of the guiding type
   (Tag equality: class and number only, the primitive/constructed bit takes no part).  While they
   differ and the tag just read is constructed and not UNIVERSAL it takes that tag for an EXPLICIT
   wrapper and goes one level in; when they differ at a primitive tag it gives up.  So an encoding
   with tags [t0; r1..rk] (t0 innermost) is compared with the guiding tag set at the suffixes
   [rk], [r(k-1); rk], ..., [r1..rk], [t0; r1..rk]:

   - if none of those equals the guiding tag set, the input is rejected for every guiding type that
     is not an untagged CHOICE/ANY ([framed_mismatch_rejected], [tag_mismatch_rejected_stage1]);
   - if a PROPER suffix [rj..rk] (j >= 1) equals the guiding tag set, the guiding type's value
     decoder is entered on a constructed encoding whose contents are the inner TLVs.  The decoders
     of BOOLEAN, INTEGER, ENUMERATED, NULL, OBJECT IDENTIFIER and REAL refuse the constructed form
     ([tag_mismatch_rejected_scalar]); so do the DER decoders of the string types
     ([tag_mismatch_rejected_der]).  The BER and CER decoders of OCTET STRING, BIT STRING and the
     character strings take the inner TLVs for the segments of a constructed string and may ACCEPT:
     see the witnesses at the end of the file. *)
From Coq Require Import Lia.
From PV Require Import Base.Bytes Model.Tag Model.TableTypes Model.Types Model.Proc Model.Enc Model.Dec Gen.Tables
     Proofs.ProcBind Proofs.RunLemmas Proofs.TagOctets Proofs.DecHeader Proofs.DecFrame Proofs.DecPrim
     Proofs.TagsetShape Proofs.RoundTrip1.
Local Open Scope N_scope.

(* ---------- the condition on the two tag sets ---------- *)

(* no non-empty suffix of [l] (that is: [l] with some inner tags removed, or [l] itself) equals [ts'] *)
Fixpoint suffix_free (l ts': tagset) : bool :=
  match l with
  | [] => true
  | _ :: l' => negb (tagset_eqb l ts') && suffix_free l' ts'
  end.

(* [ts] = tag set of the type that was encoded, [ts'] = tag set of the guiding type (both innermost
   first).  True when [ts'] is neither [ts] nor [ts] stripped of one or more of its inner tags. *)
Definition tags_differ (ts ts': tagset) : bool := suffix_free ts ts'.

Lemma suffix_free_spec : forall l ts', suffix_free l ts' = true ->
  forall p q, l = p ++ q -> q <> [] -> tagset_eqb q ts' = false.
Proof.
  induction l as [|x l IH]; intros ts' H p q Hpq Hq.
  - destruct p; destruct q; try discriminate. congruence.
  - cbn [suffix_free] in H. apply Bool.andb_true_iff in H. destruct H as [H0 H1].
    destruct p as [|y p].
    + cbn [app] in Hpq. subst q. destruct (tagset_eqb (x :: l) ts'); [discriminate|reflexivity].
    + cbn [app] in Hpq. inversion Hpq; subst. apply (IH ts' H1 p q eq_refl Hq).
Qed.

Lemma tagset_eqb_len_false : forall a b, length a <> length b -> tagset_eqb a b = false.
Proof.
  intros a b H. destruct (tagset_eqb a b) eqn:E; [|reflexivity].
  apply tagset_eqb_length in E. contradiction.
Qed.

(* how strong the condition is: it holds whenever the guiding tag set is longer ... *)
Lemma tags_differ_longer : forall ts ts', (length ts < length ts')%nat -> tags_differ ts ts' = true.
Proof.
  unfold tags_differ. induction ts as [|x ts IH]; intros ts' H; [reflexivity|].
  cbn [suffix_free]. rewrite tagset_eqb_len_false by (cbn [length] in *; lia).
  cbn [negb andb]. apply IH. cbn [length] in H. lia.
Qed.

(* ... and whenever the two have the same number of tags and differ in class or number somewhere *)
Lemma tags_differ_same_length : forall ts ts', length ts = length ts' ->
  tagset_eqb ts ts' = false -> tags_differ ts ts' = true.
Proof.
  unfold tags_differ. intros [|x ts] ts' Hl Hne; [reflexivity|].
  cbn [suffix_free]. rewrite Hne. cbn [negb andb]. apply tags_differ_longer. cbn [length] in Hl. lia.
Qed.

Lemma tags_differ_neq : forall ts ts', ts <> [] -> tags_differ ts ts' = true -> tagset_eqb ts ts' = false.
Proof.
  intros ts ts' Hne H. apply (suffix_free_spec ts ts' H [] ts eq_refl Hne).
Qed.

(* ---------- value decoders that refuse the constructed form outright ---------- *)

Definition cons_rejecting (cd: dec_codec) (fl: dec_flags) : bool :=
  match cd with
  | DcInt | DcBoolBer | DcBoolCer | DcNull | DcOid | DcReal => true
  | DcOcts | DcStr | DcBits => negb (df_constructed fl)
  | _ => false
  end.

Definition rejects_constructed (c: codec) (T': ty) : bool :=
  match by_type c T' with Some (cd, fl) => cons_rejecting cd fl | None => false end.

Lemma dec_value_cons_rej : forall rec f cd fl T' ts n,
  tag0_simple ts = false -> cons_rejecting cd fl = true -> n <> 1 ->
  dec_value rec f cd fl (Some T') ts (Some n) false = Raise EMalformed.
Proof.
  intros rec f cd fl T' ts n Hts Hrej Hn.
  destruct cd; try discriminate Hrej; cbn [dec_value cons_rejecting] in *.
  - unfold dec_integer. rewrite Hts. reflexivity.
  - unfold dec_integer. rewrite Hts. reflexivity.
  - unfold dec_bool_cer. destruct (N.eqb_spec n 1) as [E|_]; [contradiction|]. reflexivity.
  - unfold dec_bits. rewrite Hts, Hrej. reflexivity.
  - unfold dec_octets. rewrite Hts, Hrej. reflexivity.
  - unfold dec_null. rewrite Hts. reflexivity.
  - unfold dec_oid_v. rewrite Hts. reflexivity.
  - unfold dec_real_v. rewrite Hts. reflexivity.
  - unfold dec_octets. rewrite Hts, Hrej. reflexivity.
Qed.

Definition scalar_base (T: ty) : bool :=
  match base_of T with TBool | TInt | TEnum | TNull | TOid | TReal => true | _ => false end.

Lemma scalar_rejects_constructed c T' : scalar_base T' = true -> rejects_constructed c T' = true.
Proof.
  unfold scalar_base, rejects_constructed. rewrite by_type_base.
  destruct (base_of T'); try discriminate; intros _; destruct c; vm_compute; reflexivity.
Qed.

Lemma der_str_rejects_constructed n : rejects_constructed DER (TStr n) = true.
Proof.
  unfold rejects_constructed, by_type, tag_fallback_key. cbn [key_of base_of].
  cbv [dec_type_map dec_tag_map der_dec_type_map der_dec_tag_map lookup3 assoc map fst snd tkey_eqb].
  repeat (match goal with |- context [N.eqb n ?k] => destruct (N.eqb n k); [reflexivity|] end).
  reflexivity.
Qed.

Lemma der_rejects_constructed T' : prim_base T' = true -> rejects_constructed DER T' = true.
Proof.
  intros Hp. unfold rejects_constructed. rewrite by_type_base. unfold prim_base in Hp.
  destruct (base_of T') eqn:Hb; try discriminate Hp; try (vm_compute; reflexivity).
  apply der_str_rejects_constructed.
Qed.

(* ---------- sizes of what the framing writes ---------- *)

Lemma enc_tag_nonempty t c : (1 <= length (enc_tag t c))%nat.
Proof. unfold enc_tag. destruct (N.ltb (tnum t) 31); cbn [length]; lia. Qed.

Lemma enc_len_nonempty n l : enc_len n false = Ok l -> (1 <= length l)%nat.
Proof.
  unfold enc_len. destruct (N.ltb n 128).
  - intros H. inversion H; subst. cbn [length]. lia.
  - cbv zeta. destruct (Nat.ltb 126 (length (b256 n))); [discriminate|].
    intros H. inversion H; subst. cbn [length]. lia.
Qed.

Lemma frame_one_len t c si sub b : frame_one t c true si sub = Ok b ->
  (length (enc_tag t c) + 1 + length sub <= length b)%nat.
Proof.
  unfold frame_one. cbn [negb andb]. destruct (enc_len (N.of_nat (length sub)) false) as [l|e] eqn:El; cbn [bind]; [|discriminate].
  intros H. inversion H; subst. rewrite !app_length. pose proof (enc_len_nonempty _ _ El). cbn [length]. lia.
Qed.

Lemma frame_outer_len : forall r c si sub b, frame_outer r c true si sub = Ok b ->
  (length sub + 2 * length r <= length b)%nat /\ Forall (fun t => (length (enc_tag t c) <= length b)%nat) r.
Proof.
  induction r as [|x r IH]; intros c si sub b H; cbn [frame_outer] in H.
  - inversion H; subst. split; [cbn [length]; lia|constructor].
  - destruct (frame_one x c true si sub) as [s1|e] eqn:E1; cbn [bind] in H; [|discriminate].
    destruct (IH c si s1 b H) as [Hl Hf]. pose proof (frame_one_len _ _ _ _ _ E1) as H1.
    pose proof (enc_tag_nonempty x c). split.
    + cbn [length]. lia.
    + constructor; [lia|exact Hf].
Qed.

(* ---------- one level of the decoder on a mismatch ---------- *)

(* running p on a stream that starts with bs ends in the library's generic error, whatever follows *)
Definition rejects (p: proc dval) (bs: bytes) : Prop :=
  forall s tl, avail s = bs ++ tl -> exists s', resume p s = inr (Err EMalformed, s').

(* the tags read so far differ from the guiding tag set and the tag just read is primitive:
   nothing left to try *)
Lemma prim_level_rej : forall c f T' acc0 t si content b,
  frame_one t false true si content = Ok b ->
  tcon t = false ->
  tagset_eqb (t :: acc0) (tagset_of' T') = false ->
  tm_contains (tagmap_of T') (t :: acc0) = false ->
  (length (enc_tag t false) <= S f)%nat ->
  rejects (dec_call c (S f) (STy T') acc0 None false false) b.
Proof.
  intros c f T' acc0 t si content b Hfr Hcon Hne Hnm Hlen s tl Hav.
  unfold frame_one in Hfr. cbn [negb andb] in Hfr.
  destruct (enc_len (N.of_nat (length content)) false) as [l|e] eqn:El; cbn [bind] in Hfr; [|discriminate].
  inversion Hfr; subst b; clear Hfr. rewrite app_nil_r in Hav. rewrite <- !app_assoc in Hav.
  rewrite (dec_call_header c f (STy T') acc0 false t false _ l (content ++ tl) s El Hav Hlen).
  rewrite wire_false.
  unfold dispatch. rewrite Hne, Hnm. cbn [orb]. rewrite Hcon. cbn [andb resume].
  eexists. reflexivity.
Qed.

(* they differ and the tag just read looks like an EXPLICIT wrapper: the verdict is the one of the
   next level *)
Lemma explicit_level_rej : forall c f T' acc0 t si inner b,
  frame_one t false true si inner = Ok b ->
  tcon t = true -> tcls t <> Univ ->
  tagset_eqb (t :: acc0) (tagset_of' T') = false ->
  tm_contains (tagmap_of T') (t :: acc0) = false ->
  (length (enc_tag t false) <= S f)%nat ->
  rejects (dec_call c f (STy T') (t :: acc0) None false false) inner ->
  rejects (dec_call c (S f) (STy T') acc0 None false false) b.
Proof.
  intros c f T' acc0 t si inner b Hfr Hcon Hcls Hne Hnm Hlen Hin s tl Hav.
  unfold frame_one in Hfr. cbn [negb andb] in Hfr.
  destruct (enc_len (N.of_nat (length inner)) false) as [l|e] eqn:El; cbn [bind] in Hfr; [|discriminate].
  inversion Hfr; subst b; clear Hfr. rewrite app_nil_r in Hav. rewrite <- !app_assoc in Hav.
  rewrite (dec_call_header c f (STy T') acc0 false t false _ l (inner ++ tl) s El Hav Hlen).
  rewrite wire_false.
  set (s1 := adv (setmark s (pos s)) (length (enc_tag t false) + length l)).
  assert (Hav1: avail s1 = inner ++ tl).
  { subst s1. rewrite avail_adv, avail_setmark, Hav. rewrite app_assoc.
    rewrite <- app_length. apply skipn_app_exact. }
  clearbody s1.
  unfold dispatch. rewrite Hne, Hnm. cbn [orb]. rewrite Hcon. cbn [andb].
  assert (Hnu: negb (cls_eqb (tcls t) Univ) = true) by (destruct (tcls t); [congruence|reflexivity|reflexivity|reflexivity]).
  rewrite Hnu. rewrite resume_tell.
  unfold dec_raw.
  destruct (Hin s1 tl Hav1) as (s2 & Hrun).
  rewrite (resume_pbind_err _ _ _ _ _ Hrun). exists s2. reflexivity.
Qed.

(* the tags read so far ARE the guiding tag set, but the tag just read is constructed and the
   guiding type's value decoder does not take the constructed form *)
Lemma match_cons_rej : forall c f T' acc0 t si inner b,
  frame_one t false true si inner = Ok b ->
  tcon t = true ->
  tagset_eqb (t :: acc0) (tagset_of' T') = true ->
  plain_map T' ->
  rejects_constructed c T' = true ->
  (2 <= length inner)%nat ->
  (length (enc_tag t false) <= S f)%nat ->
  rejects (dec_call c (S f) (STy T') acc0 None false false) b.
Proof.
  intros c f T' acc0 t si inner b Hfr Hcon Heq Hpm Hrc Hin2 Hlen s tl Hav.
  unfold frame_one in Hfr. cbn [negb andb] in Hfr.
  destruct (enc_len (N.of_nat (length inner)) false) as [l|e] eqn:El; cbn [bind] in Hfr; [|discriminate].
  inversion Hfr; subst b; clear Hfr. rewrite app_nil_r in Hav. rewrite <- !app_assoc in Hav.
  rewrite (dec_call_header c f (STy T') acc0 false t false _ l (inner ++ tl) s El Hav Hlen).
  rewrite wire_false.
  unfold dispatch. rewrite Heq. cbn [orb]. rewrite Hpm. cbn [tm_postponed].
  unfold rejects_constructed in Hrc. destruct (by_type c T') as [[cd fl]|]; [|discriminate].
  rewrite resume_tell.
  rewrite (dec_value_cons_rej (dec_call c f) f cd fl T' (t :: acc0) (N.of_nat (length inner))); [| |exact Hrc|lia].
  - cbn [pbind resume]. eexists. reflexivity.
  - unfold tag0_simple. rewrite Hcon. reflexivity.
Qed.

(* ---------- all the levels ---------- *)

Lemma peel_all_rej : forall c T' f si r acc0 sub b,
  frame_outer r false true si sub = Ok b ->
  Forall explicit_like r ->
  Forall (fun t => (length (enc_tag t false) <= S f)%nat) r ->
  plain_map T' ->
  (2 <= length sub)%nat ->
  ((forall p q, r = p ++ q -> q <> [] -> tagset_eqb (q ++ acc0) (tagset_of' T') = false)
   \/ rejects_constructed c T' = true) ->
  rejects (dec_call c f (STy T') (r ++ acc0) None false false) sub ->
  rejects (dec_call c (f + length r) (STy T') acc0 None false false) b.
Proof.
  intros c T' f si r. induction r as [|tn r' IH] using rev_ind; intros acc0 sub b Hfr Hex Hlen Hpm Hsub Hsuf Hin.
  - cbn [frame_outer] in Hfr. inversion Hfr; subst. cbn [length app] in *. rewrite Nat.add_0_r. exact Hin.
  - rewrite frame_outer_snoc in Hfr.
    destruct (frame_outer r' false true si sub) as [inner|e] eqn:Ein; cbn [bind] in Hfr; [|discriminate].
    apply Forall_app in Hex. destruct Hex as [Hex' Hexn]. inversion Hexn as [|? ? [Hcon Hcls] _]; subst.
    apply Forall_app in Hlen. destruct Hlen as [Hlen' Hlenn]. inversion Hlenn as [|? ? Hl _]; subst.
    rewrite app_length. cbn [length].
    replace (f + (length r' + 1))%nat with (S (f + length r')) by lia.
    destruct (frame_outer_len r' false si sub inner Ein) as [Hinner _].
    destruct (tagset_eqb (tn :: acc0) (tagset_of' T')) eqn:Emis.
    + (* premature match on a constructed tag *)
      destruct Hsuf as [Hsuf|Hrc].
      * specialize (Hsuf r' [tn] eq_refl). cbn [app] in Hsuf. rewrite Hsuf in Emis; [discriminate|discriminate].
      * apply (match_cons_rej c (f + length r') T' acc0 tn si inner b Hfr Hcon Emis Hpm Hrc); lia.
    + apply (explicit_level_rej c (f + length r') T' acc0 tn si inner b Hfr Hcon Hcls Emis (plain_map_contains T' _ Hpm Emis)); [lia|].
      apply (IH (tn :: acc0) sub inner Ein Hex' Hlen' Hpm Hsub).
      * destruct Hsuf as [Hsuf|Hrc]; [left|right; exact Hrc].
        intros p q Hpq Hq. specialize (Hsuf p (q ++ [tn])).
        rewrite <- app_assoc in Hsuf. cbn [app] in Hsuf. apply Hsuf.
        -- rewrite Hpq, <- app_assoc. reflexivity.
        -- destruct q; discriminate.
      * rewrite <- app_assoc in Hin. exact Hin.
Qed.

(* ---------- wire level: a primitive TLV inside any number of EXPLICIT wrappers ---------- *)

(* [b] = definite-length TLV with primitive tag t0 inside the constructed non-universal tags r
   (innermost first).  A guiding type (anything but an untagged CHOICE/ANY) whose tag set differs from
   t0 :: r is refused, provided no group of outer tags of r alone equals its tag set - or its value
   decoder refuses the constructed form anyway. *)
Theorem framed_mismatch_rejected : forall cd T' t0 r si content s0 b tl,
  frame_one t0 false true si content = Ok s0 ->
  frame_outer r false true si s0 = Ok b ->
  tcon t0 = false -> Forall explicit_like r ->
  plain_map T' ->
  tagset_eqb (t0 :: r) (tagset_of' T') = false ->
  suffix_free r (tagset_of' T') = true \/ rejects_constructed cd T' = true ->
  decode cd (Some T') (b ++ tl) = Err EMalformed.
Proof.
  intros cd T' t0 r si content s0 b tl H0 Hfr Hc0 Hex Hpm Hne Hsuf.
  destruct (frame_outer_len r false si s0 b Hfr) as [Hlb Htags].
  pose proof (frame_one_len _ _ _ _ _ H0) as Hl0. pose proof (enc_tag_nonempty t0 false) as Ht0.
  unfold decode. set (fuel := dec_fuel (Some T') (b ++ tl)).
  set (f0 := (fuel - 1 - length r)%nat).
  assert (Hfuel: fuel = (S f0 + length r)%nat).
  { subst f0 fuel. unfold dec_fuel. rewrite app_length. lia. }
  assert (Hbig: (length b <= S f0)%nat).
  { subst f0 fuel. unfold dec_fuel. rewrite app_length. lia. }
  assert (Hrej: rejects (dec_call cd (S f0 + length r) (STy T') [] None false false) b).
  { apply (peel_all_rej cd T' (S f0) si r [] s0 b Hfr Hex).
    - eapply Forall_impl; [|exact Htags]. cbv beta. intros a Ha. lia.
    - exact Hpm.
    - lia.
    - destruct Hsuf as [Hsuf|Hrc]; [left|right; exact Hrc].
      intros p q Hpq Hq. rewrite app_nil_r. apply (suffix_free_spec r _ Hsuf p q Hpq Hq).
    - rewrite app_nil_r.
      apply (prim_level_rej cd f0 T' r t0 si content s0 H0 Hc0 Hne (plain_map_contains T' _ Hpm Hne)). lia. }
  unfold dec_item, run_complete. rewrite Hfuel.
  destruct (Hrej (mkStream (b ++ tl) 0 true 0) tl eq_refl) as (s' & Hr). rewrite Hr. reflexivity.
Qed.

(* ---------- what the encoder writes for a value of a simple type ---------- *)

Lemma time_guard_len fl b : time_guard fl b = Ok tt -> N.of_nat (length b) < ef_max_len fl.
Proof.
  unfold time_guard. destruct (existsb _ b); [discriminate|].
  destruct (rev b) as [|x r]; [discriminate|].
  destruct x as [|p]; [discriminate|].
  do 7 (destruct p; try discriminate).
  destruct (existsb (N.eqb 44) b); [discriminate|]. destruct (existsb (N.eqb 46) b); [discriminate|].
  destruct (N.ltb (ef_min_len fl) (N.of_nat (length b))); cbn [andb]; [|discriminate].
  destruct (N.ltb_spec (N.of_nat (length b)) (ef_max_len fl)); [auto|discriminate].
Qed.

(* the encoder of a character/useful string type, whatever its universal tag number: the OCTET
   STRING one, or a time encoder whose canonical strings are far shorter than its segment size *)
Lemma str_encoder ce n ec fl : enc_ok ce -> concrete_encoder ce (TStr n) = Ok (ec, fl) ->
  ec = EcOcts \/ ef_max_len fl <= 1000.
Proof.
  intros [-> | ->]; unfold concrete_encoder, tag_fallback_key; cbn [key_of base_of];
  cbv [enc_type_map enc_tag_map ber_enc_type_map ber_enc_tag_map der_enc_type_map der_enc_tag_map lookup3 assoc map fst snd tkey_eqb];
  repeat (match goal with |- context [N.eqb n ?k] => destruct (N.eqb n k); [intros H; inversion H; subst; (left; reflexivity) || (right; cbn; lia)|] end);
  intros H; inversion H; subst; left; reflexivity.
Qed.

Lemma octets_like_def v content ic : enc_octets_like def_opts v = Ok (content, ic) -> ic = false.
Proof.
  unfold enc_octets_like. destruct (octets_of v); [|discriminate].
  cbn [o_chunk def_opts N.eqb orb]. intros H. inversion H. reflexivity.
Qed.

Lemma bits_def bs content ic : enc_bits def_opts bs = Ok (content, ic) -> ic = false.
Proof. unfold enc_bits. cbn [o_chunk def_opts N.eqb orb]. intros H. inversion H. reflexivity. Qed.

(* unsegmented mode: the contents of every simple type are written in the primitive form *)
Lemma prim_content_primitive : forall ce T ec fl v content ic,
  enc_ok ce -> prim_base T = true -> concrete_encoder ce T = Ok (ec, fl) ->
  enc_content ce T ec fl def_opts v = Ok (content, ic) -> ic = false.
Proof.
  intros ce T ec fl v content ic Hce Hp Hcc Hc.
  rewrite enc_content_base in Hc. rewrite concrete_encoder_base in Hcc. unfold prim_base in Hp.
  destruct (base_of T) eqn:Hb; try discriminate Hp; cbn [enc_content] in Hc.
  - destruct v; try discriminate Hc; destruct ec; try discriminate Hc; inversion Hc; reflexivity.
  - destruct v; try discriminate Hc; destruct ec; try discriminate Hc; inversion Hc; reflexivity.
  - destruct v; try discriminate Hc; destruct ec; try discriminate Hc; inversion Hc; reflexivity.
  - destruct v; try discriminate Hc; destruct ec; try discriminate Hc.
    + exact (bits_def _ _ _ Hc).
    + cbn [o_chunk def_opts N.ltb N.compare] in Hc. exact (bits_def _ _ _ Hc).
  - destruct ec; try discriminate Hc. exact (octets_like_def _ _ _ Hc).
  - destruct v; try discriminate Hc; destruct ec; try discriminate Hc; inversion Hc; reflexivity.
  - destruct v; try discriminate Hc; destruct ec; try discriminate Hc.
    destruct (enc_oid arcs); cbn [bind] in Hc; [|discriminate]. inversion Hc; reflexivity.
  - destruct v; try discriminate Hc; destruct ec; try discriminate Hc;
      (destruct (enc_real r); cbn [bind] in Hc; [|discriminate]; inversion Hc; reflexivity).
  - destruct (str_encoder ce n ec fl Hce Hcc) as [-> | Hmax].
    + exact (octets_like_def _ _ _ Hc).
    + destruct ec; try discriminate Hc; try exact (octets_like_def _ _ _ Hc).
      * destruct (octets_of v) as [bo|] eqn:Eo; [|discriminate].
        destruct (time_guard fl bo) as [[]|] eqn:Etg; cbn [bind] in Hc; [|discriminate].
        pose proof (time_guard_len _ _ Etg) as Hl.
        unfold enc_octets_like in Hc. rewrite Eo in Hc. cbn [o_chunk] in Hc.
        destruct (Nat.leb_spec (length bo) (N.to_nat 1000)) as [_|Hbad]; [|lia].
        rewrite Bool.orb_true_r in Hc. inversion Hc; reflexivity.
      * destruct (octets_of v) as [bo|] eqn:Eo; [|discriminate].
        destruct (time_guard fl bo) as [[]|] eqn:Etg; cbn [bind] in Hc; [|discriminate].
        pose proof (time_guard_len _ _ Etg) as Hl.
        unfold enc_octets_like in Hc. rewrite Eo in Hc. cbn [o_chunk] in Hc.
        destruct (Nat.leb_spec (length bo) (N.to_nat 1000)) as [_|Hbad]; [|lia].
        rewrite Bool.orb_true_r in Hc. inversion Hc; reflexivity.
Qed.

(* EVERY value of a simple type that the BER/DER encoder accepts in definite, unsegmented mode comes
   out as one primitive TLV inside one constructed non-universal TLV per surviving EXPLICIT tag *)
Lemma prim_encoding_shape : forall ce T v b,
  enc_ok ce -> wf_tags T = true -> prim_base T = true -> encode ce true 0 T v = Ok b ->
  exists t0 r si content s0,
    tagset_of' T = t0 :: r /\ tcon t0 = false /\ Forall explicit_like r
    /\ frame_one t0 false true si content = Ok s0 /\ frame_outer r false true si s0 = Ok b.
Proof.
  intros ce T v b Hce Hw Hp He.
  assert (Hdef: def_codec ce) by (destruct Hce as [-> | ->]; reflexivity).
  destruct (tagset_prim_shape T Hp Hw) as (t0 & r & Hts & Hc0 & Hex & _).
  unfold def_codec in Hdef. unfold encode, enc, enc_with in He. change (mkOpts true 0 false) with def_opts in He. rewrite Hdef in He.
  destruct (concrete_encoder ce T) as [[ec fl]|] eqn:Hcc; cbn [bind] in He; [|discriminate].
  rewrite Hts in He. cbn [bind] in He. change (mkOpts (o_def def_opts) (o_chunk def_opts) false) with def_opts in He.
  destruct (enc_content ce T ec fl def_opts v) as [[content ic]|] eqn:Hcont; cbn [bind] in He; [|discriminate].
  pose proof (prim_content_primitive ce T ec fl v content ic Hce Hp Hcc Hcont) as ->.
  cbn [frame] in He. rewrite Bool.andb_false_r in He. cbn [andb o_def def_opts] in He.
  destruct (frame_one t0 false true (ef_indef fl) content) as [s0|e] eqn:E0; cbn [bind] in He; [|discriminate].
  exists t0, r, (ef_indef fl), content, s0.
  rewrite (tagset_of'_ok T _ Hts). repeat split; assumption.
Qed.

Lemma prim_plain_map T' : prim_base T' = true -> plain_map T'.
Proof. intros Hp. apply plain_map_tagged. destruct T'; try exact I; discriminate Hp. Qed.

(* ---------- the rejection half of C13 for stage-1 types ---------- *)

(* General form: EVERY value of T the encoder accepts (no side condition on the value), and a guiding
   type T' that is ANY type but an untagged CHOICE/ANY (its own tags need not even be well-formed).
   Either no suffix of the encoded tag set equals the guiding one, or the two differ and the guiding
   type's value decoder refuses the constructed form. *)
Theorem tag_mismatch_rejected_general : forall ce cd T T' v b tl,
  enc_ok ce -> wf_tags T = true -> prim_base T = true ->
  encode ce true 0 T v = Ok b ->
  plain_map T' ->
  tagset_eqb (tagset_of' T) (tagset_of' T') = false ->
  tags_differ (tagset_of' T) (tagset_of' T') = true \/ rejects_constructed cd T' = true ->
  decode cd (Some T') (b ++ tl) = Err EMalformed.
Proof.
  intros ce cd T T' v b tl Hce Hw Hp He Hpm Hne Hcond.
  destruct (prim_encoding_shape ce T v b Hce Hw Hp He) as (t0 & r & si & content & s0 & Hts & Hc0 & Hex & H0 & Hfr).
  rewrite Hts in *.
  apply (framed_mismatch_rejected cd T' t0 r si content s0 b tl H0 Hfr Hc0 Hex Hpm Hne).
  destruct Hcond as [Hd|Hrc]; [left|right; exact Hrc].
  unfold tags_differ in Hd. cbn [suffix_free] in Hd. apply Bool.andb_true_iff in Hd. exact (proj2 Hd).
Qed.

(* The statement of the property: the encoding of a stage-1 value of T is refused, with an error of
   the library's own hierarchy, by every decoder guided by a simple type T' whose tag set differs. *)
Theorem tag_mismatch_rejected_stage1 : forall ce cd T T' v b tl,
  enc_ok ce -> wf_tags T = true -> wf_tags T' = true -> prim_base T = true -> prim_base T' = true ->
  stage1_val ce cd T v = true -> encode ce true 0 T v = Ok b -> N.of_nat (length b) <= index_max ->
  tags_differ (tagset_of' T) (tagset_of' T') = true ->
  exists e, decode cd (Some T') (b ++ tl) = Err e /\ is_library e = true.
Proof.
  intros ce cd T T' v b tl Hce Hw _ Hp Hp' Hs He _ Hd.
  exists EMalformed. split; [|reflexivity].
  apply (tag_mismatch_rejected_general ce cd T T' v b tl Hce Hw Hp He (prim_plain_map T' Hp')); [|left; exact Hd].
  apply tags_differ_neq; [|exact Hd].
  destruct (tagset_prim_shape T Hp Hw) as (t0 & r & Hts & _). rewrite (tagset_of'_ok T _ Hts). discriminate.
Qed.

(* Any difference at all between the tag sets is enough when the guiding type is BOOLEAN, INTEGER,
   ENUMERATED, NULL, OBJECT IDENTIFIER or REAL (tagged in any way) ... *)
Theorem tag_mismatch_rejected_scalar : forall ce cd T T' v b tl,
  enc_ok ce -> wf_tags T = true -> prim_base T = true -> scalar_base T' = true ->
  encode ce true 0 T v = Ok b ->
  tagset_eqb (tagset_of' T) (tagset_of' T') = false ->
  decode cd (Some T') (b ++ tl) = Err EMalformed.
Proof.
  intros ce cd T T' v b tl Hce Hw Hp Hsc He Hne.
  apply (tag_mismatch_rejected_general ce cd T T' v b tl Hce Hw Hp He); [|exact Hne|right; apply scalar_rejects_constructed; exact Hsc].
  apply plain_map_tagged. unfold scalar_base in Hsc. destruct T'; try exact I; discriminate Hsc.
Qed.

(* ... and for every simple guiding type when the decoder is DER's *)
Theorem tag_mismatch_rejected_der : forall ce T T' v b tl,
  enc_ok ce -> wf_tags T = true -> prim_base T = true -> prim_base T' = true ->
  encode ce true 0 T v = Ok b ->
  tagset_eqb (tagset_of' T) (tagset_of' T') = false ->
  decode DER (Some T') (b ++ tl) = Err EMalformed.
Proof.
  intros ce T T' v b tl Hce Hw Hp Hp' He Hne.
  apply (tag_mismatch_rejected_general ce DER T T' v b tl Hce Hw Hp He (prim_plain_map T' Hp') Hne).
  right. apply der_rejects_constructed. exact Hp'.
Qed.

(* ---------- non-vacuity ---------- *)

Definition ex_T  : ty := TExp (mkTag Ctx false 0) (TImp (mkTag Appl false 3) TInt).
Definition ex_T1 : ty := TExp (mkTag Ctx false 0) (TImp (mkTag Appl false 4) TInt).   (* same depth, inner number differs *)
Definition ex_T2 : ty := TExp (mkTag Priv false 0) (TImp (mkTag Appl false 3) TInt).  (* same depth, outer class differs *)
Definition ex_T3 : ty := TImp (mkTag Ctx false 1) TOcts.                              (* fewer tags *)
Definition ex_T4 : ty := TExp (mkTag Ctx false 2) ex_T.                               (* more tags *)
Definition ex_b  : bytes := [160; 4; 67; 2; 1; 44].

(* the hypotheses of [tag_mismatch_rejected_stage1] hold together, for four kinds of difference *)
Example tag_mismatch_hypotheses_satisfiable :
  enc_ok BER /\ wf_tags ex_T = true /\ prim_base ex_T = true
  /\ stage1_val BER BER ex_T (VInt 300) = true /\ encode BER true 0 ex_T (VInt 300) = Ok ex_b
  /\ N.of_nat (length ex_b) <= index_max
  /\ Forall (fun T' => wf_tags T' = true /\ prim_base T' = true
                       /\ tags_differ (tagset_of' ex_T) (tagset_of' T') = true) [ex_T1; ex_T2; ex_T3; ex_T4].
Proof.
  split; [left; reflexivity|]. repeat (split; [vm_compute; reflexivity|]).
  split; [vm_compute; discriminate|].
  repeat (constructor; [vm_compute; repeat split; reflexivity|]). constructor.
Qed.

(* and its conclusion on them, obtained from the theorem *)
Example tag_mismatch_rejected_example :
  Forall (fun T' => forall cd, exists e, decode cd (Some T') (ex_b ++ [1; 2]) = Err e /\ is_library e = true)
         [ex_T1; ex_T2; ex_T3; ex_T4].
Proof.
  destruct tag_mismatch_hypotheses_satisfiable as (Hce & Hw & Hp & _ & He & Hmax & Hall).
  eapply Forall_impl; [|exact Hall]. cbv beta. intros T' (Hw' & Hp' & Hd) cd.
  apply (tag_mismatch_rejected_stage1 BER cd ex_T T' (VInt 300) ex_b [1; 2] Hce Hw Hw' Hp Hp'); assumption.
Qed.

(* the same by evaluation of the model, and the matching type is accepted *)
Example tag_mismatch_rejected_computed :
  decode BER (Some ex_T1) (ex_b ++ [1; 2]) = Err EMalformed
  /\ decode CER (Some ex_T3) (ex_b ++ [1; 2]) = Err EMalformed
  /\ decode BER (Some ex_T) (ex_b ++ [1; 2]) = Ok (DV ex_T (VInt 300), [1; 2]).
Proof. vm_compute. repeat split. Qed.

(* ---------- the case the condition excludes: witnesses ---------- *)

(* [0] EXPLICIT OCTET STRING written, [0] IMPLICIT OCTET STRING expected: the tag sets differ
   ([UNIVERSAL 4; CONTEXT 0] against [CONTEXT 0]) but the outer tag alone is the guiding tag set, and
   A0 04 04 02 07 08 is also the constructed form of the latter with one segment.  The BER and CER
   decoders accept; the DER decoder (no constructed strings) refuses. *)
Definition wit_T  : ty := TExp (mkTag Ctx false 0) TOcts.
Definition wit_T' : ty := TImp (mkTag Ctx false 0) TOcts.

Example premature_match_accepted :
  wf_tags wit_T = true /\ wf_tags wit_T' = true /\ prim_base wit_T = true /\ prim_base wit_T' = true
  /\ stage1_val BER BER wit_T (VOcts [7; 8]) = true
  /\ encode BER true 0 wit_T (VOcts [7; 8]) = Ok [160; 4; 4; 2; 7; 8]
  /\ tagset_eqb (tagset_of' wit_T) (tagset_of' wit_T') = false
  /\ tags_differ (tagset_of' wit_T) (tagset_of' wit_T') = false
  /\ decode BER (Some wit_T') [160; 4; 4; 2; 7; 8] = Ok (DV wit_T' (VOcts [7; 8]), [])
  /\ decode CER (Some wit_T') [160; 4; 4; 2; 7; 8] = Ok (DV wit_T' (VOcts [7; 8]), [])
  /\ decode DER (Some wit_T') [160; 4; 4; 2; 7; 8] = Err EMalformed.
Proof. vm_compute. repeat split. Qed.

(* two EXPLICIT tags written, the outer one expected as an IMPLICIT OCTET STRING tag: the inner TLV
   A1 04 04 02 07 08 is not an OCTET STRING segment, yet the segment collector takes the contents of
   its explicit-looking wrapper as they are: accepted with the value 04 02 07 08 *)
Definition wit_T2 : ty := TExp (mkTag Ctx false 0) (TExp (mkTag Ctx false 1) TOcts).

Example premature_match_accepted_nested :
  stage1_val BER BER wit_T2 (VOcts [7; 8]) = true
  /\ encode BER true 0 wit_T2 (VOcts [7; 8]) = Ok [160; 6; 161; 4; 4; 2; 7; 8]
  /\ tagset_eqb (tagset_of' wit_T2) (tagset_of' wit_T') = false
  /\ tags_differ (tagset_of' wit_T2) (tagset_of' wit_T') = false
  /\ decode BER (Some wit_T') [160; 6; 161; 4; 4; 2; 7; 8] = Ok (DV wit_T' (VOcts [4; 2; 7; 8]), [])
  /\ decode CER (Some wit_T') [160; 6; 161; 4; 4; 2; 7; 8] = Ok (DV wit_T' (VOcts [4; 2; 7; 8]), [])
  /\ decode DER (Some wit_T') [160; 6; 161; 4; 4; 2; 7; 8] = Err EMalformed.
Proof. vm_compute. repeat split. Qed.

(* the same with BIT STRING *)
Example premature_match_accepted_bits :
  encode BER true 0 (TExp (mkTag Ctx false 0) TBits) (VBits [true; false]) = Ok [160; 4; 3; 2; 6; 128]
  /\ tags_differ (tagset_of' (TExp (mkTag Ctx false 0) TBits)) (tagset_of' (TImp (mkTag Ctx false 0) TBits)) = false
  /\ decode BER (Some (TImp (mkTag Ctx false 0) TBits)) [160; 4; 3; 2; 6; 128]
     = Ok (DV (TImp (mkTag Ctx false 0) TBits) (VBits [true; false]), []).
Proof. vm_compute. repeat split. Qed.

(* with a scalar guiding type the same shape of difference is refused: [tag_mismatch_rejected_scalar]
   applies where [tags_differ] is false *)
Example scalar_premature_match_rejected :
  tags_differ (tagset_of' (TExp (mkTag Ctx false 0) TInt)) (tagset_of' (TImp (mkTag Ctx false 0) TInt)) = false
  /\ forall cd tl, decode cd (Some (TImp (mkTag Ctx false 0) TInt)) ([160; 3; 2; 1; 5] ++ tl) = Err EMalformed.
Proof.
  split; [vm_compute; reflexivity|]. intros cd tl.
  apply (tag_mismatch_rejected_scalar BER cd (TExp (mkTag Ctx false 0) TInt) (TImp (mkTag Ctx false 0) TInt) (VInt 5));
    try (vm_compute; reflexivity). left; reflexivity.
Qed.

Example der_premature_match_rejected :
  forall tl, decode DER (Some wit_T') ([160; 4; 4; 2; 7; 8] ++ tl) = Err EMalformed.
Proof.
  intros tl. apply (tag_mismatch_rejected_der BER wit_T wit_T' (VOcts [7; 8])); try (vm_compute; reflexivity).
  left; reflexivity.
Qed.

(* the general form needs no side condition on the value: BOOLEAN TRUE as BER writes it (01) is outside
   stage 1 for the DER decoder, and still refused under a different tag *)
Example rejected_outside_stage1 :
  stage1_val BER DER (TExp (mkTag Ctx false 0) TBool) (VBool true) = false
  /\ forall tl, decode DER (Some (TExp (mkTag Ctx false 1) TBool)) ([160; 3; 1; 1; 1] ++ tl) = Err EMalformed.
Proof.
  split; [vm_compute; reflexivity|]. intros tl.
  apply (tag_mismatch_rejected_general BER DER (TExp (mkTag Ctx false 0) TBool) (TExp (mkTag Ctx false 1) TBool) (VBool true));
    try (vm_compute; reflexivity); [left; reflexivity|left; vm_compute; reflexivity].
Qed.

Print Assumptions framed_mismatch_rejected.
Print Assumptions tag_mismatch_rejected_general.
Print Assumptions tag_mismatch_rejected_stage1.
Print Assumptions tag_mismatch_rejected_scalar.
Print Assumptions tag_mismatch_rejected_der.
Print Assumptions tag_mismatch_rejected_example.
Print Assumptions premature_match_accepted.
Print Assumptions premature_match_accepted_nested.
Print Assumptions scalar_premature_match_rejected.
Print Assumptions der_premature_match_rejected.
Print Assumptions rejected_outside_stage1.

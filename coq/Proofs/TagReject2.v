(* C13, rejection half, for the whole universe of types.

   The decoder guided by T' reads identifier octets from the outside inwards along the FIRST-ELEMENT
   SPINE of the input, accumulating the tags (innermost first) and looking the accumulated tags up
   among the keys of T' (its own tag set; for an untagged CHOICE the tag sets of the alternatives).
   While there is no such key and the tag just read is constructed and not UNIVERSAL it goes one
   level in - whether that tag is an EXPLICIT wrapper or the (implicitly retagged) tag of a SEQUENCE,
   SET, SEQUENCE OF, SET OF or of a tagged CHOICE/ANY.  With ts = t0 :: r the tag set of the encoded
   type (t0 innermost) the accumulated tag sets are therefore
     - the non-empty suffixes of ts, and
     - when the innermost tag t0 is constructed on the wire and not UNIVERSAL: p ++ ts for tags p
       met further in (the first member of the container, its first member, ...; past an empty
       container: whatever octets follow).
   [key_differs]: a key k of T' is none of these.  Then the input is refused with a library error
   whatever the value, whatever follows ([tag_mismatch_rejected_universe]); in particular when
   every key has as many tags as ts and differs from it ([same_length_differs]), or more tags
   whose outer |ts| tags differ from ts ([longer_differs]), or more tags in any way when the encoded
   type is simple or its innermost tag is UNIVERSAL ([longer_no_descent]).

   When a key k of T' is p ++ ts (ts itself is the outer part of k) and t0 is a constructed
   non-universal tag the decoder steps INTO the container and may accept: witnesses at the end. *)
From Coq Require Import Lia.
From PV Require Import Base.Bytes Model.Tag Model.TableTypes Model.Types Model.Proc Model.Enc Model.Dec Gen.Tables
     Proofs.ProcBind Proofs.RunLemmas Proofs.TagOctets Proofs.TagAlgebra Proofs.DecHeader Proofs.DecFrame Proofs.DecPrim
     Proofs.TagsetShape Proofs.Schemaless Proofs.RoundTrip1 Proofs.RoundTrip2 Proofs.TagReject Proofs.RoundTrip3 Proofs.RoundTrip3a Proofs.RoundTrip3b Proofs.RoundTrip3c.
Local Open Scope N_scope.

(* ---------- running the stream primitives on a closed stream holding anything ---------- *)

Definition rem (s: stream) : nat := length (avail s).

Lemma rem_adv s n : rem (adv s n) = (rem s - n)%nat.
Proof. unfold rem. rewrite avail_adv, skipn_length. reflexivity. Qed.

Lemma readN_run k s : closed s = true ->
  resume (readN k) s = inr (Err EEndOfStream, s)
  \/ exists b, resume (readN k) s = inr (Ok b, adv s k) /\ length b = k /\ (k <= rem s)%nat.
Proof.
  intros Hc. unfold readN. cbn [resume]. unfold attempt.
  destruct (Nat.eqb_spec k 0) as [->|Hk].
  - right. exists []. rewrite adv_0. repeat split. lia.
  - destruct (Nat.ltb_spec (length (avail s)) k) as [Hl|Hl].
    + left. rewrite Hc. reflexivity.
    + right. exists (firstn k (avail s)). split; [reflexivity|]. split; [apply firstn_length_le; exact Hl|exact Hl].
Qed.

Lemma read1_run s : closed s = true ->
  resume read1 s = inr (Err EEndOfStream, s)
  \/ exists o, resume read1 s = inr (Ok o, adv s 1) /\ (1 <= rem s)%nat.
Proof.
  intros Hc. unfold read1. destruct (readN_run 1 s Hc) as [H|(b & H & Hl & Hr)].
  - left. rewrite (resume_pbind_err _ _ _ _ _ H). reflexivity.
  - right. exists (hd 0 b). rewrite (resume_pbind_done _ _ _ _ _ H). split; [reflexivity|exact Hr].
Qed.

(* a step that either fails with a library error or succeeds on a closed stream having used
   at least one octet *)
Definition step_ok {A} (p: proc A) (s: stream) (Q: A -> Prop) : Prop :=
  (exists e s', resume p s = inr (Err e, s') /\ is_library e = true)
  \/ (exists a s', resume p s = inr (Ok a, s') /\ closed s' = true /\ (rem s' < rem s)%nat /\ Q a).

Lemma long_tag_run : forall k cl fm acc s, closed s = true -> (rem s < k)%nat ->
  step_ok (long_tag cl fm k acc) s (fun _ => True).
Proof.
  induction k as [|k IH]; intros cl fm acc s Hc Hk; [lia|].
  cbn [long_tag]. unfold step_ok. destruct (read1_run s Hc) as [H|(o & H & Hr)].
  - left. exists EEndOfStream, s. split; [apply (resume_pbind_err _ _ _ _ _ H)|reflexivity].
  - rewrite (resume_pbind_done _ _ _ _ _ H).
    destruct (N.eqb (N.land o 128) 0).
    + right. eexists; exists (adv s 1). cbn [resume]. split; [reflexivity|]. split; [exact Hc|]. split; [rewrite rem_adv; lia|exact I].
    + destruct (IH cl fm (N.lor (N.shiftl acc 7) (N.land o 127)) (adv s 1) Hc) as [(e & s' & He & Hl)|(t & s' & Ht & Hc' & Hr' & _)].
      * rewrite rem_adv. lia.
      * left. exists e, s'. split; assumption.
      * right. exists t, s'. split; [exact Ht|]. split; [exact Hc'|]. split; [rewrite rem_adv in Hr'; lia|exact I].
Qed.

Lemma read_tag_run f s : closed s = true -> (rem s <= f)%nat -> step_ok (read_tag f) s (fun _ => True).
Proof.
  intros Hc Hf. unfold read_tag, step_ok. destruct (read1_run s Hc) as [H|(o & H & Hr)].
  - left. exists EEndOfStream, s. split; [apply (resume_pbind_err _ _ _ _ _ H)|reflexivity].
  - rewrite (resume_pbind_done _ _ _ _ _ H). cbv zeta.
    destruct (N.eqb (N.land o 31) 31).
    + destruct (long_tag_run f (cls_of_bits o) (negb (N.eqb (N.land o 32) 0)) 0 (adv s 1) Hc) as [(e & s' & He & Hl)|(t & s' & Ht & Hc' & Hr' & _)].
      * rewrite rem_adv. lia.
      * left. exists e, s'. split; assumption.
      * right. exists t, s'. split; [exact Ht|]. split; [exact Hc'|]. split; [rewrite rem_adv in Hr'; lia|exact I].
    + right. eexists; exists (adv s 1). cbn [resume]. split; [reflexivity|]. split; [exact Hc|]. split; [rewrite rem_adv; lia|exact I].
Qed.

Lemma read_length_run c s : closed s = true ->
  step_ok (read_length c) s (fun ol => ol = None -> support_indef c = true).
Proof.
  intros Hc. unfold read_length, step_ok. destruct (read1_run s Hc) as [H|(o & H & Hr)].
  - left. exists EEndOfStream, s. split; [apply (resume_pbind_err _ _ _ _ _ H)|reflexivity].
  - rewrite (resume_pbind_done _ _ _ _ _ H).
    destruct (N.ltb o 128).
    + right. eexists; exists (adv s 1). cbn [resume]. split; [reflexivity|]. split; [exact Hc|]. split; [rewrite rem_adv; lia|discriminate].
    + destruct (N.eqb o 128).
      * destruct (support_indef c) eqn:Esi.
        -- right. eexists; exists (adv s 1). cbn [resume]. split; [reflexivity|]. split; [exact Hc|]. split; [rewrite rem_adv; lia|reflexivity].
        -- left. exists EMalformed, (adv s 1). cbn [resume]. split; reflexivity.
      * destruct (readN_run (N.to_nat (N.land o 127)) (adv s 1) Hc) as [H2|(b & H2 & Hl & Hr2)].
        -- left. exists EEndOfStream, (adv s 1). split; [apply (resume_pbind_err _ _ _ _ _ H2)|reflexivity].
        -- right. rewrite (resume_pbind_done _ _ _ _ _ H2). eexists; eexists. cbn [resume]. split; [reflexivity|].
           split; [exact Hc|]. split; [rewrite !rem_adv; lia|discriminate].
Qed.

Lemma seekback_adv s n : setpos (adv s n) (pos (adv s n) - n) = s.
Proof. unfold adv, setpos. cbn [pos arrived closed mark]. rewrite Nat.add_sub. destruct s; reflexivity. Qed.

(* ---------- when the guiding type has no key equal to the accumulated tags ---------- *)

Lemma miss_of_keys T' acc : keys_ok (ckeys T') = true -> acc <> [] ->
  tm_mem acc (ckeys T') = false -> sp_miss (STy T') acc.
Proof.
  intros HK Hne Hmem. destruct (tagmap_good T' HK) as (_ & Hdef & Hm). cbn [sp_miss]. split.
  - destruct T'; try (cbn [ckeys tm_mem existsb] in Hmem; rewrite Bool.orb_false_r in Hmem; exact Hmem).
    destruct acc; [contradiction|reflexivity].
  - unfold tm_contains. rewrite Hdef. specialize (Hm acc). rewrite Hmem in Hm.
    unfold mkeys in Hm. rewrite <- find_mem in Hm. unfold tm_find.
    destruct (assoc tagset_eqb acc (tm_present (tagmap_of T'))); [discriminate Hm|reflexivity].
Qed.

(* every strict extension of the accumulated tags misses *)
Definition nm (T': ty) (acc: tagset) : Prop := forall p, p <> [] -> sp_miss (STy T') (p ++ acc).

Lemma nm_cons T' t acc : nm T' acc -> nm T' (t :: acc).
Proof.
  intros H p Hp. replace (p ++ t :: acc) with ((p ++ [t]) ++ acc) by (rewrite <- app_assoc; reflexivity).
  apply H. destruct p; discriminate.
Qed.

Lemma dispatch_miss c rec f T' t acc len : sp_miss (STy T') (t :: acc) ->
  dispatch c rec f (STy T') (t :: acc) len false =
  if tcon t && negb (cls_eqb (tcls t) Univ) then
    match len with
    | None => dec_raw rec f (STy T') (t :: acc) len false
    | Some l => let! p0 := tell in let! v := dec_raw rec f (STy T') (t :: acc) len false in let! p1 := tell in
                if N.eqb (N.of_nat (p1 - p0)) l then Ret v else Raise EMalformed
    end
  else Raise EMalformed.
Proof.
  intros [H1 H2]. unfold dispatch. rewrite H1, H2. cbn [orb].
  destruct (tcon t && negb (cls_eqb (tcls t) Univ)); destruct len; reflexivity.
Qed.

Definition lib_or_eoo (allow: bool) (r: res dval) : Prop :=
  match r with Err e => is_library e = true | Ok DEoo => allow = true | Ok _ => False end.

(* The decoder on ANY octets, once no extension of the accumulated tags can be a key of the guiding
   type: it walks down the first-element spine and ends in a library error (or, where an
   end-of-octets marker is allowed, may report the marker).  The fuel only has to exceed the number
   of octets left. *)
Lemma never_match c T' : forall fuel acc allow s,
  nm T' acc -> closed s = true -> (rem s < fuel)%nat ->
  exists r s', resume (dec_call c fuel (STy T') acc None allow false) s = inr (r, s') /\ lib_or_eoo allow r.
Proof.
  induction fuel as [|f IH]; intros acc allow s Hnm Hc Hf; [lia|].
  cbn [dec_call]. unfold dec_body.
  assert (Hmain: forall s0, closed s0 = true -> (rem s0 <= f)%nat ->
            exists e s', resume (Mark (let! t := read_tag f in let! len := read_length c in
                                       dispatch c (dec_call c f) f (STy T') (t :: acc) len false)) s0 = inr (Err e, s')
                         /\ is_library e = true).
  { intros s0 Hc0 Hf0. cbn [resume].
    assert (Hc1: closed (setmark s0 (pos s0)) = true) by exact Hc0.
    assert (Hr1: (rem (setmark s0 (pos s0)) <= f)%nat) by exact Hf0.
    generalize dependent (setmark s0 (pos s0)). intros s1 Hc1 Hr1.
    destruct (read_tag_run f s1 Hc1 Hr1) as [(e & s' & He & Hl)|(t & s2 & Ht & Hc2 & Hr2 & _)].
    { exists e, s'. split; [apply (resume_pbind_err _ _ _ _ _ He)|exact Hl]. }
    rewrite (resume_pbind_done _ _ _ _ _ Ht).
    destruct (read_length_run c s2 Hc2) as [(e & s' & He & Hl)|(ol & s3 & Hl3 & Hc3 & Hr3 & _)].
    { exists e, s'. split; [apply (resume_pbind_err _ _ _ _ _ He)|exact Hl]. }
    rewrite (resume_pbind_done _ _ _ _ _ Hl3).
    rewrite dispatch_miss by (apply (Hnm [t]); discriminate).
    destruct (tcon t && negb (cls_eqb (tcls t) Univ)); [|exists EMalformed; eexists; cbn [resume]; split; reflexivity].
    pose proof (nm_cons T' t acc Hnm) as Hnm'.
    destruct ol as [l|].
    - rewrite resume_tell. unfold dec_raw.
      destruct (IH (t :: acc) false s3 Hnm' Hc3 ltac:(lia)) as (r & s4 & Hr & Hlib).
      destruct r as [d|e]; [destruct d; cbn [lib_or_eoo] in Hlib; try contradiction; discriminate|].
      exists e, s4. split; [apply (resume_pbind_err _ _ _ _ _ Hr)|exact Hlib].
    - unfold dec_raw. destruct f as [|f']; [lia|]. cbn [raw_loop].
      destruct (IH (t :: acc) true s3 Hnm' Hc3 ltac:(lia)) as (r & s4 & Hr & Hlib).
      destruct r as [d|e].
      + destruct d; cbn [lib_or_eoo] in Hlib; try contradiction.
        rewrite (resume_pbind_done _ _ _ _ _ Hr). cbn [resume]. exists EMalformed; eexists. split; reflexivity.
      + exists e, s4. split; [apply (resume_pbind_err _ _ _ _ _ Hr)|exact Hlib]. }
  destruct (allow && support_indef c) eqn:Ea.
  - apply Bool.andb_true_iff in Ea. destruct Ea as [Hallow _].
    destruct (readN_run 2 s Hc) as [H|(b & H & Hl & Hr)].
    + exists (Err EEndOfStream), s. split; [apply (resume_pbind_err _ _ _ _ _ H)|reflexivity].
    + rewrite (resume_pbind_done _ _ _ _ _ H).
      assert (Hsb: exists e s', resume (SeekBack 2 (Mark (let! t := read_tag f in let! len := read_length c in
                                       dispatch c (dec_call c f) f (STy T') (t :: acc) len false))) (adv s 2) = inr (Err e, s')
                                /\ is_library e = true).
      { cbn [resume]. rewrite seekback_adv. apply (Hmain s Hc). lia. }
      destruct Hsb as (e & s' & Hsb & Hlib).
      destruct b as [|x [|y [|z b']]]; try (exists (Err e), s'; split; [exact Hsb|exact Hlib]);
        destruct x; try (exists (Err e), s'; split; [exact Hsb|exact Hlib]);
        destruct y; try (exists (Err e), s'; split; [exact Hsb|exact Hlib]).
      exists (Ok DEoo). eexists. cbn [resume]. split; [reflexivity|exact Hallow].
  - destruct (Hmain s Hc ltac:(lia)) as (e & s' & He & Hlib). exists (Err e), s'. split; assumption.
Qed.

(* ---------- the levels whose tags are known: those of the encoded type ---------- *)

Definition rej (p: proc dval) (s: stream) : Prop :=
  exists e s', resume p s = inr (Err e, s') /\ is_library e = true.

(* one header the encoder wrote, the accumulated tags are no key: give up on a primitive or
   UNIVERSAL tag, otherwise the verdict is the one of the next level *)
Lemma level_descend : forall c f T' acc0 t cns n l body s,
  enc_len n false = Ok l ->
  avail s = enc_tag t cns ++ l ++ body ->
  (length (enc_tag t cns) <= S f)%nat ->
  sp_miss (STy T') (wire t cns :: acc0) ->
  (tcon (wire t cns) && negb (cls_eqb (tcls (wire t cns)) Univ) = true ->
   rej (dec_call c f (STy T') (wire t cns :: acc0) None false false)
       (adv (setmark s (pos s)) (length (enc_tag t cns) + length l))) ->
  rej (dec_call c (S f) (STy T') acc0 None false false) s.
Proof.
  intros c f T' acc0 t cns n l body s El Hav Hlen Hmiss Hin. unfold rej.
  rewrite (dec_call_header c f (STy T') acc0 false t cns n l body s El Hav Hlen).
  rewrite (dispatch_miss _ _ _ _ _ _ _ Hmiss).
  destruct (tcon (wire t cns) && negb (cls_eqb (tcls (wire t cns)) Univ)).
  - destruct (Hin eq_refl) as (e & s' & He & Hlib).
    rewrite resume_tell. unfold dec_raw. exists e, s'. split; [apply (resume_pbind_err _ _ _ _ _ He)|exact Hlib].
  - exists EMalformed. eexists. cbn [resume]. split; reflexivity.
Qed.

Definition rejects_k (F: nat) (p: proc dval) (bs: bytes) : Prop :=
  forall s tl, closed s = true -> avail s = bs ++ tl -> (length tl <= F)%nat -> rej p s.

Lemma peel_all_lib : forall c T' F f si r acc0 sub b,
  frame_outer r false true si sub = Ok b ->
  Forall explicit_like r ->
  Forall (fun t => (length (enc_tag t false) <= S f)%nat) r ->
  (forall p q, r = p ++ q -> q <> [] -> sp_miss (STy T') (q ++ acc0)) ->
  rejects_k F (dec_call c f (STy T') (r ++ acc0) None false false) sub ->
  rejects_k F (dec_call c (f + length r) (STy T') acc0 None false false) b.
Proof.
  intros c T' F f si r. induction r as [|tn r' IH] using rev_ind; intros acc0 sub b Hfr Hex Hlen Hmiss Hin.
  - cbn [frame_outer] in Hfr. inversion Hfr; subst. cbn [length app] in *. rewrite Nat.add_0_r. exact Hin.
  - rewrite frame_outer_snoc in Hfr.
    destruct (frame_outer r' false true si sub) as [inner|e] eqn:Ein; cbn [bind] in Hfr; [|discriminate].
    apply Forall_app in Hex. destruct Hex as [Hex' Hexn].
    apply Forall_app in Hlen. destruct Hlen as [Hlen' Hlenn]. inversion Hlenn as [|? ? Hl _]; subst.
    rewrite app_length. cbn [length].
    replace (f + (length r' + 1))%nat with (S (f + length r')) by lia.
    intros s tl Hc Hav HF.
    unfold frame_one in Hfr. cbn [negb andb] in Hfr.
    destruct (enc_len (N.of_nat (length inner)) false) as [l|e] eqn:El; cbn [bind] in Hfr; [|discriminate].
    inversion Hfr; subst b; clear Hfr. rewrite app_nil_r in Hav. rewrite <- !app_assoc in Hav.
    apply (level_descend c (f + length r') T' acc0 tn false _ l (inner ++ tl) s El Hav); [lia| |].
    + rewrite wire_false. apply (Hmiss r' [tn] eq_refl). discriminate.
    + intros _. rewrite wire_false.
      apply (IH (tn :: acc0) sub inner Ein Hex' Hlen') with (tl := tl).
      * intros p q Hpq Hq. replace (q ++ tn :: acc0) with ((q ++ [tn]) ++ acc0) by (rewrite <- app_assoc; reflexivity).
        apply (Hmiss p (q ++ [tn])); [rewrite Hpq, app_assoc; reflexivity|destruct q; discriminate].
      * rewrite <- app_assoc in Hin. exact Hin.
      * exact Hc.
      * rewrite avail_adv, avail_setmark, Hav. rewrite app_assoc, <- app_length. apply skipn_app_exact.
      * exact HF.
Qed.

(* the innermost header of the encoded type: past it nothing is known of the octets *)
Lemma inner_level : forall c T' F f0 t0 cns si content s0 r,
  frame_one t0 cns true si content = Ok s0 ->
  sp_miss (STy T') (wire t0 cns :: r) ->
  (tcon (wire t0 cns) && negb (cls_eqb (tcls (wire t0 cns)) Univ) = true -> nm T' (wire t0 cns :: r)) ->
  (length (enc_tag t0 cns) <= S f0)%nat ->
  (length content + F < f0)%nat ->
  rejects_k F (dec_call c (S f0) (STy T') r None false false) s0.
Proof.
  intros c T' F f0 t0 cns si content s0 r Hfr Hmiss Hnm Hlen Hfuel s tl Hc Hav HF.
  unfold frame_one in Hfr. cbn [negb andb] in Hfr.
  destruct (enc_len (N.of_nat (length content)) false) as [l|e] eqn:El; cbn [bind] in Hfr; [|discriminate].
  inversion Hfr; subst s0; clear Hfr. rewrite app_nil_r in Hav. rewrite <- !app_assoc in Hav.
  apply (level_descend c f0 T' r t0 cns _ l (content ++ tl) s El Hav Hlen Hmiss).
  intros Hd.
  set (s1 := adv (setmark s (pos s)) (length (enc_tag t0 cns) + length l)).
  assert (Hav1: avail s1 = content ++ tl).
  { subst s1. rewrite avail_adv, avail_setmark, Hav. rewrite app_assoc, <- app_length. apply skipn_app_exact. }
  destruct (never_match c T' f0 (wire t0 cns :: r) false s1 (Hnm Hd)) as (res & s2 & Hr & Hlib).
  - exact Hc.
  - unfold rem. rewrite Hav1, app_length. lia.
  - destruct res as [d|e]; [destruct d; cbn [lib_or_eoo] in Hlib; try contradiction; discriminate|].
    exists e, s2. split; assumption.
Qed.

(* ---------- from the condition on the keys to misses ---------- *)

Lemma mem_suffix_false ts : forall K, Forall (fun k => suffix_free ts k = true) K ->
  forall p q, ts = p ++ q -> q <> [] -> tm_mem q K = false.
Proof.
  induction K as [|k K IH]; intros HF p q Hpq Hq; [reflexivity|].
  inversion HF as [|? ? Hk HK]; subst. cbn [tm_mem existsb].
  rewrite (suffix_free_spec (p ++ q) k Hk p q eq_refl Hq). cbn [orb]. exact (IH HK p q eq_refl Hq).
Qed.

Lemma tagset_eqb_app_inv : forall p a k, tagset_eqb (p ++ a) k = true ->
  exists p' a', k = p' ++ a' /\ tagset_eqb a a' = true.
Proof.
  induction p as [|x p IH]; intros a k H.
  - exists [], k. split; [reflexivity|exact H].
  - destruct k as [|y k]; [discriminate H|]. cbn [app] in H. rewrite tagset_eqb_cons in H.
    apply Bool.andb_true_iff in H. destruct H as [_ H]. destruct (IH a k H) as (p' & a' & -> & Ha).
    exists (y :: p'), a'. split; [reflexivity|exact Ha].
Qed.

Lemma mem_ext_false ts : ts <> [] -> forall K, Forall (fun k => suffix_free k ts = true) K ->
  forall p, tm_mem (p ++ ts) K = false.
Proof.
  intros Hne. induction K as [|k K IH]; intros HF p; [reflexivity|].
  inversion HF as [|? ? Hk HK]; subst.
  change (tm_mem (p ++ ts) (k :: K)) with (tagset_eqb (p ++ ts) k || tm_mem (p ++ ts) K)%bool.
  rewrite (IH HK p), Bool.orb_false_r.
  destruct (tagset_eqb (p ++ ts) k) eqn:E; [|reflexivity].
  destruct (tagset_eqb_app_inv p ts k E) as (p' & a' & -> & Ha).
  assert (Ha': a' <> []) by (intros ->; destruct ts; [contradiction|discriminate Ha]).
  pose proof (suffix_free_spec _ _ Hk p' a' eq_refl Ha') as Hs.
  rewrite tagset_eqb_symb in Hs. congruence.
Qed.

Lemma tag_eqb_wire t c : tag_eqb (wire t c) t = true.
Proof. unfold tag_eqb, wire. cbn [tcls tnum]. rewrite N.eqb_refl. destruct (tcls t); reflexivity. Qed.

Lemma tagset_eqb_wire : forall p t c r, tagset_eqb (p ++ wire t c :: r) (p ++ t :: r) = true.
Proof.
  induction p as [|x p IH]; intros t c r; cbn [app]; rewrite tagset_eqb_cons.
  - rewrite tag_eqb_wire. apply tagset_eqb_refl.
  - rewrite IH, Bool.andb_true_r. unfold tag_eqb. rewrite N.eqb_refl. destruct (tcls x); reflexivity.
Qed.

(* ---------- wire level ---------- *)

(* [b] = what the framing writes for contents [content] (constructed iff [cns]) under the tags
   t0 :: r.  The innermost header is constructed on the wire iff tcon t0 || cns. *)
Theorem framed_never_match : forall cd T' t0 r content cns si b tl,
  frame (t0 :: r) content cns def_opts si = Ok b ->
  Forall explicit_like r ->
  keys_ok (ckeys T') = true ->
  Forall (fun k => suffix_free (t0 :: r) k = true) (ckeys T') ->
  ((tcon t0 || cns) && negb (cls_eqb (tcls t0) Univ) = true ->
   Forall (fun k => suffix_free k (t0 :: r) = true) (ckeys T')) ->
  exists e, decode cd (Some T') (b ++ tl) = Err e /\ is_library e = true.
Proof.
  intros cd T' t0 r content cns si b tl He Hex HK Hsuf Hdesc.
  pose proof (frame_len_r _ _ _ _ _ _ He) as Hlr.
  cbn [frame] in He. rewrite Bool.andb_false_r in He. cbn [o_def def_opts] in He.
  assert (Hd: (if cns then true else true) = true) by (destruct cns; reflexivity). rewrite Hd in He. clear Hd.
  destruct (frame_one t0 cns true si content) as [s0|e] eqn:E0; cbn [bind] in He; [|discriminate].
  rewrite (frame_outer_con r cns true si s0 Hex) in He.
  pose proof (frame_outer_length _ _ _ _ _ He) as Hlen0.
  destruct (frame_one_length _ _ _ _ _ E0) as (l0 & Hs0 & Hl0).
  unfold decode. set (fuel := dec_fuel (Some T') (b ++ tl)).
  set (f0 := (fuel - 1 - length r)%nat).
  assert (Hfuel: fuel = (S f0 + length r)%nat).
  { subst f0 fuel. unfold dec_fuel. rewrite app_length. lia. }
  assert (Hbig: (length b <= S f0)%nat).
  { subst f0 fuel. unfold dec_fuel. rewrite app_length. lia. }
  pose proof (frame_outer_taglens _ _ _ _ _ (S (S f0)) He ltac:(lia)) as Htl.
  (* the misses *)
  assert (Hm_suffix: forall p q, r = p ++ q -> q <> [] -> sp_miss (STy T') (q ++ [])).
  { intros p q Hpq Hq. rewrite app_nil_r. apply (miss_of_keys T' q HK Hq).
    apply (mem_suffix_false (t0 :: r) _ Hsuf (t0 :: p) q); [rewrite Hpq; reflexivity|exact Hq]. }
  assert (Hm_full: sp_miss (STy T') (wire t0 cns :: r)).
  { apply (miss_of_keys T' _ HK); [discriminate|].
    rewrite (tm_mem_eqb _ (t0 :: r) _ (tagset_eqb_wire [] t0 cns r)).
    apply (mem_suffix_false (t0 :: r) _ Hsuf [] (t0 :: r) eq_refl). discriminate. }
  assert (Hm_ext: tcon (wire t0 cns) && negb (cls_eqb (tcls (wire t0 cns)) Univ) = true -> nm T' (wire t0 cns :: r)).
  { intros Hd p Hp. apply (miss_of_keys T' _ HK); [destruct p; discriminate|].
    rewrite (tm_mem_eqb _ (p ++ t0 :: r) _ (tagset_eqb_wire p t0 cns r)).
    apply (mem_ext_false (t0 :: r)); [discriminate|]. apply Hdesc. exact Hd. }
  assert (Hrej: rejects_k (length tl) (dec_call cd (S f0 + length r) (STy T') [] None false false) b).
  { apply (peel_all_lib cd T' (length tl) (S f0) si r [] s0 b He Hex Htl Hm_suffix).
    rewrite app_nil_r.
    apply (inner_level cd T' (length tl) f0 t0 cns si content s0 r E0 Hm_full Hm_ext).
    - rewrite Hs0, !app_length in Hlen0. lia.
    - subst f0 fuel. unfold dec_fuel. rewrite app_length. lia. }
  unfold dec_item, run_complete. rewrite Hfuel.
  destruct (Hrej (mkStream (b ++ tl) 0 true 0) tl eq_refl eq_refl (le_n _)) as (e & s' & Hr & Hlib).
  rewrite Hr. exists e. split; [reflexivity|exact Hlib].
Qed.

(* ---------- the tag set of any type ---------- *)

Lemma tagset_shape_all : forall T, wf_tags T = true ->
  exists ts, tagset_of T = Ok ts /\
    ((ts = [] /\ plain_top T = false) \/ exists t0 r, ts = t0 :: r /\ Forall explicit_like r).
Proof.
  induction T as [| | | | | | | | n|fs IH|fs IH|t IH|t IH|alts IH| |tg x IH|tg x IH] using ty_ind'; intros Hw;
    try (eexists; split; [reflexivity|right; eexists; exists []; split; [reflexivity|constructor]]);
    try (exists []; split; [reflexivity|left; split; reflexivity]).
  - (* IMPLICIT *)
    cbn [wf_tags] in Hw. apply Bool.andb_true_iff in Hw. destruct Hw as [Hcl Hw].
    assert (Hnu: tcls tg <> Univ) by (destruct (tcls tg); try discriminate; cbn in Hcl; congruence).
    destruct (IH Hw) as (ts & Hts & Hsh). cbn [tagset_of]. rewrite Hts. cbn [bind].
    eexists. split; [reflexivity|]. right.
    destruct Hsh as [[-> _]|(t0 & r & -> & Hex)].
    + exists tg, []. split; [reflexivity|constructor].
    + destruct r as [|r1 r'].
      * eexists; exists []. split; [reflexivity|constructor].
      * destruct (tag_implicitly_cons t0 (r1 :: r') tg) as (r2 & E & _ & Hf); [discriminate|].
        exists t0, r2. split; [exact E|]. apply Hf; assumption.
  - (* EXPLICIT *)
    cbn [wf_tags] in Hw. apply Bool.andb_true_iff in Hw. destruct Hw as [Hcl Hw].
    assert (Hnu: tcls tg <> Univ) by (destruct (tcls tg); try discriminate; cbn in Hcl; congruence).
    destruct (IH Hw) as (ts & Hts & Hsh). cbn [tagset_of]. rewrite Hts. cbn [bind].
    exists (ts ++ [mkTag (tcls tg) true (tnum tg)]).
    split; [unfold tag_explicitly; destruct (tcls tg); try reflexivity; congruence|]. right.
    destruct Hsh as [[-> _]|(t0 & r & -> & Hex)].
    + eexists; exists []. split; [reflexivity|constructor].
    + exists t0, (r ++ [mkTag (tcls tg) true (tnum tg)]). split; [reflexivity|].
      apply Forall_app. split; [exact Hex|]. constructor; [|constructor]. split; [reflexivity|exact Hnu].
Qed.

(* ---------- the condition, on the types ---------- *)

(* the innermost header of an encoding of T may be a constructed non-universal one, into which the
   decoder steps: T is not a simple type and its innermost tag is not UNIVERSAL *)
Definition may_descend (T: ty) : bool :=
  negb (prim_base T) &&
  match tagset_of' T with t0 :: _ => negb (cls_eqb (tcls t0) Univ) | [] => false end.

(* the key k of the guiding type can never be met on the spine of an encoding of T *)
Definition key_differs (T: ty) (k: tagset) : bool :=
  suffix_free (tagset_of' T) k && (negb (may_descend T) || suffix_free k (tagset_of' T)).

Definition tags_differ_u (T T': ty) : bool := forallb (key_differs T) (ckeys T').

(* The rejection half of C13 for the whole universe.  T: any type whose tags are well-formed and
   that has a tag set of its own (anything but an untagged CHOICE/ANY); v: ANY value the BER or DER
   encoder accepts in definite mode; T': any type whose keys are good (its own non-empty tag set; for
   an untagged CHOICE the alternatives' keys, none a suffix of another) - anything at all inside. *)
Theorem tag_mismatch_rejected_universe : forall ce cd T T' v b tl,
  enc_ok ce -> wf_tags T = true -> plain_top T = true ->
  encode ce true 0 T v = Ok b ->
  keys_ok (ckeys T') = true ->
  tags_differ_u T T' = true ->
  exists e, decode cd (Some T') (b ++ tl) = Err e /\ is_library e = true.
Proof.
  intros ce cd T T' v b tl Hce Hw Hpt He HK Hd.
  destruct (enc_with_inv_g ce Hce T v b He) as (ec & fl & ts & content & cns & Hcc & Hts & Hcont & Hfr).
  destruct (tagset_shape_all T Hw) as (ts' & Hts' & Hsh). rewrite Hts in Hts'. inversion Hts'; subst ts'; clear Hts'.
  destruct Hsh as [[_ Hpf]|(t0 & r & -> & Hex)]; [congruence|].
  pose proof (tagset_of'_ok T _ Hts) as Hts0.
  unfold tags_differ_u in Hd. rewrite forallb_forall in Hd.
  apply (framed_never_match cd T' t0 r content cns (ef_indef fl) b tl Hfr Hex HK).
  - apply Forall_forall. intros k Hk. specialize (Hd k Hk). unfold key_differs in Hd. rewrite Hts0 in Hd.
    apply Bool.andb_true_iff in Hd. exact (proj1 Hd).
  - intros Hdesc.
    assert (Hmd: may_descend T = true).
    { unfold may_descend. rewrite Hts0. apply Bool.andb_true_iff in Hdesc. destruct Hdesc as [Hc Hnu]. rewrite Hnu, Bool.andb_true_r.
      destruct (prim_base T) eqn:Hp; [|reflexivity].
      destruct (tagset_prim_shape T Hp Hw) as (t0' & r' & Hts1 & Hc0 & _). rewrite Hts in Hts1. inversion Hts1; subst t0' r'.
      rewrite (prim_content_primitive ce T ec fl v content cns Hce Hp Hcc Hcont), Hc0 in Hc. discriminate Hc. }
    apply Forall_forall. intros k Hk. specialize (Hd k Hk). unfold key_differs in Hd. rewrite Hts0, Hmd in Hd.
    apply Bool.andb_true_iff in Hd. exact (proj2 Hd).
Qed.

(* ---------- how much the condition covers ---------- *)

Lemma sf_same_length ts ts' : length ts = length ts' -> tagset_eqb ts ts' = false -> suffix_free ts ts' = true.
Proof. exact (tags_differ_same_length ts ts'). Qed.
Lemma sf_longer ts ts' : (length ts < length ts')%nat -> suffix_free ts ts' = true.
Proof. exact (tags_differ_longer ts ts'). Qed.

Lemma suffix_free_app_len : forall p q ts, length q = length ts -> tagset_eqb q ts = false ->
  suffix_free (p ++ q) ts = true.
Proof.
  induction p as [|x p IH]; intros q ts Hl Hne.
  - apply sf_same_length; assumption.
  - cbn [app suffix_free]. rewrite tagset_eqb_len_false by (cbn [length]; rewrite app_length; lia).
    cbn [negb andb]. apply IH; assumption.
Qed.

(* as many tags, different somewhere in class or number *)
Lemma same_length_differs T k : length k = length (tagset_of' T) ->
  tagset_eqb (tagset_of' T) k = false -> key_differs T k = true.
Proof.
  intros Hl Hne. unfold key_differs. rewrite (sf_same_length _ _ (eq_sym Hl) Hne). cbn [andb].
  rewrite tagset_eqb_symb in Hne. rewrite (sf_same_length _ _ Hl Hne). apply Bool.orb_true_r.
Qed.

(* more tags, the outer ones (as many as T has) different from T's somewhere in class or number *)
Lemma longer_differs T p q : p <> [] -> length q = length (tagset_of' T) ->
  tagset_eqb q (tagset_of' T) = false -> key_differs T (p ++ q) = true.
Proof.
  intros Hp Hl Hne. unfold key_differs.
  rewrite (sf_longer (tagset_of' T) (p ++ q)) by (rewrite app_length; destruct p; [contradiction|cbn [length]; lia]).
  cbn [andb]. rewrite (suffix_free_app_len p q _ Hl Hne). apply Bool.orb_true_r.
Qed.

(* more tags in any way, when the encoded type is simple or its innermost tag is UNIVERSAL *)
Lemma longer_no_descent T k : may_descend T = false -> (length (tagset_of' T) < length k)%nat -> key_differs T k = true.
Proof.
  intros Hmd Hl. unfold key_differs. rewrite (sf_longer _ _ Hl), Hmd. reflexivity.
Qed.

(* In the vocabulary of stage 3: T and T' stage-3 types, T not an untagged CHOICE/ANY, T' not the
   untagged ANY; every key of T' (its tag set; the alternatives' tag sets for an untagged CHOICE) has
   as many tags as T's tag set and differs from it in class or number at some level. *)
Theorem tag_mismatch_rejected_stage3 : forall srt srt' ce ce' cd T T' v b tl,
  enc_ok ce -> stage3_ty srt ce T = true -> plain_top T = true ->
  encode ce true 0 T v = Ok b ->
  stage3_ty srt' ce' T' = true -> T' <> TAny ->
  Forall (fun k => length k = length (tagset_of' T) /\ tagset_eqb (tagset_of' T) k = false) (ckeys T') ->
  exists e, decode cd (Some T') (b ++ tl) = Err e /\ is_library e = true.
Proof.
  intros srt srt' ce ce' cd T T' v b tl Hce Hty Hpt He Hty' Hna HF.
  apply (tag_mismatch_rejected_universe ce cd T T' v b tl Hce (proj1 (stage3_ty_base srt ce T Hty)) Hpt He (top_keys ce' srt' T' Hty' Hna)).
  unfold tags_differ_u. apply forallb_forall. intros k Hk. rewrite Forall_forall in HF. destruct (HF k Hk) as [Hl Hne].
  apply same_length_differs; assumption.
Qed.

(* ---------- non-vacuity ---------- *)

Definition cx (n: N) : tag := mkTag Ctx false n.

(* [5] IMPLICIT SEQUENCE { INTEGER, SEQUENCE OF BOOLEAN OPTIONAL } *)
Definition u_T : ty := TImp (cx 5) (TSeq [(Req, TInt); (Opt, TSeqOf TBool)]).
Definition u_v : val := VRec [Some (VInt 7); Some (VList [VBool true])].
Definition u_b : bytes := [165; 8; 2; 1; 7; 48; 3; 1; 1; 255].

Definition u_T1 : ty := TImp (cx 6) (TSeq [(Req, TInt); (Opt, TSeqOf TBool)]).       (* number differs *)
Definition u_T2 : ty := TChoice [TImp (cx 0) TInt; TImp (cx 1) (TSetOf TInt)].        (* untagged CHOICE, no alternative fits *)
Definition u_T3 : ty := TExp (cx 7) (TImp (cx 6) TInt).                               (* more tags, the outer one differs *)
Definition u_T4 : ty := TSeq [(Req, TInt); (Opt, TSeqOf TBool)].                      (* class differs *)

Example universe_hypotheses_satisfiable :
  enc_ok DER /\ wf_tags u_T = true /\ plain_top u_T = true /\ stage3_ty false DER u_T = true
  /\ stage3_val DER DER u_T u_v = true /\ encode DER true 0 u_T u_v = Ok u_b
  /\ Forall (fun T' => keys_ok (ckeys T') = true /\ tags_differ_u u_T T' = true) [u_T1; u_T2; u_T3; u_T4].
Proof.
  split; [right; reflexivity|]. repeat (split; [vm_compute; reflexivity|]).
  repeat (constructor; [vm_compute; split; reflexivity|]). constructor.
Qed.

Example universe_rejected_example :
  Forall (fun T' => forall cd tl, exists e, decode cd (Some T') (u_b ++ tl) = Err e /\ is_library e = true)
         [u_T1; u_T2; u_T3; u_T4].
Proof.
  destruct universe_hypotheses_satisfiable as (Hce & Hw & Hpt & _ & _ & He & Hall).
  eapply Forall_impl; [|exact Hall]. cbv beta. intros T' (HK & Hd) cd tl.
  exact (tag_mismatch_rejected_universe DER cd u_T T' u_v u_b tl Hce Hw Hpt He HK Hd).
Qed.

Example universe_rejected_computed :
  decode BER (Some u_T1) (u_b ++ [9]) = Err EMalformed
  /\ decode CER (Some u_T2) (u_b ++ [9]) = Err EMalformed
  /\ decode DER (Some u_T3) (u_b ++ [9]) = Err EMalformed
  /\ exists v', decode DER (Some u_T) (u_b ++ [9]) = Ok (DV u_T v', [9]).
Proof. vm_compute. repeat split. eexists. reflexivity. Qed.

(* the question put for SEQUENCE { [5] IMPLICIT INTEGER } = 30 03 85 01 07 read as [5] IMPLICIT
   INTEGER: refused - the decoder does not step into a container whose tag is UNIVERSAL; nor is it
   accepted under more tags ([1] EXPLICIT [5] IMPLICIT INTEGER) *)
Example universal_container_not_entered :
  encode BER true 0 (TSeq [(Req, TImp (cx 5) TInt)]) (VRec [Some (VInt 7)]) = Ok [48; 3; 133; 1; 7]
  /\ forall cd tl, (exists e, decode cd (Some (TImp (cx 5) TInt)) ([48; 3; 133; 1; 7] ++ tl) = Err e /\ is_library e = true)
               /\ (exists e, decode cd (Some (TExp (cx 1) (TImp (cx 5) TInt))) ([48; 3; 133; 1; 7] ++ tl) = Err e /\ is_library e = true).
Proof.
  split; [vm_compute; reflexivity|]. intros cd tl.
  split; apply (tag_mismatch_rejected_universe BER cd (TSeq [(Req, TImp (cx 5) TInt)]) _ (VRec [Some (VInt 7)]));
    try (vm_compute; reflexivity); left; reflexivity.
Qed.

(* the error need not be the generic one: past an empty container the decoder reads on *)
Example rejected_with_end_of_stream :
  encode BER true 0 (TImp (cx 5) (TSeq [])) (VRec []) = Ok [165; 0]
  /\ tags_differ_u (TImp (cx 5) (TSeq [])) (TImp (cx 6) TInt) = true
  /\ decode BER (Some (TImp (cx 6) TInt)) [165; 0] = Err EEndOfStream
  /\ decode BER (Some (TImp (cx 6) TInt)) ([165; 0] ++ [2; 1; 7]) = Err EMalformed.
Proof. vm_compute. repeat split. Qed.

(* ---------- the case the condition excludes: the decoder steps into the container ---------- *)

(* [5] IMPLICIT SEQUENCE { INTEGER } written, [5] EXPLICIT INTEGER expected: tag sets [CONTEXT 5]
   against [UNIVERSAL 2; CONTEXT 5] - one tag against two - and A5 03 02 01 07 is an encoding of
   both.  Accepted by all three decoders (a SEQUENCE with a second member would fail the length
   check of the wrapper). *)
Definition into_T  : ty := TImp (cx 5) (TSeq [(Req, TInt)]).
Definition into_T' : ty := TExp (cx 5) TInt.

Example container_entered_accepted :
  wf_tags into_T = true /\ plain_top into_T = true /\ stage3_ty false BER into_T = true
  /\ stage3_val BER BER into_T (VRec [Some (VInt 7)]) = true
  /\ encode BER true 0 into_T (VRec [Some (VInt 7)]) = Ok [165; 3; 2; 1; 7]
  /\ keys_ok (ckeys into_T') = true /\ stage3_ty false BER into_T' = true
  /\ tagset_of' into_T = [mkTag Ctx true 5] /\ tagset_of' into_T' = [mkTag Univ false 2; mkTag Ctx true 5]
  /\ tags_differ (tagset_of' into_T) (tagset_of' into_T') = true      (* the condition for simple types holds *)
  /\ tags_differ_u into_T into_T' = false                              (* the condition for the universe does not *)
  /\ decode BER (Some into_T') [165; 3; 2; 1; 7] = Ok (DV into_T' (VInt 7), [])
  /\ decode CER (Some into_T') [165; 3; 2; 1; 7] = Ok (DV into_T' (VInt 7), [])
  /\ decode DER (Some into_T') [165; 3; 2; 1; 7] = Ok (DV into_T' (VInt 7), [])
  /\ decode BER (Some into_T') [165; 6; 2; 1; 7; 2; 1; 8] = Err EMalformed.
Proof. vm_compute. repeat split. Qed.

(* the same one level further in, and for SEQUENCE OF *)
Example container_entered_accepted_nested :
  encode DER true 0 (TImp (cx 1) (TSeq [(Req, TImp (cx 5) TInt)])) (VRec [Some (VInt 7)]) = Ok [161; 3; 133; 1; 7]
  /\ tags_differ_u (TImp (cx 1) (TSeq [(Req, TImp (cx 5) TInt)])) (TExp (cx 1) (TImp (cx 5) TInt)) = false
  /\ decode BER (Some (TExp (cx 1) (TImp (cx 5) TInt))) [161; 3; 133; 1; 7] = Ok (DV (TExp (cx 1) (TImp (cx 5) TInt)) (VInt 7), [])
  /\ encode BER true 0 (TImp (cx 5) (TSeqOf TInt)) (VList [VInt 7]) = Ok [165; 3; 2; 1; 7]
  /\ decode DER (Some into_T') [165; 3; 2; 1; 7] = Ok (DV into_T' (VInt 7), []).
Proof. vm_compute. repeat split. Qed.

(* a tagged CHOICE: the type's own tag set is the wrapper alone, the wire carries the alternative's
   tags as well; [3] EXPLICIT [0] IMPLICIT INTEGER has them all *)
Definition ch_T : ty := TExp (cx 3) (TChoice [TImp (cx 0) TInt; TImp (cx 1) TOcts]).

Example tagged_choice_entered_accepted :
  encode BER true 0 ch_T (VChoice 0 (VInt 5)) = Ok [163; 3; 128; 1; 5]
  /\ tagset_of' ch_T = [mkTag Ctx true 3]
  /\ tags_differ_u ch_T (TExp (cx 3) (TImp (cx 0) TInt)) = false
  /\ decode BER (Some (TExp (cx 3) (TImp (cx 0) TInt))) [163; 3; 128; 1; 5] = Ok (DV (TExp (cx 3) (TImp (cx 0) TInt)) (VInt 5), [])
  /\ decode BER (Some (TExp (cx 3) (TImp (cx 1) TInt))) [163; 3; 128; 1; 5] = Err EMalformed.
Proof. vm_compute. repeat split. Qed.

(* an untagged CHOICE as guiding type accepts as soon as ONE alternative's tag set is met *)
Example choice_alternative_accepts :
  encode BER true 0 (TImp (cx 1) TOcts) (VOcts [9]) = Ok [129; 1; 9]
  /\ tags_differ_u (TImp (cx 1) TOcts) (TChoice [TImp (cx 0) TInt; TImp (cx 1) TOcts]) = false
  /\ decode BER (Some (TChoice [TImp (cx 0) TInt; TImp (cx 1) TOcts])) [129; 1; 9]
     = Ok (DV (TChoice [TImp (cx 0) TInt; TImp (cx 1) TOcts]) (VChoice 1 (VOcts [9])), [])
  /\ tags_differ_u (TImp (cx 1) TOcts) (TChoice [TImp (cx 0) TInt; TImp (cx 2) TOcts]) = true
  /\ decode BER (Some (TChoice [TImp (cx 0) TInt; TImp (cx 2) TOcts])) [129; 1; 9] = Err EMalformed.
Proof. vm_compute. repeat split. Qed.

Print Assumptions never_match.
Print Assumptions framed_never_match.
Print Assumptions tag_mismatch_rejected_universe.
Print Assumptions tag_mismatch_rejected_stage3.
Print Assumptions universe_rejected_example.
Print Assumptions universal_container_not_entered.
Print Assumptions container_entered_accepted.
Print Assumptions tagged_choice_entered_accepted.
Print Assumptions choice_alternative_accepts.

(* Simulation proofs for the stream/decoder model of Model/Proc.v:
   exact consumption (C07), schedule independence (C05), prefix insufficiency (C06)
   for decoders that never ask "is the stream at its end" (clean trees), and their
   transfer to arbitrary trees for runs that never touch such a node (guard). *)
From PV Require Import Model.Proc.
From Coq Require Import Lia.

(* ---------- clean trees: no AtEOS, no ReadAll ---------- *)
Inductive clean {A} : proc A -> Prop :=
| clean_Ret a : clean (Ret a)
| clean_Raise e : clean (Raise e)
| clean_ReadN n k : (forall b, clean (k b)) -> clean (ReadN n k)
| clean_Tell k : (forall q, clean (k q)) -> clean (Tell k)
| clean_SeekBack d k : clean k -> clean (SeekBack d k)
| clean_Mark k : clean k -> clean (Mark k)
| clean_GetMark k : (forall q, clean (k q)) -> clean (GetMark k).

(* s2 extends s1: same position, same mark, the arrived bytes of s1 are a prefix of those of s2 *)
Definition extends (s1 s2: stream) : Prop :=
  pos s1 = pos s2 /\ mark s1 = mark s2 /\ exists more, arrived s2 = arrived s1 ++ more.

(* s with the position and mark recorded in s' *)
Definition sync (s s': stream) : stream := mkStream (arrived s) (pos s') (closed s) (mark s').

Lemma skipn_app_le {X} (l1 l2: list X) n : n <= length l1 -> skipn n (l1 ++ l2) = skipn n l1 ++ l2.
Proof. intros H. rewrite skipn_app. replace (n - length l1) with 0 by lia. reflexivity. Qed.

Lemma firstn_app_le {X} (l1 l2: list X) n : n <= length l1 -> firstn n (l1 ++ l2) = firstn n l1.
Proof. intros H. rewrite firstn_app. replace (n - length l1) with 0 by lia. cbn [firstn]. apply app_nil_r. Qed.

Lemma avail_length s : length (avail s) = length (arrived s) - pos s.
Proof. unfold avail. apply skipn_length. Qed.

Lemma avail_ext s1 s2 : extends s1 s2 -> length (avail s1) <> 0 ->
  exists more, avail s2 = avail s1 ++ more.
Proof.
  intros [Hp [_ [more Ha]]] Hn. exists more. rewrite avail_length in Hn.
  unfold avail. rewrite <- Hp, Ha. apply skipn_app_le. lia.
Qed.

Lemma setpos_same s q : q = pos s -> setpos s q = s.
Proof. intros ->. destruct s; reflexivity. Qed.

Lemma extends_refl s : extends s s.
Proof. split; [reflexivity|]. split; [reflexivity|]. exists []. symmetry. apply app_nil_r. Qed.

(* ---------- one read attempt ---------- *)
Lemma attempt_got_ext s1 s2 n c s1' :
  extends s1 s2 -> attempt s1 n = (Got c, s1') ->
  exists s2', attempt s2 n = (Got c, s2') /\ extends s1' s2' /\ s2' = setpos s2 (pos s1').
Proof.
  intros Hx H. unfold attempt in *.
  destruct (Nat.eqb n 0) eqn:En.
  - inversion H; subst. exists s2. split; [reflexivity|]. split; [exact Hx|].
    destruct Hx as [Hp _]. symmetry. apply setpos_same. exact Hp.
  - destruct (Nat.ltb (length (avail s1)) n) eqn:El; [destruct (closed s1); discriminate|].
    apply Nat.eqb_neq in En. apply Nat.ltb_ge in El. inversion H; subst; clear H.
    assert (E0: length (avail s1) <> 0) by lia.
    destruct (avail_ext _ _ Hx E0) as [more Hav]. rewrite Hav, app_length.
    assert (Nat.ltb (length (avail s1) + length more) n = false) as -> by (apply Nat.ltb_ge; lia).
    rewrite firstn_app_le by lia.
    eexists; split; [reflexivity|]. destruct Hx as [Hp [Hmk [m Hm]]].
    split.
    + split; [cbn; congruence|]. split; [cbn; exact Hmk|]. exists m. cbn. exact Hm.
    + cbn. rewrite Hp. reflexivity.
Qed.

Lemma attempt_under_same s n s' : attempt s n = (Under, s') -> s' = s.
Proof.
  unfold attempt. destruct (Nat.eqb n 0); [discriminate|].
  destruct (Nat.ltb (length (avail s)) n); [|discriminate].
  destruct (closed s); intros H; inversion H; auto.
Qed.

Lemma attempt_under_missing s n s' : attempt s n = (Under, s') -> length (avail s) < n.
Proof.
  unfold attempt. destruct (Nat.eqb n 0); [discriminate|].
  destruct (Nat.ltb (length (avail s)) n) eqn:El; [|discriminate].
  apply Nat.ltb_lt in El. intros _. exact El.
Qed.

(* an underrun is reported only while the stream is open *)
Lemma attempt_under_open s n s' : attempt s n = (Under, s') -> closed s = false.
Proof.
  unfold attempt. destruct (Nat.eqb n 0); [discriminate|].
  destruct (Nat.ltb (length (avail s)) n); [|discriminate].
  destruct (closed s); [discriminate|reflexivity].
Qed.

(* an attempt changes nothing but the position *)
Lemma attempt_frame s n r s' : attempt s n = (r, s') ->
  arrived s' = arrived s /\ closed s' = closed s /\ mark s' = mark s.
Proof.
  unfold attempt. destruct (Nat.eqb n 0); [intros H; inversion H; auto|].
  destruct (Nat.ltb (length (avail s)) n); intros H; inversion H; auto.
Qed.

Lemma attempt_eos_closed s n s' : attempt s n = (EOS, s') -> closed s = true.
Proof.
  unfold attempt. destruct (Nat.eqb n 0); [discriminate|].
  destruct (Nat.ltb (length (avail s)) n); [|discriminate].
  destruct (closed s); [reflexivity|discriminate].
Qed.

(* the position never runs past the arrived bytes *)
Lemma attempt_pos_le s n r s' : attempt s n = (r, s') ->
  pos s <= length (arrived s) -> pos s' <= length (arrived s').
Proof.
  unfold attempt. destruct (Nat.eqb n 0) eqn:En; [intros H; inversion H; auto|].
  destruct (Nat.ltb (length (avail s)) n) eqn:El; intros H; inversion H; auto.
  apply Nat.ltb_ge in El. apply Nat.eqb_neq in En. rewrite avail_length in El. cbn. lia.
Qed.

(* ---------- frame properties of resume (any tree) ---------- *)
Lemma resume_susp_frame {A} (p: proc A) : forall s p' s',
  resume p s = inl (p', s') -> arrived s' = arrived s /\ closed s' = closed s.
Proof.
  induction p as [a0|e|n k IH|k IH|d k IH|k IH|k IH|k IH|k IH]; intros s p' s' H; cbn [resume] in H;
    try discriminate.
  - destruct (attempt s n) as [[c| |] sm] eqn:E; try discriminate.
    + destruct (attempt_frame _ _ _ _ E) as [Ha [Hc _]]. destruct (IH _ _ _ _ H). split; congruence.
    + inversion H; subst. destruct (attempt_frame _ _ _ _ E) as [Ha [Hc _]]. auto.
  - eauto.
  - destruct (IH _ _ _ H). auto.
  - destruct (IH _ _ _ H). auto.
  - eauto.
  - destruct (Nat.eqb (length (avail s)) 0).
    + remember (closed s) as cl eqn:Hcl in H. destruct cl; [eauto|]. inversion H; subst. auto.
    + eauto.
  - destruct (Nat.eqb (length (avail s)) 0).
    + remember (closed s) as cl eqn:Hcl in H. destruct cl; [discriminate|]. inversion H; subst. auto.
    + destruct (IH _ _ _ _ H). auto.
Qed.

Lemma resume_done_frame {A} (p: proc A) : forall s r s',
  resume p s = inr (r, s') -> arrived s' = arrived s /\ closed s' = closed s.
Proof.
  induction p as [a0|e|n k IH|k IH|d k IH|k IH|k IH|k IH|k IH]; intros s r s' H; cbn [resume] in H.
  - inversion H; subst. auto.
  - inversion H; subst. auto.
  - destruct (attempt s n) as [[c| |] sm] eqn:E; try discriminate.
    + destruct (attempt_frame _ _ _ _ E) as [Ha [Hc _]]. destruct (IH _ _ _ _ H). split; congruence.
    + inversion H; subst. destruct (attempt_frame _ _ _ _ E) as [Ha [Hc _]]. auto.
  - eauto.
  - destruct (IH _ _ _ H). auto.
  - destruct (IH _ _ _ H). auto.
  - eauto.
  - destruct (Nat.eqb (length (avail s)) 0).
    + remember (closed s) as cl eqn:Hcl in H. destruct cl; [eauto|discriminate].
    + eauto.
  - destruct (Nat.eqb (length (avail s)) 0).
    + remember (closed s) as cl eqn:Hcl in H. destruct cl; [|discriminate]. inversion H; subst. auto.
    + destruct (IH _ _ _ _ H). auto.
Qed.

Lemma resume_done_pos_le {A} (p: proc A) : forall s r s',
  resume p s = inr (r, s') -> pos s <= length (arrived s) -> pos s' <= length (arrived s').
Proof.
  induction p as [a0|e|n k IH|k IH|d k IH|k IH|k IH|k IH|k IH]; intros s r s' H Hle; cbn [resume] in H.
  - inversion H; subst. exact Hle.
  - inversion H; subst. exact Hle.
  - destruct (attempt s n) as [[c| |] sm] eqn:E; try discriminate.
    + apply (IH c sm r s' H). eapply attempt_pos_le; eauto.
    + inversion H; subst. eapply attempt_pos_le; eauto.
  - eauto.
  - apply (IH _ _ _ H). cbn. lia.
  - apply (IH _ _ _ H). cbn. exact Hle.
  - eauto.
  - destruct (Nat.eqb (length (avail s)) 0).
    + destruct (closed s); [eauto|discriminate].
    + eauto.
  - destruct (Nat.eqb (length (avail s)) 0).
    + destruct (closed s); [|discriminate]. inversion H; subst. exact Hle.
    + apply (IH _ _ _ _ H). cbn. lia.
Qed.

(* ---------- simulation: what a clean decoder achieves on partial data it achieves on any extension ---------- *)
Lemma extends_setpos s1 s2 q1 q2 : extends s1 s2 -> q1 = q2 -> extends (setpos s1 q1) (setpos s2 q2).
Proof. intros [Hp [Hmk Hm]] Hq. split; [exact Hq|]. split; [exact Hmk|exact Hm]. Qed.

Lemma extends_setmark s1 s2 m1 m2 : extends s1 s2 -> m1 = m2 -> extends (setmark s1 m1) (setmark s2 m2).
Proof. intros [Hp [Hmk Hm]] Hq. split; [exact Hp|]. split; [exact Hq|exact Hm]. Qed.

Lemma resume_done_ext {A} (p: proc A) : clean p -> forall s1 s2 a s1',
  extends s1 s2 -> resume p s1 = inr (Ok a, s1') ->
  exists s2', resume p s2 = inr (Ok a, s2') /\ extends s1' s2'.
Proof.
  induction 1 as [a0|e|n k Hk IH|k Hk IH|d k Hk IH|k Hk IH|k Hk IH]; intros s1 s2 a s1' Hx H;
    cbn [resume] in *.
  - inversion H; subst. eauto.
  - discriminate.
  - destruct (attempt s1 n) as [[c| |] s1m] eqn:E; try discriminate.
    destruct (attempt_got_ext _ _ _ _ _ Hx E) as [s2m [E2 [Hx2 _]]]. rewrite E2. eauto.
  - destruct Hx as [Hp Hm]. rewrite <- Hp. apply (IH (pos s1) s1 s2); auto. split; auto.
  - apply (IH (setpos s1 (pos s1 - d)) (setpos s2 (pos s2 - d))); auto.
    apply extends_setpos; [exact Hx|]. destruct Hx as [Hp _]. congruence.
  - apply (IH (setmark s1 (pos s1)) (setmark s2 (pos s2))); auto.
    apply extends_setmark; [exact Hx|]. destruct Hx as [Hp _]. exact Hp.
  - destruct Hx as [Hp [Hmk Hm]]. rewrite <- Hmk. apply (IH (mark s1) s1 s2); auto.
    split; auto.
Qed.

Lemma sync_setpos s q s' : sync (setpos s q) s' = sync s s'.
Proof. reflexivity. Qed.
Lemma sync_setmark s q s' : sync (setmark s q) s' = sync s s'.
Proof. reflexivity. Qed.
Lemma sync_same s s' : pos s = pos s' -> mark s = mark s' -> sync s s' = s.
Proof. intros Hp Hm. unfold sync. rewrite <- Hp, <- Hm. destruct s; reflexivity. Qed.

(* suspension only records progress: resuming the suspended continuation on the extended stream at
   the recorded position and mark is the same as running the original decoder on the extended stream *)
Lemma resume_susp_ext {A} (p: proc A) : clean p -> forall s1 s2 p' s1',
  extends s1 s2 -> resume p s1 = inl (p', s1') ->
  extends s1' (sync s2 s1') /\ resume p s2 = resume p' (sync s2 s1') /\ clean p'.
Proof.
  induction 1 as [a0|e|n k Hk IH|k Hk IH|d k Hk IH|k Hk IH|k Hk IH]; intros s1 s2 p' s1' Hx H;
    cbn [resume] in *.
  - discriminate.
  - discriminate.
  - destruct (attempt s1 n) as [[c| |] s1m] eqn:E; try discriminate.
    + destruct (attempt_got_ext _ _ _ _ _ Hx E) as [s2m [E2 [Hx2 Hs2m]]]. rewrite E2.
      destruct (IH c _ _ _ _ Hx2 H) as [Hy [Hr Hcl]]. subst s2m. rewrite sync_setpos in *. auto.
    + apply attempt_under_same in E. subst s1m. inversion H; subst; clear H.
      destruct Hx as [Hp [Hmk Hm]].
      rewrite (sync_same s2 s1') by congruence.
      split; [split; auto|]. split; [reflexivity|]. constructor. exact Hk.
  - destruct Hx as [Hp Hm]. rewrite <- Hp. apply (IH (pos s1) s1 s2); auto. split; auto.
  - destruct (IH (setpos s1 (pos s1 - d)) (setpos s2 (pos s2 - d)) p' s1') as [Hy Hr].
    { apply extends_setpos; [exact Hx|]. destruct Hx as [Hp _]. congruence. }
    { exact H. }
    rewrite sync_setpos in *. auto.
  - destruct (IH (setmark s1 (pos s1)) (setmark s2 (pos s2)) p' s1') as [Hy Hr].
    { apply extends_setmark; [exact Hx|]. destruct Hx as [Hp _]. exact Hp. }
    { exact H. }
    rewrite sync_setmark in *. auto.
  - destruct Hx as [Hp [Hmk Hm]]. rewrite <- Hmk. apply (IH (mark s1) s1 s2); auto.
    split; auto.
Qed.

(* an error raised on partial, still-open data is raised on every extension too *)
Lemma resume_err_ext {A} (p: proc A) : clean p -> forall s1 s2 e s1',
  extends s1 s2 -> closed s1 = false -> resume p s1 = inr (Err e, s1') ->
  exists s2', resume p s2 = inr (Err e, s2') /\ pos s2' = pos s1'.
Proof.
  induction 1 as [a0|e0|n k Hk IH|k Hk IH|d k Hk IH|k Hk IH|k Hk IH]; intros s1 s2 e s1' Hx Hc H;
    cbn [resume] in *.
  - discriminate.
  - inversion H; subst. destruct Hx as [Hp _]. eauto.
  - destruct (attempt s1 n) as [[c| |] s1m] eqn:E; try discriminate.
    + destruct (attempt_got_ext _ _ _ _ _ Hx E) as [s2m [E2 [Hx2 _]]]. rewrite E2.
      destruct (attempt_frame _ _ _ _ E) as [_ [Hcl _]]. eapply IH; eauto; congruence.
    + apply attempt_eos_closed in E. congruence.
  - destruct Hx as [Hp Hm]. rewrite <- Hp. apply (IH (pos s1) s1 s2 e s1'); auto. split; auto.
  - apply (IH (setpos s1 (pos s1 - d)) (setpos s2 (pos s2 - d)) e s1'); auto.
    apply extends_setpos; [exact Hx|]. destruct Hx as [Hp _]. congruence.
  - apply (IH (setmark s1 (pos s1)) (setmark s2 (pos s2)) e s1'); auto.
    apply extends_setmark; [exact Hx|]. destruct Hx as [Hp _]. exact Hp.
  - destruct Hx as [Hp [Hmk Hm]]. rewrite <- Hmk. apply (IH (mark s1) s1 s2 e s1'); auto.
    split; auto.
Qed.

(* a clean decoder suspends only on an exact read whose octets have not all arrived *)
Theorem underrun_only_when_missing {A} (p: proc A) : clean p -> forall s q s',
  resume p s = inl (q, s') -> exists n k, q = ReadN n k /\ length (avail s') < n.
Proof.
  induction 1 as [a0|e|n k Hk IH|k Hk IH|d k Hk IH|k Hk IH|k Hk IH]; intros s q s' H;
    cbn [resume] in H; try discriminate; eauto.
  destruct (attempt s n) as [[c| |] sm] eqn:E; try discriminate.
  - eauto.
  - inversion H; subst; clear H. exists n, k. split; [reflexivity|].
    pose proof (attempt_under_same _ _ _ E) as Hs. subst s'.
    eapply attempt_under_missing; eauto.
Qed.

(* ---------- C07: exact consumption, whatever follows ---------- *)
Lemma exact_consumption_gen {A} (p: proc A) e t q cl cl2 m a s' :
  clean p -> resume p (mkStream e q cl m) = inr (Ok a, s') ->
  exists s'', resume p (mkStream (e ++ t) q cl2 m) = inr (Ok a, s'')
    /\ pos s'' = pos s' /\ mark s'' = mark s'
    /\ (q <= length e -> avail s'' = avail s' ++ t).
Proof.
  intros Hc H.
  destruct (resume_done_ext p Hc (mkStream e q cl m) (mkStream (e ++ t) q cl2 m) a s') as [s'' [Hr Hx]].
  - split; [reflexivity|]. split; [reflexivity|]. exists t. reflexivity.
  - exact H.
  - exists s''. split; [exact Hr|]. destruct Hx as [Hp [Hmk _]].
    split; [congruence|]. split; [congruence|]. intros Hq.
    destruct (resume_done_frame _ _ _ _ H) as [Ha _]. cbn in Ha.
    destruct (resume_done_frame _ _ _ _ Hr) as [Ha2 _]. cbn in Ha2.
    pose proof (resume_done_pos_le _ _ _ _ H Hq) as Hle. rewrite Ha in Hle.
    unfold avail. rewrite Ha, Ha2, <- Hp. apply skipn_app_le. exact Hle.
Qed.

Theorem exact_consumption {A} (p: proc A) e t a s' :
  clean p -> resume p (mkStream e 0 true 0) = inr (Ok a, s') ->
  exists s'', resume p (mkStream (e ++ t) 0 true 0) = inr (Ok a, s'') /\ pos s'' = pos s'.
Proof.
  intros Hc H. destruct (exact_consumption_gen p e t 0 true true 0 a s' Hc H) as [s'' [Hr [Hp _]]].
  eauto.
Qed.

(* the unread remainder is exactly what was appended (after what the decoder itself left unread) *)
Theorem exact_consumption_tail {A} (p: proc A) e t a s' :
  clean p -> resume p (mkStream e 0 true 0) = inr (Ok a, s') ->
  exists s'', resume p (mkStream (e ++ t) 0 true 0) = inr (Ok a, s'') /\ pos s'' = pos s'
    /\ avail s'' = avail s' ++ t.
Proof.
  intros Hc H. destruct (exact_consumption_gen p e t 0 true true 0 a s' Hc H) as [s'' [Hr [Hp [_ Hav]]]].
  exists s''. split; [exact Hr|]. split; [exact Hp|]. apply Hav. apply Nat.le_0_l.
Qed.

(* ---------- C05: schedule independence ---------- *)
Fixpoint arrivals (sched: list envev) : bytes :=
  match sched with
  | [] => []
  | Arrive b :: r => b ++ arrivals r
  | _ :: r => arrivals r
  end.

Fixpoint has_close (sched: list envev) : bool :=
  match sched with
  | [] => false
  | Close :: _ => true
  | _ :: r => has_close r
  end.

(* everything the schedule will deliver has arrived and the stream is closed *)
Definition complete (s: stream) (sched: list envev) : stream :=
  mkStream (arrived s ++ arrivals sched) (pos s) true (mark s).

(* well-formed schedules: nothing arrives after Close *)
Fixpoint wf_sched (cl: bool) (sched: list envev) : Prop :=
  match sched with
  | [] => True
  | Arrive b :: r => cl = false /\ wf_sched cl r
  | Close :: r => wf_sched true r
  | Poll :: r => wf_sched cl r
  end.

Lemma complete_step e r s : complete (apply_ev e s) r = complete s (e :: r).
Proof. unfold complete. destruct e; cbn; auto. rewrite <- app_assoc. reflexivity. Qed.

Lemma extends_complete s sched : extends s (complete s sched).
Proof. split; [reflexivity|]. split; [reflexivity|]. cbn. eauto. Qed.

Lemma sync_complete s sched s' : arrived s' = arrived s -> sync (complete s sched) s' = complete s' sched.
Proof. intros Ha. unfold sync, complete. cbn. rewrite Ha. reflexivity. Qed.

Lemma wf_closed_no_arrivals sched : wf_sched true sched -> arrivals sched = [].
Proof. induction sched as [|[b| |] r IH]; cbn; auto. intros [H _]; discriminate. Qed.

Lemma complete_closed s sched : closed s = true -> wf_sched true sched -> complete s sched = s.
Proof.
  intros Hc Hw. unfold complete. rewrite (wf_closed_no_arrivals _ Hw), app_nil_r.
  destruct s; cbn in *; subst; reflexivity.
Qed.

(* a run that finishes early finishes the same way as the complete run *)
Lemma resume_done_complete {A} (p: proc A) s sched r sF r' s' :
  clean p -> wf_sched (closed s) sched ->
  resume p (complete s sched) = inr (r, sF) ->
  resume p s = inr (r', s') -> r' = r /\ pos s' = pos sF.
Proof.
  intros Hc Hw H E.
  destruct (closed s) eqn:Hcl.
  { rewrite (complete_closed s _ Hcl Hw) in H. rewrite E in H. inversion H; subst. auto. }
  destruct r' as [a'|er].
  { destruct (resume_done_ext p Hc s _ a' s' (extends_complete s sched) E) as [s2 [E2 [Hp _]]].
    rewrite E2 in H. inversion H; subst. auto. }
  { destruct (resume_err_ext p Hc s _ er s' (extends_complete s sched) Hcl E) as [s2 [E2 Hp]].
    rewrite E2 in H. inversion H; subst. auto. }
Qed.

(* a suspended run, resumed after the next event, still heads for the same complete run *)
Lemma resume_susp_complete {A} (p: proc A) s e rest p' s' :
  clean p -> wf_sched (closed s) (e :: rest) ->
  resume p s = inl (p', s') ->
  clean p' /\ wf_sched (closed (apply_ev e s')) rest
  /\ resume p (complete s (e :: rest)) = resume p' (complete (apply_ev e s') rest).
Proof.
  intros Hc Hw E.
  destruct (resume_susp_ext p Hc s (complete s (e :: rest)) p' s' (extends_complete _ _) E) as [_ [Hr Hc']].
  destruct (resume_susp_frame _ _ _ _ E) as [Ha Hcl].
  split; [exact Hc'|]. split.
  - rewrite <- Hcl in Hw. destruct e; cbn in *; tauto.
  - rewrite Hr, (sync_complete s (e :: rest) s' Ha), <- complete_step. reflexivity.
Qed.

Theorem sched_indep {A} : forall sched (p: proc A) s r sF,
  clean p -> wf_sched (closed s) sched ->
  resume p (complete s sched) = inr (r, sF) ->
  (exists j, drive sched p s = repeat OUnder j ++ [ODone r (pos sF)])
  \/ drive sched p s = repeat OUnder (S (length sched)).
Proof.
  induction sched as [|e rest IH]; intros p s r sF Hc Hw H; cbn [drive].
  - destruct (resume p s) as [[p' s']|[r' s']] eqn:E; [right; reflexivity|].
    left. exists 0. destruct (resume_done_complete p s [] r sF r' s' Hc Hw H E) as [-> ->]. reflexivity.
  - destruct (resume p s) as [[p' s']|[r' s']] eqn:E.
    + destruct (resume_susp_complete p s e rest p' s' Hc Hw E) as [Hc' [Hw' Hr]].
      rewrite Hr in H.
      destruct (IH p' (apply_ev e s') r sF Hc' Hw' H) as [[j Hj]|Hj].
      * left. exists (S j). cbn [repeat app]. rewrite Hj. reflexivity.
      * right. cbn [repeat length] in *. rewrite Hj. reflexivity.
    + left. exists 0.
      destruct (resume_done_complete p s (e :: rest) r sF r' s' Hc Hw H E) as [-> ->]. reflexivity.
Qed.

(* once the stream is closed (initially, or by the schedule) the driver reaches the final result *)
Theorem sched_indep_closed {A} : forall sched (p: proc A) s r sF,
  clean p -> wf_sched (closed s) sched ->
  closed s || has_close sched = true ->
  resume p (complete s sched) = inr (r, sF) ->
  exists j, drive sched p s = repeat OUnder j ++ [ODone r (pos sF)].
Proof.
  induction sched as [|e rest IH]; intros p s r sF Hc Hw Hcl H; cbn [drive].
  - cbn [has_close] in Hcl. rewrite orb_false_r in Hcl.
    rewrite (complete_closed s [] Hcl Hw) in H. rewrite H. exists 0. reflexivity.
  - destruct (resume p s) as [[p' s']|[r' s']] eqn:E.
    + destruct (resume_susp_complete p s e rest p' s' Hc Hw E) as [Hc' [Hw' Hr]].
      rewrite Hr in H.
      destruct (resume_susp_frame _ _ _ _ E) as [_ Hcs].
      assert (Hcl': closed (apply_ev e s') || has_close rest = true).
      { destruct e; cbn in *; try rewrite Hcs; auto. }
      destruct (IH p' (apply_ev e s') r sF Hc' Hw' Hcl' H) as [j Hj].
      exists (S j). cbn [repeat app]. rewrite Hj. reflexivity.
    + exists 0.
      destruct (resume_done_complete p s (e :: rest) r sF r' s' Hc Hw H E) as [-> ->]. reflexivity.
Qed.

Theorem sched_indep_close {A} (sched: list envev) (p: proc A) s r sF :
  clean p -> wf_sched (closed s) sched -> has_close sched = true ->
  resume p (complete s sched) = inr (r, sF) ->
  exists j, drive sched p s = repeat OUnder j ++ [ODone r (pos sF)].
Proof.
  intros Hc Hw Hh H. apply sched_indep_closed; auto. rewrite Hh. apply orb_true_r.
Qed.

(* ---------- C06: every proper prefix is reported as insufficient data ---------- *)
Definition insufficient {A} (x: (proc A * stream) + (res A * stream)) : Prop :=
  match x with
  | inl _ => True                       (* suspended on an underrun *)
  | inr (Err EEndOfStream, _) => True   (* end-of-stream error *)
  | _ => False
  end.

(* sharper: a suspension exactly when the stream is open, the end-of-stream error exactly when closed *)
Definition insufficient_cl {A} (cl: bool) (x: (proc A * stream) + (res A * stream)) : Prop :=
  match x with
  | inl _ => cl = false
  | inr (Err EEndOfStream, _) => cl = true
  | _ => False
  end.

Lemma avail_firstn e k q cl cl' m : q <= k -> k <= length e ->
  avail (mkStream (firstn k e) q cl m) = firstn (k - q) (avail (mkStream e q cl' m)).
Proof.
  intros Hq Hk. unfold avail. cbn [arrived pos].
  rewrite firstn_skipn_comm. replace (q + (k - q)) with k by lia. reflexivity.
Qed.

Lemma prefix_gen {A} (p: proc A) : clean p -> forall e k q m cl1 cl2 a s',
  k < length e -> q <= k ->
  resume p (mkStream e q cl1 m) = inr (Ok a, s') -> k < pos s' ->
  insufficient_cl cl2 (resume p (mkStream (firstn k e) q cl2 m)).
Proof.
  induction 1 as [a0|e0|n kk Hk IH|kk Hk IH|d kk Hk IH|kk Hk IH|kk Hk IH];
    intros e k q m cl1 cl2 a s' Hlt Hq H Hpos; cbn [resume] in *.
  - inversion H; subst. cbn in Hpos. lia.
  - discriminate.
  - unfold attempt in *. rewrite !avail_length in *. cbn [arrived pos closed] in *.
    rewrite firstn_length, Nat.min_l by lia.
    destruct (Nat.eqb n 0) eqn:En.
    + eapply IH; eauto.
    + apply Nat.eqb_neq in En.
      destruct (Nat.ltb (length e - q) n) eqn:E1; [destruct cl1; discriminate|].
      apply Nat.ltb_ge in E1.
      destruct (Nat.ltb (k - q) n) eqn:E3; [destruct cl2; reflexivity|].
      apply Nat.ltb_ge in E3.
      rewrite (avail_firstn e k q cl2 cl1 m) by lia. rewrite firstn_firstn, Nat.min_l by lia.
      cbn [setpos arrived pos closed mark] in *.
      eapply IH; eauto; lia.
  - cbn [pos] in *. eapply IH; eauto.
  - cbn [setpos arrived pos closed mark] in *. eapply IH; eauto; lia.
  - cbn [setmark arrived pos closed mark] in *. eapply IH; eauto.
  - cbn [mark] in *. eapply IH; eauto.
Qed.

Lemma insufficient_cl_weaken {A} cl (x: (proc A * stream) + (res A * stream)) :
  insufficient_cl cl x -> insufficient x.
Proof.
  destruct x as [[q s]|[[a|e] s]]; cbn; auto. destruct e; auto.
Qed.

Lemma insufficient_cl_closed {A} (x: (proc A * stream) + (res A * stream)) :
  insufficient_cl true x -> exists s, x = inr (Err EEndOfStream, s).
Proof.
  destruct x as [[q s]|[[a|e] s]]; cbn; [discriminate|tauto|]. destruct e; try tauto. eauto.
Qed.

Lemma insufficient_cl_open {A} (x: (proc A * stream) + (res A * stream)) :
  insufficient_cl false x -> exists q s, x = inl (q, s).
Proof.
  destruct x as [[q s]|[[a|e] s]]; cbn; [eauto|tauto|]. destruct e; try tauto. discriminate.
Qed.

Theorem prefix_insufficient {A} (p: proc A) : clean p -> forall e k q a s',
  k < length e -> q <= k ->
  resume p (mkStream e q true 0) = inr (Ok a, s') -> k < pos s' ->
  insufficient (resume p (mkStream (firstn k e) q true 0)).
Proof.
  intros Hc e k q a s' Hlt Hq H Hpos. apply (insufficient_cl_weaken true).
  eapply prefix_gen; eauto.
Qed.

(* with the stream still open the truncated run suspends: never a value, never an error *)
Theorem prefix_insufficient_open {A} (p: proc A) : clean p -> forall e k q a s',
  k < length e -> q <= k ->
  resume p (mkStream e q true 0) = inr (Ok a, s') -> k < pos s' ->
  exists p' s1, resume p (mkStream (firstn k e) q false 0) = inl (p', s1).
Proof.
  intros Hc e k q a s' Hlt Hq H Hpos. apply insufficient_cl_open.
  eapply prefix_gen; eauto.
Qed.

(* the streaming decoder on a stream that ended at the cut raises the end-of-stream error *)
Theorem prefix_closed_eos {A} (p: proc A) : clean p -> forall e k q a s',
  k < length e -> q <= k ->
  resume p (mkStream e q true 0) = inr (Ok a, s') -> k < pos s' ->
  exists s1, resume p (mkStream (firstn k e) q true 0) = inr (Err EEndOfStream, s1).
Proof.
  intros Hc e k q a s' Hlt Hq H Hpos. apply insufficient_cl_closed.
  eapply prefix_gen; eauto.
Qed.

(* a clean decoder never suspends on a closed stream *)
Theorem closed_no_suspend {A} (p: proc A) : clean p -> forall s,
  closed s = true -> exists r s', resume p s = inr (r, s').
Proof.
  induction 1 as [a0|e|n k Hk IH|k Hk IH|d k Hk IH|k Hk IH|k Hk IH]; intros s Hcl; cbn [resume];
    eauto.
  destruct (attempt s n) as [[c| |] sm] eqn:E.
  - apply IH. destruct (attempt_frame _ _ _ _ E) as [_ [Hc _]]. congruence.
  - apply attempt_under_open in E. congruence.
  - eauto.
Qed.

(* ---------- guard: arbitrary trees, for runs that never touch an unclean node ---------- *)
Fixpoint guard {A} (u: err) (p: proc A) : proc A :=
  match p with
  | Ret a => Ret a
  | Raise e => Raise e
  | ReadN n k => ReadN n (fun b => guard u (k b))
  | Tell k => Tell (fun q => guard u (k q))
  | SeekBack d k => SeekBack d (guard u k)
  | Mark k => Mark (guard u k)
  | GetMark k => GetMark (fun q => guard u (k q))
  | AtEOS _ => Raise u
  | ReadAll _ => Raise u
  end.

Lemma guard_clean {A} (u: err) (p: proc A) : clean (guard u p).
Proof.
  induction p as [a0|e|n k IH|k IH|d k IH|k IH|k IH|k IH|k IH]; cbn [guard]; constructor; auto.
Qed.

Lemma guard_done {A} (u: err) (p: proc A) : forall s r s',
  resume (guard u p) s = inr (r, s') -> r <> Err u -> resume p s = inr (r, s').
Proof.
  induction p as [a0|e|n k IH|k IH|d k IH|k IH|k IH|k IH|k IH]; intros s r s' H Hne;
    cbn [guard resume] in *; auto.
  - destruct (attempt s n) as [[c| |] sm]; try discriminate; auto.
  - inversion H; subst. congruence.
  - inversion H; subst. congruence.
Qed.

Lemma guard_susp {A} (u: err) (p: proc A) : forall s q s',
  resume (guard u p) s = inl (q, s') -> exists p', q = guard u p' /\ resume p s = inl (p', s').
Proof.
  induction p as [a0|e|n k IH|k IH|d k IH|k IH|k IH|k IH|k IH]; intros s q s' H;
    cbn [guard resume] in *; try discriminate; auto.
  destruct (attempt s n) as [[c| |] sm]; try discriminate; auto.
  inversion H; subst; clear H. exists (ReadN n k). split; reflexivity.
Qed.

(* the driver cannot tell p from its guarded version when the complete guarded run never hits a guard *)
Theorem guard_drive {A} (u: err) : forall sched (p: proc A) s r sF,
  wf_sched (closed s) sched ->
  resume (guard u p) (complete s sched) = inr (r, sF) -> r <> Err u ->
  drive sched (guard u p) s = drive sched p s.
Proof.
  induction sched as [|e rest IH]; intros p s r sF Hw H Hne; cbn [drive].
  - destruct (resume (guard u p) s) as [[q s']|[r' s']] eqn:E.
    + destruct (guard_susp u p _ _ _ E) as [p' [-> E']]. rewrite E'. reflexivity.
    + destruct (resume_done_complete _ s [] r sF r' s' (guard_clean u p) Hw H E) as [-> _].
      rewrite (guard_done u p _ _ _ E Hne). reflexivity.
  - destruct (resume (guard u p) s) as [[q s']|[r' s']] eqn:E.
    + destruct (resume_susp_complete _ s e rest q s' (guard_clean u p) Hw E) as [_ [Hw' Hr]].
      destruct (guard_susp u p _ _ _ E) as [p' [-> E']]. rewrite E'.
      rewrite Hr in H. rewrite (IH p' (apply_ev e s') r sF Hw' H Hne). reflexivity.
    + destruct (resume_done_complete _ s (e :: rest) r sF r' s' (guard_clean u p) Hw H E) as [-> _].
      rewrite (guard_done u p _ _ _ E Hne). reflexivity.
Qed.

(* transferred corollaries for ARBITRARY p *)
Theorem sched_indep_run {A} (u: err) (sched: list envev) (p: proc A) s r sF :
  wf_sched (closed s) sched ->
  resume (guard u p) (complete s sched) = inr (r, sF) -> r <> Err u ->
  resume p (complete s sched) = inr (r, sF)
  /\ ((exists j, drive sched p s = repeat OUnder j ++ [ODone r (pos sF)])
      \/ drive sched p s = repeat OUnder (S (length sched))).
Proof.
  intros Hw H Hne. split; [apply (guard_done u); assumption|].
  rewrite <- (guard_drive u sched p s r sF Hw H Hne).
  apply sched_indep; auto. apply guard_clean.
Qed.

Theorem sched_indep_close_run {A} (u: err) (sched: list envev) (p: proc A) s r sF :
  wf_sched (closed s) sched -> closed s || has_close sched = true ->
  resume (guard u p) (complete s sched) = inr (r, sF) -> r <> Err u ->
  exists j, drive sched p s = repeat OUnder j ++ [ODone r (pos sF)].
Proof.
  intros Hw Hcl H Hne.
  rewrite <- (guard_drive u sched p s r sF Hw H Hne).
  apply sched_indep_closed; auto. apply guard_clean.
Qed.

Theorem underrun_only_when_missing_run {A} (u: err) (p: proc A) s q s' :
  resume (guard u p) s = inl (q, s') ->
  exists n k, resume p s = inl (ReadN n k, s') /\ length (avail s') < n.
Proof.
  intros H. destruct (guard_susp u p _ _ _ H) as [p' [Hq E]].
  destruct (underrun_only_when_missing _ (guard_clean u p) _ _ _ H) as [n [k [Hk Hlt]]].
  subst q. destruct p' as [a0|e0|n' k'|k'|d' k'|k'|k'|k'|k']; cbn [guard] in Hk; try discriminate.
  inversion Hk; subst. exists n, k'. auto.
Qed.

Theorem exact_consumption_run {A} (u: err) (p: proc A) e t a s' :
  resume (guard u p) (mkStream e 0 true 0) = inr (Ok a, s') ->
  resume p (mkStream e 0 true 0) = inr (Ok a, s')
  /\ exists s'', resume p (mkStream (e ++ t) 0 true 0) = inr (Ok a, s'') /\ pos s'' = pos s'
       /\ avail s'' = avail s' ++ t.
Proof.
  intros H. assert (Hne: Ok a <> Err u) by discriminate.
  split; [apply (guard_done u); assumption|].
  destruct (exact_consumption_tail _ e t a s' (guard_clean u p) H) as [s'' [Hr [Hp Hav]]].
  exists s''. split; [apply (guard_done u); assumption|]. auto.
Qed.

Theorem prefix_insufficient_run {A} (u: err) (p: proc A) e k q a s' :
  u <> EEndOfStream ->
  k < length e -> q <= k ->
  resume (guard u p) (mkStream e q true 0) = inr (Ok a, s') -> k < pos s' ->
  insufficient (resume p (mkStream (firstn k e) q true 0)).
Proof.
  intros Hu Hlt Hq H Hpos.
  pose proof (prefix_insufficient _ (guard_clean u p) e k q a s' Hlt Hq H Hpos) as Hi.
  destruct (resume (guard u p) (mkStream (firstn k e) q true 0)) as [[p' s1]|[r s1]] eqn:E.
  - destruct (guard_susp u p _ _ _ E) as [p'' [_ E']]. rewrite E'. exact I.
  - destruct r as [a'|er]; [contradiction|].
    assert (er = EEndOfStream) as -> by (destruct er; cbn in Hi; tauto).
    rewrite (guard_done u p _ _ _ E); [exact I|]. congruence.
Qed.

Theorem prefix_insufficient_open_run {A} (u: err) (p: proc A) e k q a s' :
  k < length e -> q <= k ->
  resume (guard u p) (mkStream e q true 0) = inr (Ok a, s') -> k < pos s' ->
  exists p' s1, resume p (mkStream (firstn k e) q false 0) = inl (p', s1).
Proof.
  intros Hlt Hq H Hpos.
  destruct (prefix_insufficient_open _ (guard_clean u p) e k q a s' Hlt Hq H Hpos) as [q' [s1 E]].
  destruct (guard_susp u p _ _ _ E) as [p'' [_ E']]. eauto.
Qed.

Theorem prefix_closed_eos_run {A} (u: err) (p: proc A) e k q a s' :
  u <> EEndOfStream ->
  k < length e -> q <= k ->
  resume (guard u p) (mkStream e q true 0) = inr (Ok a, s') -> k < pos s' ->
  exists s1, resume p (mkStream (firstn k e) q true 0) = inr (Err EEndOfStream, s1).
Proof.
  intros Hu Hlt Hq H Hpos.
  destruct (prefix_closed_eos _ (guard_clean u p) e k q a s' Hlt Hq H Hpos) as [s1 E].
  exists s1. apply (guard_done u); [exact E|]. congruence.
Qed.

Print Assumptions closed_no_suspend.
Print Assumptions prefix_closed_eos.
Print Assumptions prefix_closed_eos_run.
Print Assumptions underrun_only_when_missing.
Print Assumptions exact_consumption.
Print Assumptions exact_consumption_tail.
Print Assumptions sched_indep.
Print Assumptions sched_indep_closed.
Print Assumptions sched_indep_close.
Print Assumptions prefix_insufficient.
Print Assumptions prefix_insufficient_open.
Print Assumptions guard_clean.
Print Assumptions guard_done.
Print Assumptions guard_susp.
Print Assumptions guard_drive.
Print Assumptions sched_indep_run.
Print Assumptions sched_indep_close_run.
Print Assumptions underrun_only_when_missing_run.
Print Assumptions exact_consumption_run.
Print Assumptions prefix_insufficient_run.
Print Assumptions prefix_insufficient_open_run.

(* What the strict table entries of the DER/CER decoders mean in the decoder model. *)
From Coq Require Import Lia.
From PV Require Import Base.Bytes Model.Types Model.TableTypes Model.Proc Model.Enc Model.Dec Gen.Tables.
Local Open Scope N_scope.

Lemma attempt_one s : length (avail s) <> 0%nat ->
  attempt s 1 = (Got [hd 0 (avail s)], setpos s (pos s + 1)).
Proof.
  intros H. unfold attempt. cbn [Nat.eqb].
  destruct (Nat.ltb_spec (length (avail s)) 1) as [Hl|Hl]; [lia|].
  destruct (avail s) as [|x r]; [cbn in H; congruence|]. reflexivity.
Qed.

Lemma indefinite_refused : forall c s,
  support_indef c = false -> length (avail s) <> 0%nat -> hd 0 (avail s) = 128 ->
  exists s', resume (read_length c) s = inr (Err EMalformed, s').
Proof.
  intros c s Hsup Hne Hhd. unfold read_length, read1, readN.
  cbn [pbind resume]. rewrite (attempt_one s Hne). cbn [resume pbind hd].
  rewrite Hhd. cbn [N.ltb N.compare Pos.compare Pos.compare_cont N.eqb Pos.eqb]. rewrite Hsup.
  cbn [resume]. eexists. reflexivity.
Qed.

Lemma constructed_octets_refused : forall rec fuel proto fl sp ts len sfun,
  df_constructed fl = false -> tag0_simple ts = false ->
  dec_octets rec fuel proto fl sp ts len sfun = Raise EMalformed.
Proof. intros rec fuel proto fl sp ts len sfun Hc Ht. unfold dec_octets. rewrite Ht, Hc. reflexivity. Qed.

Lemma constructed_bits_refused : forall rec fuel fl sp ts len,
  df_constructed fl = false -> tag0_simple ts = false -> len <> 0 ->
  dec_bits rec fuel fl sp ts len false = Raise EMalformed.
Proof.
  intros rec fuel fl sp ts len Hc Ht Hl. unfold dec_bits.
  destruct (N.eqb_spec len 0); [congruence|]. rewrite Ht, Hc. reflexivity.
Qed.

Lemma boolean_strict : forall fuel sp ts (o: N) s s' d,
  avail s = [o] ++ avail s' ->
  resume (dec_bool_cer fuel sp ts 1) s = inr (Ok d, s') -> o = 0 \/ o = 255.
Proof.
  intros fuel sp ts o s s' d Hav H. unfold dec_bool_cer, read_len, readN in H.
  replace (N.ltb index_max 1) with false in H by (vm_compute; reflexivity).
  replace (N.to_nat (N.min 1 (N.of_nat (S fuel)))) with 1%nat in H by lia.
  cbn [N.eqb Pos.eqb negb pbind resume] in H.
  assert (Hne: length (avail s) <> 0%nat) by (rewrite Hav; cbn; lia).
  rewrite (attempt_one s Hne) in H. rewrite Hav in H. cbn [hd app pbind resume] in H.
  destruct o as [|p]; [left; reflexivity|].
  right.
  destruct (N.eq_dec (N.pos p) 255) as [E|E]; [exact E|].
  exfalso.
  destruct p as [p|p|]; try (cbn in H; discriminate).
  repeat (destruct p as [p|p|]; try (cbn in H; discriminate); try congruence).
Qed.

(* C08, part 3: malformed input fails cleanly.

   Putting Proofs/NeverCrashes.v (no built-in exception: every [Raise (ECrash _)] of the decoder model is
   unreachable) and Proofs/NeverStarves.v (the fuel is always sufficient) together: for EVERY byte string,
   every codec, with or without a guiding type (no condition on it), one-shot decoding ends in a value
   object plus a strictly shorter remainder, or in an error of the PyAsn1Error family - or the model
   declines to predict ([EUnmodelled]: decimal REAL, character strings whose text codec is not modelled,
   components under a member-less SEQUENCE), which the harness counts separately and never compares. *)
From Coq Require Import Lia.
From PV Require Import Base.Bytes Model.Tag Model.TableTypes Model.Types Model.Proc Model.Enc Model.Dec Gen.Tables
     Proofs.NeverCrashes Proofs.NeverStarves.
Local Open Scope nat_scope.

Lemma clean_error e : good_err e -> e <> EOutOfFuel -> is_library e = true \/ e = EUnmodelled.
Proof. destruct e; cbn [good_err is_library]; intros H1 H2; try contradiction; try congruence; auto. Qed.

(* with the caller's fuel, from the explicit bound on *)
Theorem decode_with_fails_cleanly c fuel sp b : 2 * length b + 2 * odepth sp <= fuel ->
  match decode_with c fuel sp b with
  | Ok (d, tl) => is_value d /\ length tl < length b
  | Err e => is_library e = true \/ e = EUnmodelled
  end.
Proof.
  intros Hf. pose proof (decode_with_never_crashes c fuel sp b) as H1.
  pose proof (decode_with_never_starves c fuel sp b Hf) as H2.
  pose proof (decode_with_progress c fuel sp b) as H3.
  destruct (decode_with c fuel sp b) as [[d tl]|e].
  - split; [exact H1|exact (H3 d tl Hf eq_refl)].
  - apply clean_error; [exact H1|congruence].
Qed.

(* (3) Decoder.__call__ as modelled, with its own fuel *)
Theorem FAILS_CLEANLY : forall c sp b,
  match decode c sp b with
  | Ok (d, tl) => is_value d /\ length tl < length b
  | Err e => is_library e = true \/ e = EUnmodelled
  end.
Proof. intros c sp b. exact (decode_with_fails_cleanly c (dec_fuel sp b) sp b (dec_fuel_enough sp b)). Qed.

(* in the form asked for: whenever the model predicts at all, the error is a library error *)
Corollary only_library_errors : forall c sp b, decode c sp b <> Err EUnmodelled ->
  match decode c sp b with Ok _ => True | Err e => is_library e = true end.
Proof.
  intros c sp b Hn. pose proof (FAILS_CLEANLY c sp b) as H.
  destruct (decode c sp b) as [x|e]; [exact I|]. destruct H as [H|H]; [exact H|congruence].
Qed.

(* never: a built-in exception, the cleanliness marker, lack of fuel *)
Corollary never_crash_unclean_or_starved : forall c sp b k,
  decode c sp b <> Err (ECrash k) /\ decode c sp b <> Err EUnclean /\ decode c sp b <> Err EOutOfFuel.
Proof.
  intros c sp b k. pose proof (FAILS_CLEANLY c sp b) as H.
  destruct (decode c sp b) as [x|e]; [repeat split; discriminate|].
  repeat split; intros E; inversion E; subst; destruct H as [H|H]; discriminate H.
Qed.

Print Assumptions FAILS_CLEANLY.
Print Assumptions only_library_errors.
Print Assumptions never_crash_unclean_or_starved.

(* ---------- non-vacuity ---------- *)
Local Open Scope N_scope.

(* the side condition of [only_library_errors] is needed: the model does decline on some inputs *)
Example model_declines :
  decode BER None [9;2;3;49] = Err EUnmodelled               (* REAL in decimal form *)
  /\ is_library EUnmodelled = false
  (* UTF8String with non-ASCII octets: was declined, now answered (Model/Dec.v utf8_ok) *)
  /\ decode BER None [12;2;200;200] = Err EUnicode
  /\ decode BER None [12;2;195;169] = Ok (DV (TStr 12) (VOcts [195;169]), []).
Proof. repeat split; vm_compute; reflexivity. Qed.

(* one malformed input of each kind, each ending in a library error, under all three codecs where it applies *)
Example malformed_inputs_end_in_library_errors :
  (* nothing at all; a lone identifier octet; a header whose content is missing *)
  decode BER None [] = Err EEndOfStream
  /\ decode DER None [2] = Err EEndOfStream
  /\ decode CER None [4;5;1;2] = Err EEndOfStream
  (* a length that no read can satisfy; a length of 127 length octets *)
  /\ decode BER None [4;136;255;255;255;255;255;255;255;255] = Err EMalformed
  /\ decode BER None [4;255;1;2;3] = Err EEndOfStream
  (* end-of-octets where an item is expected; a tag no decoder knows *)
  /\ decode BER None [0;0] = Err EMalformed
  /\ decode BER None [14;0] = Err EMalformed
  (* the wrong type for the guiding type *)
  /\ decode DER (Some TInt) [4;1;0] = Err EMalformed
  /\ decode BER (Some (TSeq [(Req,TInt);(Req,TBool)])) [48;3;2;1;5] = Err EMalformed
  (* BOOLEAN / NULL / INTEGER in constructed form; NULL with content; BIT STRING with 9 unused bits *)
  /\ decode BER None [33;1;255] = Err EMalformed
  /\ decode BER None [5;1;0] = Err EMalformed
  /\ decode BER None [3;2;9;0] = Err EMalformed
  (* a definite constructed item whose components overrun it *)
  /\ decode BER None [48;3;2;2;0;0] = Err EMalformed
  (* non-ASCII octets in an IA5String *)
  /\ decode BER None [22;1;200] = Err EUnicode
  /\ is_library EEndOfStream = true /\ is_library EMalformed = true /\ is_library EUnicode = true.
Proof. repeat split; vm_compute; reflexivity. Qed.

(* C03: framing in every mode.  The nested TLVs over a type's tag set, with definite or
   indefinite EXPLICIT wrappers ([gframe_ts]), are
     - what the model's [frame] writes (outside finding F01),
     - what the reference's [canon] computes over its treatment of IMPLICIT/EXPLICIT tagging,
     - read by the reference's reader as the base encoding is,
     - of canonical CER shape when the base encoding is. *)
From Coq Require Import Lia.
From PV Require Import Base.Bytes Model.Tag Model.TableTypes Model.Types Model.Enc Gen.Tables Spec.X690
     Proofs.Bits Proofs.SpecOctets Proofs.TagAlgebra
     Proofs.DerReference Proofs.ReaderParse Proofs.ReaderInterp Proofs.ReaderSound.
Local Open Scope N_scope.

(* ---------- the nested encoding ---------- *)

Definition wrap_step (indef: bool) (acc: bytes) (t: tag) : bytes := ctlv indef (tcls t) (tnum t) acc.

(* innermost: identifier of the first tag with form bit pc, then rb (length octets, contents, and
   end-of-contents if indefinite); every further tag wraps in a constructed TLV *)
Definition gframe_ts (indef: bool) (ts: tagset) (pc: bool) (rb: bytes) : bytes :=
  match ts with
  | [] => []
  | t0 :: r => fold_left (wrap_step indef) r (ident (tcls t0) pc (tnum t0) ++ rb)
  end.

Lemma gframe_ts_snoc indef ts t pc rb : ts <> [] ->
  gframe_ts indef (ts ++ [t]) pc rb = ctlv indef (tcls t) (tnum t) (gframe_ts indef ts pc rb).
Proof.
  destruct ts as [|t0 r]; [congruence|]. intros _. cbn [app gframe_ts]. rewrite fold_left_app. reflexivity.
Qed.

Lemma retag_ident t c pc num rb : retag t (ident c pc num ++ rb) = Some (ident (tcls t) pc (tnum t) ++ rb).
Proof. unfold retag. rewrite split_ident_ident. reflexivity. Qed.

Lemma retag_ctlv t indef c num x : retag t (ctlv indef c num x) = Some (ctlv indef (tcls t) (tnum t) x).
Proof. destruct indef; unfold ctlv, tlv; apply retag_ident. Qed.

(* 8.14.3 on the nested encoding = TagSet.tagImplicitly on the tag set *)
Lemma retag_gframe_ts t indef ts pc rb : ts <> [] ->
  retag t (gframe_ts indef ts pc rb) = Some (gframe_ts indef (tag_implicitly ts t) pc rb).
Proof.
  intros Hne. destruct (exists_last Hne) as (ts0 & last & ->).
  rewrite tag_implicitly_spec.
  destruct ts0 as [|t0 r0].
  - cbn [app gframe_ts fold_left tcls tnum]. apply retag_ident.
  - rewrite !gframe_ts_snoc by discriminate. cbn [tcls tnum]. apply retag_ctlv.
Qed.

(* ---------- shape of a tag set ---------- *)

Lemma tagset_shape_g : forall T tb, tagset_of (base_of T) = Ok [tb] -> forall ts, tagset_of T = Ok ts ->
  exists t0 r, ts = t0 :: r /\ tcon t0 = tcon tb /\ Forall (fun t => tcon t = true) r.
Proof.
  induction T as [| | | | | | | | n|fs IH|fs IH|t IH|t IH|alts IH| |tg x IH|tg x IH] using ty_ind';
    intros tb Hb ts Hts;
    try (cbn [base_of] in Hb; rewrite Hb in Hts; injection Hts as <-; exists tb, []; split; [reflexivity|split; [reflexivity|constructor]]).
  - cbn [tagset_of] in Hts. destruct (tagset_of x) as [ts'|] eqn:Ex; cbn [bind] in Hts; [|discriminate].
    injection Hts as <-. destruct (IH tb Hb ts' eq_refl) as (t0 & r & -> & Hc0 & Hall).
    destruct r as [|r1 r'].
    + exists (mkTag (tcls tg) (tcon t0) (tnum tg)), []. split; [reflexivity|split; [exact Hc0|constructor]].
    + destruct (@exists_last _ (r1 :: r')) as (r0 & last & E); [discriminate|]. rewrite E in *.
      rewrite app_comm_cons, tag_implicitly_spec. cbn [app].
      exists t0, (r0 ++ [mkTag (tcls tg) (tcon last) (tnum tg)]). split; [reflexivity|split; [exact Hc0|]].
      apply Forall_app in Hall. destruct Hall as [H0 Hl]. apply Forall_app. split; [exact H0|].
      constructor; [|constructor]. inversion Hl; subst. assumption.
  - cbn [tagset_of] in Hts. destruct (tagset_of x) as [ts'|] eqn:Ex; cbn [bind] in Hts; [|discriminate].
    pose proof (tag_explicitly_spec ts' tg) as Hsp. rewrite Hts in Hsp. destruct Hsp as [_ ->].
    destruct (IH tb Hb ts' eq_refl) as (t0 & r & -> & Hc0 & Hall).
    exists t0, (r ++ [mkTag (tcls tg) true (tnum tg)]). split; [reflexivity|split; [exact Hc0|]].
    apply Forall_app. split; [exact Hall|]. constructor; [reflexivity|constructor].
Qed.

(* ====================================================================== *)
(* 1. the model's frame                                                    *)
(* ====================================================================== *)

Lemma enc_tag_ident t ic : enc_tag t ic = ident (tcls t) (tcon t || ic) (tnum t).
Proof.
  rewrite ident_is_enc_tag. unfold enc_tag. cbn [tcls tcon tnum]. rewrite Bool.orb_false_r. reflexivity.
Qed.

Lemma ok_inj {A} (a b: A) : Ok a = Ok b -> a = b.
Proof. intros H. injection H as H. exact H. Qed.

(* one definite TLV *)
Lemma frame_one_def t ic si sub s : frame_one t ic true si sub = Ok s ->
  s = ident (tcls t) (tcon t || ic) (tnum t) ++ length_octets (N.of_nat (length sub)) ++ sub.
Proof.
  unfold frame_one. cbn [negb andb].
  destruct (enc_len (N.of_nat (length sub)) false) as [l|e] eqn:E; cbn [bind]; [|discriminate].
  intros H. apply ok_inj in H. subst s. apply length_octets_is_enc_len in E.
  rewrite enc_tag_ident, E, app_nil_r. reflexivity.
Qed.

(* one indefinite TLV (encoders that support the indefinite form) *)
Lemma frame_one_indef t ic sub s : frame_one t ic false true sub = Ok s ->
  s = ident (tcls t) (tcon t || ic) (tnum t) ++ [128] ++ sub ++ [0; 0].
Proof.
  unfold frame_one. cbn [negb andb enc_len bind]. intros H. apply ok_inj in H. subst s.
  rewrite enc_tag_ident. reflexivity.
Qed.

Lemma frame_outer_g : forall r ic defm si s b, Forall (fun t => tcon t = true) r ->
  (defm = false -> r <> [] -> si = true) ->
  frame_outer r ic defm si s = Ok b -> b = fold_left (wrap_step (negb defm)) r s.
Proof.
  induction r as [|x r IH]; intros ic defm si s b Hall Hsi H; cbn [frame_outer] in H.
  - apply ok_inj in H. symmetry. exact H.
  - inversion Hall as [|? ? Hx Hr]; subst.
    destruct (frame_one x ic defm si s) as [s1|e] eqn:E1; cbn [bind] in H; [|discriminate].
    cbn [fold_left].
    assert (Es: s1 = wrap_step (negb defm) s x).
    { destruct defm.
      - apply frame_one_def in E1. rewrite Hx in E1. exact E1.
      - rewrite (Hsi eq_refl) in E1 by discriminate. apply frame_one_indef in E1. rewrite Hx in E1. exact E1. }
    subst s1. apply (IH ic defm si _ b Hr); [|exact H].
    intros Hd Hne. apply Hsi; [exact Hd|discriminate].
Qed.

(* AbstractItemEncoder.encode in any mode: outside finding F01 (indefinite mode, an encoder without
   the indefinite form, more than one tag) it writes the nested encoding *)
Theorem frame_gframe t0 r content ic o si b :
  o_ifne o = false -> Forall (fun t => tcon t = true) r ->
  (o_def o = false -> r <> [] -> si = true) -> (o_def o = false -> ic = true -> si = true) ->
  frame (t0 :: r) content ic o si = Ok b ->
  b = gframe_ts (negb (o_def o)) (t0 :: r) (tcon t0 || ic)
        (if ic && negb (o_def o) then [128] ++ content ++ [0; 0]
         else length_octets (N.of_nat (length content)) ++ content).
Proof.
  intros Hi Hall Hsi Hic H. cbn [frame] in H. rewrite Hi, Bool.andb_false_r in H.
  destruct (frame_one t0 ic (if ic then o_def o else true) si content) as [s0|e] eqn:E0; cbn [bind] in H; [|discriminate H].
  apply (frame_outer_g r ic (o_def o) si s0 b Hall Hsi) in H. subst b. cbn [gframe_ts]. f_equal.
  destruct ic; cbn [andb].
  - destruct (o_def o) eqn:Ed; cbn [negb].
    + apply frame_one_def in E0. exact E0.
    + rewrite (Hic eq_refl eq_refl) in E0. apply frame_one_indef in E0. exact E0.
  - apply frame_one_def in E0. exact E0.
Qed.

(* ====================================================================== *)
(* 2. the reference's canon over tagging wrappers, DER and CER              *)
(* ====================================================================== *)

Theorem canon_wrappers_g : forall T v cer pc rb tb, untagged T = false ->
  tagset_of (base_of T) = Ok [tb] ->
  canon cer (base_of T) v = Some (ident (tcls tb) pc (tnum tb) ++ rb) ->
  forall ts, tagset_of T = Ok ts -> canon cer T v = Some (gframe_ts cer ts pc rb).
Proof.
  induction T as [| | | | | | | | n|fs IH|fs IH|t IH|t IH|alts IH| |tg x IH|tg x IH] using ty_ind';
    intros v cer pc rb tb Hu Hb Hc ts Hts;
    try (cbn [base_of] in Hb, Hc; rewrite Hb in Hts; injection Hts as <-; exact Hc).
  - (* IMPLICIT *)
    cbn [tagset_of] in Hts. destruct (tagset_of x) as [ts'|] eqn:Ex; cbn [bind] in Hts; [|discriminate].
    injection Hts as <-.
    pose proof (tagset_nonempty x ts' Hu Ex) as Hne.
    rewrite canon_imp, (IH v cer pc rb tb Hu Hb Hc ts' eq_refl). cbn [opt_bind].
    apply retag_gframe_ts. exact Hne.
  - (* EXPLICIT *)
    cbn [tagset_of] in Hts. destruct (tagset_of x) as [ts'|] eqn:Ex; cbn [bind] in Hts; [|discriminate].
    pose proof (tag_explicitly_spec ts' tg) as Hsp. rewrite Hts in Hsp. destruct Hsp as [Hnu ->].
    pose proof (tagset_nonempty x ts' Hu Ex) as Hne.
    rewrite canon_exp, (IH v cer pc rb tb Hu Hb Hc ts' eq_refl), gframe_ts_snoc by exact Hne. cbn [opt_bind tcls tnum].
    destruct (tcls tg); [congruence|reflexivity|reflexivity|reflexivity].
Qed.

(* ====================================================================== *)
(* 3. reading the nested encoding                                           *)
(* ====================================================================== *)

(* inside an indefinite wrapper the innermost encoding must not look like end-of-contents *)
Definition eoc_free (ts: tagset) (pc: bool) : Prop :=
  match ts with
  | t0 :: _ :: _ => pc = true \/ tcls t0 <> Univ \/ tnum t0 <> 0
  | _ => True
  end.

Lemma gframe_nz_head indef ts pc rb : ts <> [] -> eoc_free ts pc ->
  (length ts = 1%nat -> pc = true \/ tcls (hd (mkTag Univ false 0) ts) <> Univ \/ tnum (hd (mkTag Univ false 0) ts) <> 0) ->
  nz_head (gframe_ts indef ts pc rb).
Proof.
  intros Hne He H1. destruct (exists_last Hne) as (ts0 & last & ->).
  destruct ts0 as [|t0 r0].
  - cbn [app gframe_ts fold_left]. apply ident_nz_head. cbn [app length hd] in H1. specialize (H1 eq_refl). tauto.
  - rewrite gframe_ts_snoc by discriminate.
    destruct indef; unfold ctlv, tlv; apply ident_nz_head; auto.
Qed.

Lemma eoc_free_imp ts t pc : ts <> [] -> eoc_free (tag_implicitly ts t) pc -> eoc_free ts pc.
Proof.
  intros Hne. destruct (exists_last Hne) as (ts0 & last & ->). rewrite tag_implicitly_spec.
  destruct ts0 as [|t0 [|t1 r]]; cbn [app eoc_free]; auto.
Qed.

Lemma eoc_free_exp ts t pc : ts <> [] -> eoc_free (ts ++ [t]) pc ->
  eoc_free ts pc /\ (pc = true \/ tcls (hd (mkTag Univ false 0) ts) <> Univ \/ tnum (hd (mkTag Univ false 0) ts) <> 0).
Proof.
  intros Hne. destruct ts as [|t0 [|t1 r]]; [congruence| |]; cbn [app eoc_free hd]; auto.
Qed.

Theorem reads_gframe : forall T, untagged T = false -> forall (indef: bool) a pc rb tb,
  tagset_of (base_of T) = Ok [tb] ->
  reads_as (base_of T) a (ident (tcls tb) pc (tnum tb) ++ rb) ->
  forall ts, tagset_of T = Ok ts ->
  (indef = true -> eoc_free ts pc) -> (indef = false -> body_bound (gframe_ts false ts pc rb)) ->
  reads_as T a (gframe_ts indef ts pc rb).
Proof.
  induction T as [| | | | | | | | n|fs IH|fs IH|t IH|t IH|alts IH| |tg x IH|tg x IH] using ty_ind';
    intros Hu indef a pc rb tb Hb Hr ts Hts He Hbd;
    try (cbn [base_of] in Hb, Hr; rewrite Hb in Hts; injection Hts as <-; exact Hr).
  - (* IMPLICIT *)
    cbn [tagset_of] in Hts. destruct (tagset_of x) as [ts'|] eqn:Ex; cbn [bind] in Hts; [|discriminate].
    injection Hts as <-.
    pose proof (tagset_nonempty x ts' Hu Ex) as Hne.
    assert (Hx: reads_as x a (gframe_ts indef ts' pc rb)).
    { apply (IH Hu indef a pc rb tb Hb Hr ts' eq_refl).
      - intros Hd. apply (eoc_free_imp ts' tg pc Hne). apply He. exact Hd.
      - intros Hd. apply (bound_retag tg _ _ (retag_gframe_ts tg false ts' pc rb Hne)). apply Hbd. exact Hd. }
    destruct (reads_imp tg x a _ Hx) as (e' & He' & Hr').
    rewrite (retag_gframe_ts tg indef ts' pc rb Hne) in He'. injection He' as <-. exact Hr'.
  - (* EXPLICIT *)
    cbn [tagset_of] in Hts. destruct (tagset_of x) as [ts'|] eqn:Ex; cbn [bind] in Hts; [|discriminate].
    pose proof (tag_explicitly_spec ts' tg) as Hsp. rewrite Hts in Hsp. destruct Hsp as [Hnu ->].
    pose proof (tagset_nonempty x ts' Hu Ex) as Hne.
    rewrite gframe_ts_snoc by exact Hne. cbn [tcls tnum].
    assert (Hlen: indef = false -> N.of_nat (length (gframe_ts false ts' pc rb)) < max_len).
    { intros Hd. specialize (Hbd Hd). rewrite gframe_ts_snoc in Hbd by exact Hne. cbn [tcls tnum] in Hbd.
      apply (bound_tlv (tcls tg) true (tnum tg)) in Hbd. exact Hbd. }
    apply (reads_exp tg x a _ indef).
    + apply (IH Hu indef a pc rb tb Hb Hr ts' eq_refl).
      * intros Hd. apply (eoc_free_exp ts' (mkTag (tcls tg) true (tnum tg)) pc Hne). apply He. exact Hd.
      * intros Hd. apply bound_of_length. apply Hlen. exact Hd.
    + intros Hd. destruct (eoc_free_exp ts' (mkTag (tcls tg) true (tnum tg)) pc Hne (He Hd)) as [He1 He2].
      apply gframe_nz_head; [exact Hne|exact He1|intros _; exact He2].
    + intros Hd. subst indef. apply Hlen. reflexivity.
Qed.

(* ====================================================================== *)
(* 4. clause 9 shape of the nested encoding                                 *)
(* ====================================================================== *)

Definition cer_ok (e: bytes) : Prop :=
  exists n, parses e n /\ forall f, (length e <= f)%nat -> cer_shape f n = true.

(* a UNIVERSAL tag number of a string type: where the untyped shape check recognises a string *)
Definition ustr (c: tclass) (num: N) : bool := N.eqb (class_no c) 0 && string_number num.

Lemma cer_shape_prim f c num contents raw :
  cer_shape (S f) (Prim c num contents raw) = if ustr c num then Nat.leb (length contents) 1000 else true.
Proof. reflexivity. Qed.

Lemma cer_shape_cons f c num indef kids raw :
  cer_shape (S f) (Cons c num indef kids raw) =
  (indef && forallb (cer_shape f) kids && (if ustr c num then cer_segments kids else true))%bool.
Proof. reflexivity. Qed.

Lemma cer_ok_prim c num contents : N.of_nat (length contents) < max_len ->
  (ustr c num = true -> (length contents <= 1000)%nat) ->
  cer_ok (tlv c false num contents).
Proof.
  intros Hl Hs. exists (Prim c num contents (tlv c false num contents)). split; [apply parses_prim; exact Hl|].
  intros f Hf. pose proof (tlv_length c false num contents). destruct f as [|f]; [lia|].
  rewrite cer_shape_prim. destruct (ustr c num); [|reflexivity]. apply Nat.leb_le. apply Hs. reflexivity.
Qed.

Lemma cer_ok_kids : forall es, Forall cer_ok es ->
  exists kids, Forall2 parses es kids /\ forall f, (length (concat es) <= f)%nat -> forallb (cer_shape f) kids = true.
Proof.
  induction 1 as [|e es He _ IH].
  - exists []. split; [constructor|reflexivity].
  - destruct IH as (kids & Hk & Hs). destruct He as (n & Hp & Hn).
    exists (n :: kids). split; [constructor; assumption|].
    intros f Hf. cbn [concat] in Hf. rewrite app_length in Hf. cbn [forallb].
    rewrite Hn by lia. rewrite Hs by lia. reflexivity.
Qed.

Lemma itlv_length c num contents : (4 + length contents <= length (itlv c num contents))%nat.
Proof. unfold itlv. rewrite !app_length. pose proof (ident_length_pos c true num). cbn [length]. lia. Qed.

(* an indefinite constructed encoding that is not recognisable as a string *)
Lemma cer_ok_itlv c num es : Forall cer_ok es -> Forall nz_head es -> ustr c num = false ->
  cer_ok (itlv c num (concat es)).
Proof.
  intros Hes Hnz Hu. destruct (cer_ok_kids es Hes) as (kids & Hk & Hs).
  exists (Cons c num true kids (itlv c num (concat es))). split; [apply parses_cons_indef; assumption|].
  intros f Hf. pose proof (itlv_length c num (concat es)) as Hl.
  destruct f as [|f]; [lia|]. rewrite cer_shape_cons, Hu, Hs by lia. reflexivity.
Qed.

(* 9.2: a run of full 1000-octet segments and a last, non-empty one *)
Fixpoint seg_ok (ps: list bytes) : bool :=
  match ps with
  | [] => false
  | [p] => Nat.leb 1 (length p) && Nat.leb (length p) 1000
  | p :: r => Nat.eqb (length p) 1000 && seg_ok r
  end.

Lemma cer_segments_pieces n : forall ps, cer_segments (map (piece_node n) ps) = seg_ok ps.
Proof.
  induction ps as [|p ps IH]; [reflexivity|]. destruct ps as [|q r]; [reflexivity|].
  cbn [map] in *.
  change (cer_segments (piece_node n p :: piece_node n q :: map (piece_node n) r))
    with (Nat.eqb (length p) 1000 && cer_segments (piece_node n q :: map (piece_node n) r))%bool.
  rewrite IH. reflexivity.
Qed.

Lemma cer_shape_pieces n f : forall ps,
  (string_number n = true -> Forall (fun p => (length p <= 1000)%nat) ps) ->
  forallb (cer_shape (S f)) (map (piece_node n) ps) = true.
Proof.
  intros ps H. induction ps as [|p ps IH]; [reflexivity|].
  cbn [map forallb]. unfold piece_node at 1. rewrite cer_shape_prim.
  assert (Hp: (if ustr Univ n then Nat.leb (length p) 1000 else true) = true).
  { unfold ustr. cbn [class_no N.eqb andb]. destruct (string_number n) eqn:E; [|reflexivity].
    specialize (H eq_refl). inversion H; subst. apply Nat.leb_le. assumption. }
  rewrite Hp. cbn [andb]. apply IH. intros E. specialize (H E). inversion H; subst. assumption.
Qed.

(* an indefinite constructed string made of primitive segments *)
Lemma cer_ok_itlv_pieces c num n ps : n <> 0 ->
  Forall (fun p => N.of_nat (length p) < max_len) ps ->
  (string_number n = true -> Forall (fun p => (length p <= 1000)%nat) ps) ->
  (ustr c num = true -> seg_ok ps = true) ->
  cer_ok (itlv c num (concat (map (tlv Univ false n) ps))).
Proof.
  intros Hn Hb Hsmall Hseg.
  exists (Cons c num true (map (piece_node n) ps) (itlv c num (concat (map (tlv Univ false n) ps)))).
  split; [apply parses_cons_indef; [apply pieces_parse; exact Hb|apply pieces_nz; exact Hn]|].
  intros f Hf. pose proof (itlv_length c num (concat (map (tlv Univ false n) ps))) as Hl.
  destruct f as [|[|f]]; [lia|lia|]. rewrite cer_shape_cons, (cer_shape_pieces n f ps Hsmall), cer_segments_pieces.
  cbn [andb]. destruct (ustr c num); [apply Hseg; reflexivity|reflexivity].
Qed.

(* EXPLICIT wrappers whose tags are not UNIVERSAL string tags (EXPLICIT tags never are UNIVERSAL;
   an IMPLICIT tag over an EXPLICIT one could be) *)
Lemma cer_ok_wrap : forall r inner, Forall (fun t => ustr (tcls t) (tnum t) = false) r ->
  cer_ok inner -> nz_head inner -> cer_ok (fold_left (wrap_step true) r inner).
Proof.
  induction r as [|t r IH]; intros inner Hr Hc Hz; [exact Hc|].
  inversion Hr as [|? ? Ht Hr']; subst.
  cbn [fold_left]. apply IH; [exact Hr'| |].
  - unfold wrap_step. rewrite ctlv_true.
    replace inner with (concat [inner]) by (cbn [concat]; apply app_nil_r).
    apply cer_ok_itlv; [constructor; [exact Hc|constructor]|constructor; [exact Hz|constructor]|exact Ht].
  - unfold wrap_step, ctlv. apply ident_nz_head. auto.
Qed.

Theorem cer_ok_canonical b : cer_ok b -> cer_canonical b = true.
Proof.
  intros (n & [_ Hp] & Hs). unfold cer_canonical, parse.
  specialize (Hp (S (length b)) []). rewrite app_nil_r in Hp. rewrite Hp by lia. apply Hs. lia.
Qed.

Print Assumptions frame_gframe.
Print Assumptions canon_wrappers_g.
Print Assumptions reads_gframe.
Print Assumptions cer_ok_wrap.
Print Assumptions cer_ok_canonical.

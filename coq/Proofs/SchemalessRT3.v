(* C16, every encoder mode: decoding WITHOUT a guiding type what the BER encoder wrote in
   indefinite-length and/or segmented mode (encode BER d chunk) and what the CER encoder wrote, for
   the container fragment of SchemalessRT2.v, read by the BER and the CER decoder.
     schemaless_roundtrip_ber_modes          BER encoder, any defMode / maxChunkSize, SET OF and SET included
     schemaless_roundtrip_cer_encoder        CER encoder, types without SET OF / SET: same skeleton and leaves
     schemaless_roundtrip_cer_encoder_sets   CER encoder with SET OF / SET: skeleton up to the order under
                                             SET (OF) nodes, leaves a permutation
     schemaless_roundtrip_optional           absent OPTIONAL components (BER encoder): everything about the
                                             value pruned to the components present
   In all of them the DER re-encoding of the schemaless result is the DER encoding of the original
   (pruned) value.  The F01 class is excluded in indefinite mode (schemaless_f01_refuted). *)
From Coq Require Import Lia Sorting.Permutation Sorting.Sorted.
From PV Require Import Base.Bytes Model.Tag Model.TableTypes Model.Types Model.Proc Model.Enc Model.Dec Gen.Tables
     Proofs.LeafInt Proofs.LeafOidBits Proofs.LeafReal
     Proofs.ProcBind Proofs.RunLemmas Proofs.TagOctets Proofs.DecHeader Proofs.DecFrame Proofs.DecPrim
     Proofs.TagsetShape Proofs.Schemaless Proofs.RoundTrip1 Proofs.RoundTrip2 Proofs.RoundTrip3 Proofs.RoundTrip3a
     Proofs.ContainerCodecDefs Proofs.ContainerCodecSort
     Proofs.RoundTripModesA Proofs.RoundTripModesB Proofs.RoundTripModesC Proofs.RoundTripModes
     Proofs.SchemalessRT Proofs.SchemalessRT2.
Local Open Scope N_scope.

(* ---------- framing without a guiding type, indefinite lengths ---------- *)

(* one EXPLICIT tag level in indefinite-length form: 80, the inner item, 00 00 *)
Lemma explicit_level_indef_none : forall c f acc0 t inner Tv vv,
  support_indef c = true ->
  tcon t = true -> tcls t <> Univ ->
  (length (enc_tag t false) <= S f)%nat -> (2 <= f)%nat ->
  consumes (dec_call c f SNone (t :: acc0) None true false) inner (DV Tv vv) ->
  consumes (dec_call c (S f) SNone acc0 None false false) (enc_tag t false ++ [128] ++ inner ++ [0; 0]) (DV Tv vv).
Proof.
  intros c f acc0 t inner Tv vv Hsi Hcon Hcls Hlen Hf2 Hin s tl Hav.
  rewrite <- !app_assoc in Hav.
  rewrite (dec_call_header_indef c f SNone acc0 false t false (inner ++ [0; 0] ++ tl) s Hsi Hav Hlen).
  rewrite wire_false.
  set (s1 := adv (setmark s (pos s)) (length (enc_tag t false) + 1)).
  assert (Hav1: avail s1 = inner ++ [0; 0] ++ tl).
  { subst s1. rewrite avail_adv, avail_setmark, Hav.
    change (enc_tag t false ++ [128] ++ inner ++ [0; 0] ++ tl) with (enc_tag t false ++ [128] ++ (inner ++ [0; 0] ++ tl)).
    rewrite app_assoc. replace (length (enc_tag t false) + 1)%nat with (length (enc_tag t false ++ [128])) by (rewrite app_length; reflexivity).
    apply skipn_app_exact. }
  assert (Hp1: pos s1 = (pos s + (length (enc_tag t false) + 1))%nat) by reflexivity.
  assert (Ha1: arrived s1 = arrived s) by reflexivity.
  assert (Hc1: closed s1 = closed s) by reflexivity.
  clearbody s1.
  unfold dispatch. cbn [firstn]. rewrite (by_tag_nonuniv c t acc0 Hcls), (by_tag_nonuniv c t [] Hcls).
  rewrite Hcon. cbn [andb].
  assert (Hnu: negb (cls_eqb (tcls t) Univ) = true) by (destruct (tcls t); [congruence|reflexivity|reflexivity|reflexivity]).
  rewrite Hnu. unfold dec_raw.
  destruct f as [|[|f']]; try lia.
  cbn [raw_loop].
  destruct (Hin s1 _ Hav1) as (s2 & Hrun & Hpos & Harr & Hcl).
  rewrite (resume_pbind_done _ _ _ _ _ Hrun).
  pose proof (consumes_avail inner s1 _ s2 Hav1 Hpos Harr) as Hav2.
  rewrite (resume_pbind_done _ _ _ _ _ (eoo_read c (S f') SNone (t :: acc0) None false s2 tl Hsi Hav2)).
  cbn [resume].
  exists (adv s2 2). split; [reflexivity|].
  rewrite !app_length. cbn [length]. rewrite pos_adv, arrived_adv, closed_adv.
  repeat split; [lia|congruence|congruence].
Qed.

Lemma peel_all_indef_none : forall c f r acc0 sub b Tv vv,
  support_indef c = true ->
  frame_outer r false false true sub = Ok b ->
  Forall explicit_like r ->
  Forall (fun t => (length (enc_tag t false) <= S f)%nat) r ->
  (2 <= f)%nat ->
  (forall ae, consumes (dec_call c f SNone (r ++ acc0) None ae false) sub (DV Tv vv)) ->
  forall ae, consumes (dec_call c (f + length r) SNone acc0 None ae false) b (DV Tv vv).
Proof.
  intros c f r. induction r as [|tn r' IH] using rev_ind; intros acc0 sub b Tv vv Hsi Hfr Hex Hlen Hf2 Hin.
  - cbn [frame_outer] in Hfr. inversion Hfr; subst. cbn [length app] in *. rewrite Nat.add_0_r. exact Hin.
  - rewrite frame_outer_snoc in Hfr.
    destruct (frame_outer r' false false true sub) as [inner|e] eqn:Ein; cbn [bind] in Hfr; [|discriminate].
    apply Forall_app in Hex. destruct Hex as [Hex' Hexn]. inversion Hexn as [|? ? [Hcon Hcls] _]; subst.
    apply Forall_app in Hlen. destruct Hlen as [Hlen' Hlenn]. inversion Hlenn as [|? ? Hl _]; subst.
    assert (Hb: b = enc_tag tn false ++ [128] ++ inner ++ [0; 0]) by (inversion Hfr; reflexivity).
    rewrite app_length in *. cbn [length] in *.
    replace (f + (length r' + 1))%nat with (S (f + length r')) by lia.
    apply ae_any; [exact Hsi| | |].
    + subst b. pose proof (enc_tag_nonempty tn false). rewrite !app_length. cbn [length]. lia.
    + subst b. rewrite hd_app by apply enc_tag_ne. apply enc_tag_hd. left. exact Hcls.
    + subst b.
      apply (explicit_level_indef_none c (f + length r') acc0 tn inner Tv vv Hsi Hcon Hcls); [lia|lia|].
      apply (IH (tn :: acc0) sub inner Tv vv Hsi Ein Hex' Hlen' Hf2).
      intros ae. rewrite <- app_assoc in Hin. exact (Hin ae).
Qed.

(* the innermost level, indefinite length: the value decoder found by the first tag runs until it
   has taken the closing 00 00 *)
Lemma match_level_indef_none : forall c f acc0 t0 cns content v cd fl,
  support_indef c = true ->
  by_tag c [wire t0 cns] = Some (cd, fl) ->
  (length (enc_tag t0 cns) <= S f)%nat ->
  consumes (dec_value (dec_call c f) f cd fl None (wire t0 cns :: acc0) None false) (content ++ [0; 0]) v ->
  consumes (dec_call c (S f) SNone acc0 None false false) (enc_tag t0 cns ++ [128] ++ content ++ [0; 0]) v.
Proof.
  intros c f acc0 t0 cns content v cd fl Hsi Hby Hlen Hin s tl Hav.
  rewrite <- !app_assoc in Hav.
  rewrite (dec_call_header_indef c f SNone acc0 false t0 cns (content ++ [0; 0] ++ tl) s Hsi Hav Hlen).
  set (s1 := adv (setmark s (pos s)) (length (enc_tag t0 cns) + 1)).
  assert (Hav1: avail s1 = (content ++ [0; 0]) ++ tl).
  { subst s1. rewrite avail_adv, avail_setmark, Hav.
    change (enc_tag t0 cns ++ [128] ++ content ++ [0; 0] ++ tl) with (enc_tag t0 cns ++ [128] ++ (content ++ [0; 0] ++ tl)).
    rewrite app_assoc. replace (length (enc_tag t0 cns) + 1)%nat with (length (enc_tag t0 cns ++ [128])) by (rewrite app_length; reflexivity).
    rewrite skipn_app_exact. rewrite <- app_assoc. reflexivity. }
  assert (Hp1: pos s1 = (pos s + (length (enc_tag t0 cns) + 1))%nat) by reflexivity.
  assert (Ha1: arrived s1 = arrived s) by reflexivity.
  assert (Hc1: closed s1 = closed s) by reflexivity.
  clearbody s1.
  destruct (Hin s1 tl Hav1) as (s2 & Hrun & Hpos & Harr & Hcl).
  unfold dispatch. cbn [firstn].
  destruct acc0 as [|a0 acc1].
  - rewrite Hby. exists s2. split; [exact Hrun|].
    rewrite !app_length in *. cbn [length] in *. repeat split; [lia|congruence|congruence].
  - change (by_tag c (wire t0 cns :: a0 :: acc1)) with (@None (dec_codec * dec_flags)). rewrite Hby.
    exists s2. split; [exact Hrun|].
    rewrite !app_length in *. cbn [length] in *. repeat split; [lia|congruence|congruence].
Qed.

(* ---------- every level of the framing the encoder wrote, in any mode, no guiding type ---------- *)

Theorem framed_modes_none : forall c t0 r cns si d k content b f0 dcd dfl Tv vv,
  support_indef c = true ->
  (tcls t0 <> Univ \/ tnum t0 <> 0) ->
  Forall explicit_like r ->
  by_tag c [wire t0 cns] = Some (dcd, dfl) ->
  (d = false -> (cns = true \/ r <> []) -> si = true) ->
  frame (t0 :: r) content cns (mkOpts d k false) si = Ok b ->
  (length b <= S f0)%nat ->
  (if cns && negb d
   then consumes (dec_value (dec_call c f0) f0 dcd dfl None (wire t0 cns :: r) None false) (content ++ [0; 0]) (DV Tv vv)
   else consumes (dec_value (dec_call c f0) f0 dcd dfl None (wire t0 cns :: r) (Some (N.of_nat (length content))) false) content (DV Tv vv)) ->
  (length content + 2 + 2 * length r <= length b)%nat /\ hd 0 b <> 0 /\
  forall ae, consumes (dec_call c (S f0 + length r) SNone [] None ae false) b (DV Tv vv).
Proof.
  intros c t0 r cns si d k content b f0 dcd dfl Tv vv Hsi Hnz Hex Hby Hmode He Hb Hval.
  cbn [frame] in He. rewrite Bool.andb_false_r in He. cbn [o_def] in He.
  destruct (frame_one t0 cns (if cns then d else true) si content) as [s0|e] eqn:E0; cbn [bind] in He; [|discriminate].
  rewrite (frame_outer_con_g r cns d si s0 Hex) in He.
  destruct (frame_outer_facts _ _ _ _ _ _ He Hex) as (Hlen0 & Hhd & Htl).
  destruct (frame_one_facts _ _ _ _ _ _ E0 Hnz) as (F1 & F2 & F3).
  specialize (Hhd F3). specialize (Htl (S (S f0)) ltac:(lia)).
  assert (Hlr: (length s0 + 2 * length r <= length b)%nat).
  { clear - He Hex. revert s0 b He Hex. induction r as [|t r IH]; intros s0 b He Hex; cbn [frame_outer] in He.
    - inversion He; subst. cbn [length]. lia.
    - destruct (frame_one t false d si s0) as [s1|e] eqn:E1; cbn [bind] in He; [|discriminate].
      inversion Hex as [|? ? Ht Hr]; subst. specialize (IH _ _ He Hr).
      destruct (frame_one_facts _ _ _ _ _ _ E1 (explicit_like_nz _ Ht)) as (G1 & _ & _). cbn [length]. lia. }
  split; [lia|]. split; [exact Hhd|].
  destruct d.
  - (* definite lengths throughout *)
    rewrite Bool.andb_false_r in Hval.
    assert (E0': frame_one t0 cns true si content = Ok s0) by (destruct cns; exact E0).
    assert (H0: consumes (dec_call c (S f0 + length r) SNone [] None false false) b (DV Tv vv)).
    { apply (peel_all_none c (S f0) si r [] s0 b _ He Hex Htl).
      rewrite app_nil_r.
      apply (match_level_none c f0 r t0 cns si content s0 _ dcd dfl E0' Hby); [lia|exact Hval]. }
    apply ae_any; [exact Hsi|lia|exact Hhd|exact H0].
  - destruct cns.
    + (* constructed: 80 ... 00 00 at every level *)
      cbn [andb negb] in Hval.
      assert (Hsit: si = true) by (apply Hmode; [reflexivity|left; reflexivity]). subst si.
      assert (Hs0: s0 = enc_tag t0 true ++ [128] ++ content ++ [0; 0]) by (inversion E0; reflexivity).
      apply (peel_all_indef_none c (S f0) r [] s0 b Tv vv Hsi He Hex Htl); [lia|].
      apply ae_any; [exact Hsi|lia|exact F3|]. subst s0. rewrite app_nil_r.
      apply (match_level_indef_none c f0 r t0 true content _ dcd dfl Hsi Hby); [lia|exact Hval].
    + (* primitive contents: definite innermost level *)
      cbn [andb] in Hval.
      assert (Hin: forall ae, consumes (dec_call c (S f0) SNone (r ++ []) None ae false) s0 (DV Tv vv)).
      { apply ae_any; [exact Hsi|lia|exact F3|]. rewrite app_nil_r.
        apply (match_level_none c f0 r t0 false si content s0 _ dcd dfl E0 Hby); [lia|exact Hval]. }
      destruct r as [|r1 r'].
      * cbn [frame_outer] in He. inversion He; subst b. cbn [length]. rewrite Nat.add_0_r. exact Hin.
      * assert (Hsit: si = true) by (apply Hmode; [reflexivity|right; discriminate]). subst si.
        apply (peel_all_indef_none c (S f0) (r1 :: r') [] s0 b Tv vv Hsi He Hex Htl); [lia|exact Hin].
Qed.

(* ---------- the schemaless component loop, definite or indefinite ---------- *)

Section SLoopModes.
  Variable rec : spec -> tagset -> option (option N) -> bool -> bool -> proc dval.

  Definition sl_elem_ok_ae (p: bytes) (tv: ty * val) : Prop :=
    (forall ae, consumes (rec SNone [] None ae false) p (DV (fst tv) (snd tv))) /\ (0 < length p)%nat.

  Lemma sl_elem_ok_of_ae parts tvs : Forall2 sl_elem_ok_ae parts tvs -> Forall2 (sl_elem_ok rec) parts tvs.
  Proof. induction 1 as [|p tv ps tvs [H Hl] _ IH]; constructor; [split; [exact (H false)|exact Hl]|exact IH]. Qed.

  Lemma sl_elem_ae_count parts tvs : Forall2 sl_elem_ok_ae parts tvs -> (length parts <= length (concat parts))%nat.
  Proof.
    induction 1 as [|p x' parts xs' [_ Hpl] _ IH]; [cbn; lia|]. cbn [length concat]. rewrite app_length. lia.
  Qed.

  Hypothesis Heoo : eoo_ok rec.

  Lemma schemaless_indef_run is_set ts : forall parts tvs,
    Forall2 sl_elem_ok_ae parts tvs ->
    forall n acc start s tl,
      (length parts < n)%nat ->
      avail s = concat parts ++ [0; 0] ++ tl ->
      exists s', resume (schemaless_loop rec is_set ts None start n acc) s
                 = inr (Ok (guess_dv is_set ts (acc ++ tvs)), s')
        /\ pos s' = (pos s + length (concat parts) + 2)%nat /\ arrived s' = arrived s /\ closed s' = closed s.
  Proof.
    intros parts tvs HF. induction HF as [|p tv parts tvs [Hp Hpl] HF IH]; intros n acc start s tl Hn Hav.
    - destruct n as [|n']; [cbn [length] in Hn; lia|].
      cbn [schemaless_loop]. cbv zeta. rewrite resume_tell. cbn [negb].
      cbn [concat app] in Hav.
      rewrite (resume_pbind_done _ _ _ _ _ (Heoo SNone false s tl Hav)).
      rewrite app_nil_r.
      exists (adv s 2). cbn [concat length]. rewrite pos_adv. split; [|repeat split; lia].
      unfold guess_dv, guess_proto, guess_val. destruct acc as [|[T0 v0] acc']; [destruct is_set; reflexivity|].
      cbv zeta. reflexivity.
    - destruct n as [|n']; [cbn [length] in Hn; lia|].
      cbn [schemaless_loop]. cbv zeta. rewrite resume_tell. cbn [negb].
      cbn [concat] in Hav. rewrite <- app_assoc in Hav.
      destruct (Hp true s _ Hav) as (s1 & Hrun & Hpos & Harr & Hcl).
      rewrite (resume_pbind_done _ _ _ _ _ Hrun).
      pose proof (consumes_avail p s _ s1 Hav Hpos Harr) as Hav1.
      cbn [length] in Hn. destruct tv as [Tc vc]. cbn [fst snd].
      destruct (IH n' (acc ++ [(Tc, vc)]) start s1 tl ltac:(lia) Hav1) as (s2 & Hrun2 & Hpos2 & Harr2 & Hcl2).
      exists s2. rewrite Hrun2. rewrite <- app_assoc. cbn [app concat]. rewrite app_length.
      split; [reflexivity|]. split; [lia|]. split; congruence.
  Qed.

  Lemma dec_schemaless_indef_consumes lf is_set ts parts tvs :
    Forall2 sl_elem_ok_ae parts tvs -> (length parts < lf)%nat ->
    consumes (dec_schemaless rec lf is_set ts None) (concat parts ++ [0; 0]) (guess_dv is_set ts tvs).
  Proof.
    intros HF Hlf s tl Hav. unfold dec_schemaless. rewrite resume_tell. rewrite <- app_assoc in Hav.
    destruct (schemaless_indef_run is_set ts parts tvs HF lf [] (pos s) s tl Hlf Hav) as (s' & Hrun & Hpos & Harr & Hcl).
    exists s'. rewrite Hrun. cbn [app]. rewrite app_length. cbn [length]. repeat split; try assumption. lia.
  Qed.
End SLoopModes.

Lemma frame_outer_len_g : forall r c d si s0 b, frame_outer r c d si s0 = Ok b -> Forall explicit_like r ->
  (length s0 + 2 * length r <= length b)%nat.
Proof.
  induction r as [|t r IH]; intros c d si s0 b He Hex; cbn [frame_outer] in He.
  - inversion He; subst. cbn [length]. lia.
  - destruct (frame_one t c d si s0) as [s1|e] eqn:E1; cbn [bind] in He; [|discriminate].
    inversion Hex as [|? ? Ht Hr]; subst. specialize (IH _ _ _ _ _ He Hr).
    destruct (frame_one_facts _ _ _ _ _ _ E1 (explicit_like_nz _ Ht)) as (G1 & _ & _). cbn [length]. lia.
Qed.

Lemma frame_modes_len_r t0 r content cns d k si b : Forall explicit_like r ->
  frame (t0 :: r) content cns (mo d k) si = Ok b -> (length content + 2 + 2 * length r <= length b)%nat.
Proof.
  intros Hex He. cbn [frame] in He. unfold mo in He. rewrite Bool.andb_false_r in He. cbn [o_def] in He.
  destruct (frame_one t0 cns (if cns then d else true) si content) as [s0|e] eqn:E0; cbn [bind] in He; [|discriminate].
  pose proof (frame_outer_len_g _ _ _ _ _ _ He Hex) as Hl.
  destruct (frame_one_shape _ _ _ _ _ _ E0) as (l & e & -> & Hl0). pose proof (enc_tag_nonempty t0 cns).
  rewrite !app_length in Hl. lia.
Qed.

(* a container as the encoder framed it, in any mode *)
Lemma container_consumes_m cd (is_set: bool) b0 r d k parts b tvs : dec_ok cd ->
  b0 = utag true (if is_set then 17 else 16) -> Forall explicit_like r ->
  frame (b0 :: r) (concat parts) true (mo d k) true = Ok b ->
  forall f, (2 * length b <= f)%nat ->
  Forall2 (sl_elem_ok_ae (dec_call cd (f - 1 - length r))) parts tvs ->
  (length (concat parts) + 2 + 2 * length r <= length b)%nat /\ hd 0 b <> 0 /\
  forall ae, consumes (dec_call cd f SNone [] None ae false) b (guess_dv is_set (b0 :: r) tvs).
Proof.
  intros Hcd Hb0 Hex Hfr f Hf HF.
  pose proof (sl_elem_ae_count _ _ _ HF) as Hcnt.
  pose proof (frame_modes_len_r _ _ _ _ _ _ _ _ Hex Hfr) as Hlenb.
  assert (Hw: wire b0 true = b0) by (subst b0; reflexivity).
  assert (Hby: exists dcd, by_tag cd [wire b0 true] = Some (dcd, mkDecFlags true None)
                           /\ (dcd = if is_set then DcSetOrSetOf else DcSeqOrSeqOf)).
  { rewrite Hw. subst b0. destruct is_set; destruct cd; eexists; (split; [vm_compute; reflexivity|reflexivity]). }
  destruct Hby as (dcd & Hby & Hdcd).
  assert (Hnz: tcls b0 <> Univ \/ tnum b0 <> 0) by (right; subst b0; destruct is_set; cbn; discriminate).
  replace f with (S (f - 1 - length r) + length r)%nat by lia.
  apply (framed_modes_none cd b0 r true true d k (concat parts) b (f - 1 - length r) dcd _ _ _
           (dec_ok_indef cd Hcd) Hnz Hex Hby (fun _ _ => eq_refl) Hfr); [lia|].
  rewrite Hw. cbn [andb].
  destruct d; cbn [negb].
  - assert (Hdv: dec_value (dec_call cd (f - 1 - length r)) (f - 1 - length r) dcd (mkDecFlags true None) None (b0 :: r)
                   (Some (N.of_nat (length (concat parts)))) false
                 = dec_schemaless (dec_call cd (f - 1 - length r)) (f - 1 - length r) is_set (b0 :: r)
                     (Some (N.of_nat (length (concat parts))))).
    { subst dcd b0. destruct is_set; reflexivity. }
    rewrite Hdv. apply dec_schemaless_consumes; [apply sl_elem_ok_of_ae; exact HF|lia].
  - assert (Hdv: dec_value (dec_call cd (f - 1 - length r)) (f - 1 - length r) dcd (mkDecFlags true None) None (b0 :: r) None false
                 = dec_schemaless (dec_call cd (f - 1 - length r)) (f - 1 - length r) is_set (b0 :: r) None).
    { subst dcd b0. destruct is_set; reflexivity. }
    rewrite Hdv. destruct (f - 1 - length r)%nat as [|f'] eqn:Ef; [lia|].
    apply (dec_schemaless_indef_consumes (dec_call cd (S f')) (eoo_ok_call cd f' Hcd)); [exact HF|lia].
Qed.

(* ---------- the simple types in every mode, no guiding type ---------- *)

Definition sl_val_consumes (cd: codec) (f0: nat) (dcd: dec_codec) (dfl: dec_flags) (ts: tagset)
           (d cns: bool) (content: bytes) (T0: ty) (vdec: val) : Prop :=
  if cns && negb d
  then consumes (dec_value (dec_call cd f0) f0 dcd dfl None ts None false) (content ++ [0; 0]) (DV T0 vdec)
  else consumes (dec_value (dec_call cd f0) f0 dcd dfl None ts (Some (N.of_nat (length content))) false) content (DV T0 vdec).

Definition wire_ts (ts: tagset) (cns: bool) : tagset := match ts with t0 :: r => wire t0 cns :: r | [] => [] end.

Definition sl_leaf_goal (cd: codec) (d: bool) (T: ty) (v: val) (content: bytes) (cns: bool) : Prop :=
  exists dcd dfl vdec, by_tag cd (firstn 1 (tagset_of' T)) = Some (dcd, dfl) /\ abs (sl_ty T) vdec = abs T v /\
    forall f0, N.of_nat (length content) <= index_max -> (length content + 2 <= f0)%nat ->
      sl_val_consumes cd f0 dcd dfl (wire_ts (tagset_of' T) cns) d cns content (sl_ty T) vdec.

Lemma sl_prim_goal cd d T v content vdec : univ_explicit T = true ->
  sl_dec cd T content vdec -> abs (sl_ty T) vdec = abs T v -> sl_leaf_goal cd d T v content false.
Proof.
  intros Hue (dcd & dfl & Hby & Hval) Habs. exists dcd, dfl, vdec. split; [exact Hby|]. split; [exact Habs|].
  intros f0 Hmax Hf. unfold sl_val_consumes. cbn [andb].
  destruct (univ_explicit_shape T Hue) as (t0 & r & _ & Hts & _).
  rewrite (tagset_of'_ok T _ Hts) in *. cbn [wire_ts]. rewrite wire_false.
  apply Hval. split; lia.
Qed.

(* segmented OCTET STRING / character string contents, definite or indefinite *)
Lemma chunked_octets_none cd f0 dcd dfl ts d bs pieces ps T0 :
  dec_ok cd -> (dcd = DcOcts \/ dcd = DcStr) -> df_constructed dfl = true -> tag0_simple ts = false ->
  (forall proto, proto = (match df_proto dfl with Some (KStr n) => TStr n | _ => TOcts end) ->
                 create None proto ts (VOcts bs) = Ret (DV T0 (VOcts bs))) ->
  concat pieces = bs -> Forall2 (fun piece p => frame_piece 4 piece = Ok p) pieces ps ->
  N.of_nat (length (concat ps)) <= index_max -> (length (concat ps) + 2 <= f0)%nat ->
  sl_val_consumes cd f0 dcd dfl ts d true (concat ps) T0 (VOcts bs).
Proof.
  intros Hcd Hdcd Hcf Hts Hcreate Hcat HF Hmax Hf.
  destruct f0 as [|f']; [lia|].
  pose proof (pieces_length 4 (fun x => x) pieces ps ltac:(discriminate) HF) as Hcount.
  assert (Hfr: forall ae, Forall2 (frag_o (dec_call cd (S f')) ae) pieces ps).
  { intros ae. apply (Forall2_impl_in _ _ _ _ (fun piece p Hin Hp =>
      frag_octets cd (S f') piece p ae Hcd Hp
        ltac:(pose proof (in_concat_le p ps Hin); lia) ltac:(pose proof (in_concat_le p ps Hin); lia)) HF). }
  set (proto := match df_proto dfl with Some (KStr n) => TStr n | _ => TOcts end).
  specialize (Hcreate proto eq_refl).
  unfold sl_val_consumes. destruct d; cbn [andb negb].
  - intros s tl Hav.
    assert (Hdv: dec_value (dec_call cd (S f')) (S f') dcd dfl None ts (Some (N.of_nat (length (concat ps)))) false
                 = dec_octets (dec_call cd (S f')) (S f') proto dfl None ts
                              (N.of_nat (length (concat ps))) false)
      by (destruct Hdcd as [-> | ->]; reflexivity).
    rewrite Hdv. unfold dec_octets. rewrite Hts, Hcf. cbn [negb]. rewrite resume_tell.
    destruct (octets_loop_run (dec_call cd (S f')) proto None ts pieces ps (Hfr false) (S f') [] (pos s)
                (length (concat ps)) s tl ltac:(lia) Hav ltac:(lia) ltac:(lia)) as (s' & Hrun & Hpos & Harr & Hcl).
    exists s'. rewrite Hrun. cbn [app]. rewrite Hcat, Hcreate. cbn [resume]. repeat split; assumption.
  - intros s tl Hav. rewrite <- app_assoc in Hav.
    assert (Hdv: dec_value (dec_call cd (S f')) (S f') dcd dfl None ts None false
                 = dec_octets_indef (dec_call cd (S f')) (S f') proto None ts)
      by (destruct Hdcd as [-> | ->]; reflexivity).
    rewrite Hdv. unfold dec_octets_indef.
    destruct (octets_indef_run (dec_call cd (S f')) (eoo_ok_call cd f' Hcd) proto None ts pieces ps (Hfr true) (S f') []
                s tl ltac:(lia) Hav) as (s' & Hrun & Hpos & Harr & Hcl).
    exists s'. rewrite Hrun. cbn [app]. rewrite Hcat, Hcreate. cbn [resume]. rewrite app_length. cbn [length].
    repeat split; try assumption. lia.
Qed.

(* segmented BIT STRING contents, definite or indefinite *)
Lemma chunked_bits_none cd f0 dfl ts d bs pieces ps T0 :
  dec_ok cd -> df_constructed dfl = true -> tag0_simple ts = false ->
  create None TBits ts (VBits bs) = Ret (DV T0 (VBits bs)) ->
  concat pieces = bs -> pieces <> [] ->
  Forall2 (fun piece p => frame_piece 3 (enc_bits_prim piece) = Ok p) pieces ps ->
  N.of_nat (length (concat ps)) <= index_max -> (length (concat ps) + 2 <= f0)%nat ->
  sl_val_consumes cd f0 DcBits dfl ts d true (concat ps) T0 (VBits bs).
Proof.
  intros Hcd Hcf Hts Hcreate Hcat Hne HF Hmax Hf.
  destruct f0 as [|f']; [lia|].
  pose proof (pieces_length 3 enc_bits_prim pieces ps ltac:(discriminate) HF) as Hcount.
  assert (Hfr: forall ae, Forall2 (frag_b (dec_call cd (S f')) ae) pieces ps).
  { intros ae. apply (Forall2_impl_in _ _ _ _ (fun piece p Hin Hp =>
      frag_bits cd (S f') piece p ae Hcd Hp
        ltac:(pose proof (in_concat_le p ps Hin); lia) ltac:(pose proof (in_concat_le p ps Hin); lia)) HF). }
  unfold sl_val_consumes. destruct d; cbn [andb negb].
  - intros s tl Hav. cbn [dec_value]. unfold dec_bits.
    rewrite Hts, Hcf. cbn [negb]. rewrite resume_tell.
    destruct (bits_loop_run (dec_call cd (S f')) None ts pieces ps (Hfr false) (S f') [] (pos s)
                (length (concat ps)) s tl ltac:(lia) Hav ltac:(lia) ltac:(lia)) as (s' & Hrun & Hpos & Harr & Hcl).
    exists s'. rewrite Hrun. cbn [app]. rewrite Hcat, Hcreate. cbn [resume]. repeat split; assumption.
  - intros s tl Hav. rewrite <- app_assoc in Hav. cbn [dec_value]. unfold dec_bits_indef.
    destruct (bits_indef_run (dec_call cd (S f')) (eoo_ok_call cd f' Hcd) None ts pieces ps (Hfr true) (S f') []
                s tl ltac:(lia) Hav) as (s' & Hrun & Hpos & Harr & Hcl).
    exists s'. rewrite Hrun. cbn [app]. rewrite Hcat, Hcreate. cbn [resume]. rewrite app_length. cbn [length].
    repeat split; try assumption. lia.
Qed.

(* the constructed form of a string type carries the same tag as far as the tag map and the guessed
   type are concerned *)
Lemma tag_eqb_wire b0 cns : tag_eqb b0 (wire b0 cns) = true.
Proof. unfold tag_eqb, wire. cbn [tcls tnum]. rewrite cls_eqb_refl, N.eqb_refl. reflexivity. Qed.

Lemma schemaless_ty_wire B b0 cns r : tagset_of B = Ok [b0] ->
  schemaless_ty B (wire b0 cns :: r) = schemaless_ty B (b0 :: r).
Proof. intros H. unfold schemaless_ty, tagset_of'. rewrite H, tag_eqb_wire, tag_eqb_refl. reflexivity. Qed.

Lemma by_tag_wire cd b0 cns : by_tag cd [wire b0 cns] = by_tag cd [b0].
Proof. reflexivity. Qed.

(* the string decoders registered in the tag maps of the BER and CER decoders read the constructed form *)
Definition dec_tag_row_ok (x: tkey * dec_codec * dec_flags) : bool :=
  match snd (fst x) with DcStr | DcOcts | DcBits => df_constructed (snd x) | _ => true end.
Lemma dec_tag_rows cd : dec_ok cd -> forallb dec_tag_row_ok (dec_tag_map cd) = true.
Proof. intros [-> | ->]; vm_compute; reflexivity. Qed.

Lemma sl_string_constructed cd n : dec_ok cd -> sl_string cd n = true ->
  exists fl, by_tag cd [utag false n] = Some (DcStr, fl) /\ df_proto fl = Some (KStr n) /\ df_constructed fl = true.
Proof.
  intros Hcd Hs. unfold sl_string in Hs.
  destruct (by_tag cd [utag false n]) as [[dcd dfl]|] eqn:Eb; [|discriminate].
  destruct dcd; try discriminate.
  destruct (df_proto dfl) as [kk|] eqn:Ep; [|discriminate]. destruct kk; try discriminate.
  apply N.eqb_eq in Hs. subst n0.
  exists dfl. split; [reflexivity|]. split; [exact Ep|].
  unfold by_tag in Eb.
  destruct (key_of_univ_tag (utag false n)) as [kk|] eqn:Ek; [|discriminate].
  destruct (lookup3_in _ _ _ _ Eb) as (k' & Hin & Hk).
  pose proof (dec_tag_rows cd Hcd) as Hrows. rewrite forallb_forall in Hrows. exact (Hrows _ Hin).
Qed.

(* what the tag-selected value decoder builds for a string type met in constructed form *)
Lemma create_none_string T B b0 r v : univ_explicit T = true -> base_of T = B -> sl_proto B = B ->
  tagset_of B = Ok [b0] -> tagset_of T = Ok (b0 :: r) ->
  (match B, v with
   | TStr n, VOcts b => str_octets_ok n b = Some true
   | TBool, VInt _ => False
   | _, _ => True end) ->
  create None B (wire b0 true :: r) v = Ret (DV (sl_ty T) v).
Proof.
  intros Hue Hb Hp HB Hts Hv. unfold create.
  rewrite (schemaless_ty_wire B b0 true r HB).
  assert (E: schemaless_ty B (b0 :: r) = sl_ty T).
  { unfold sl_ty. rewrite (tagset_of'_ok T _ Hts), Hb, Hp. reflexivity. }
  rewrite E. destruct (sl_ty_facts T Hue) as [_ Hbase]. rewrite Hbase, Hb, Hp.
  destruct B; try reflexivity.
  - destruct v; try reflexivity. destruct Hv.
  - destruct v; try reflexivity. rewrite Hv. reflexivity.
Qed.

Lemma sl_leaf_modes ce cd d k T v ec fl content cns :
  dec_ok cd -> univ_explicit T = true -> stage1_val ce cd T v = true ->
  concrete_encoder ce T = Ok (ec, fl) -> enc_content ce T ec fl (mo d k) v = Ok (content, cns) ->
  (six T = true -> cns = false) /\ (six T = false -> ef_indef fl = true) /\ sl_leaf_goal cd d T v content cns.
Proof.
  intros Hcd Hue Hs Hce Hcont.
  destruct (leaf_modes ce cd d k T v ec fl content cns Hcd Hs Hce Hcont) as (H6 & Hn6 & _).
  split; [exact H6|]. split; [exact Hn6|].
  destruct (sl_ty_facts T Hue) as [_ Hbase].
  assert (Habs0: forall w, abs (sl_ty T) w = abs (sl_proto (base_of T)) w) by (intros w; rewrite abs_wrappers, Hbase; reflexivity).
  destruct (univ_explicit_shape T Hue) as (b0 & r & Hb0 & Hts & Hc0 & Hu & Hex).
  rewrite concrete_encoder_base in Hce. rewrite enc_content_base in Hcont.
  unfold stage1_val in Hs.
  pose proof (ce0_ok ce) as Hce0.
  assert (Hwts: wire_ts (tagset_of' T) true = wire b0 true :: r) by (rewrite (tagset_of'_ok T _ Hts); reflexivity).
  assert (Hf1: firstn 1 (tagset_of' T) = [b0]) by (rewrite (tagset_of'_ok T _ Hts); reflexivity).
  destruct (base_of T) eqn:Hb; destruct v as [bb|z|bs|bo|cs| |arcs|rr|vfs|xs|i x|ab]; try discriminate Hs;
    cbn [sl_proto] in Habs0.
  - (* BOOLEAN *)
    assert (Hc: cns = false /\ content = [bool_octet (ce0 ce) bb]).
    { destruct ce; vm_compute in Hce; inversion Hce; subst ec fl; cbn [enc_content] in Hcont; inversion Hcont; subst;
        (split; [reflexivity|destruct bb; reflexivity]). }
    destruct Hc as [-> ->].
    apply (sl_prim_goal cd d T _ _ (VBool bb) Hue); [|rewrite Habs0, (abs_wrappers T), Hb; reflexivity].
    exact (sl_bool (ce0 ce) cd T bb Hce0 Hue Hb (bool_compat_ce0 ce cd bb Hs)).
  - (* INTEGER *)
    assert (Hc: cns = false /\ content = enc_integer false z).
    { destruct ce; vm_compute in Hce; inversion Hce; subst ec fl; cbn [enc_content ef_compact_zero] in Hcont; inversion Hcont; subst;
        (split; reflexivity). }
    destruct Hc as [-> ->].
    apply (sl_prim_goal cd d T _ _ (VInt z) Hue); [|rewrite Habs0, (abs_wrappers T), Hb; reflexivity].
    exact (sl_int cd T z Hue (or_introl Hb)).
  - (* ENUMERATED *)
    assert (Hc: cns = false /\ content = enc_integer false z).
    { destruct ce; vm_compute in Hce; inversion Hce; subst ec fl; cbn [enc_content ef_compact_zero] in Hcont; inversion Hcont; subst;
        (split; reflexivity). }
    destruct Hc as [-> ->].
    apply (sl_prim_goal cd d T _ _ (VInt z) Hue); [|rewrite Habs0, (abs_wrappers T), Hb; reflexivity].
    exact (sl_int cd T z Hue (or_intror Hb)).
  - (* BIT STRING *)
    assert (Hc: exists o', enc_bits o' bs = Ok (content, cns)).
    { destruct ce; vm_compute in Hce; inversion Hce; subst ec fl; cbn [enc_content] in Hcont; eexists; exact Hcont. }
    destruct Hc as [o' Hc].
    destruct (enc_bits_cases _ _ _ _ Hc) as [[-> ->]|(-> & pieces & ps & Hcat & Hne & HF & ->)].
    + apply (sl_prim_goal cd d T _ _ (VBits bs) Hue); [|rewrite Habs0, (abs_wrappers T), Hb; reflexivity].
      exact (sl_bits cd T bs Hue Hb).
    + cbn [tagset_of] in Hb0. inversion Hb0; subst b0.
      assert (Hby: exists dfl, by_tag cd [utag false 3] = Some (DcBits, dfl) /\ df_constructed dfl = true).
      { destruct Hcd as [-> | ->]; (eexists; split; [vm_compute; reflexivity | vm_compute; reflexivity]). }
      destruct Hby as (dfl & Hby & Hcf).
      exists DcBits, dfl, (VBits bs). split; [rewrite Hf1; exact Hby|]. split; [rewrite Habs0, (abs_wrappers T), Hb; reflexivity|].
      intros f0 Hmax Hf. rewrite Hwts.
      apply (chunked_bits_none cd f0 dfl _ d bs pieces ps (sl_ty T) Hcd Hcf (wire_true_not_simple _ r)); try assumption.
      apply (create_none_string T TBits (utag false 3) r (VBits bs) Hue Hb eq_refl eq_refl Hts I).
  - (* OCTET STRING *)
    assert (Hc: exists o', enc_octets_like o' (VOcts bo) = Ok (content, cns)).
    { destruct ce; vm_compute in Hce; inversion Hce; subst ec fl; cbn [enc_content] in Hcont; eexists; exact Hcont. }
    destruct Hc as [o' Hc].
    destruct (enc_octets_like_cases _ _ _ _ Hc) as [[-> ->]|(-> & pieces & ps & Hcat & HF & ->)].
    + apply (sl_prim_goal cd d T _ _ (VOcts bo) Hue); [|rewrite Habs0, (abs_wrappers T), Hb; reflexivity].
      exact (sl_octets cd T bo Hue Hb).
    + cbn [tagset_of] in Hb0. inversion Hb0; subst b0.
      assert (Hby: exists dfl, by_tag cd [utag false 4] = Some (DcOcts, dfl) /\ df_constructed dfl = true /\ df_proto dfl = Some KOcts).
      { destruct Hcd as [-> | ->]; eexists; repeat split; vm_compute; reflexivity. }
      destruct Hby as (dfl & Hby & Hcf & Hpr).
      exists DcOcts, dfl, (VOcts bo). split; [rewrite Hf1; exact Hby|]. split; [rewrite Habs0, (abs_wrappers T), Hb; reflexivity|].
      intros f0 Hmax Hf. rewrite Hwts.
      apply (chunked_octets_none cd f0 DcOcts dfl _ d bo pieces ps (sl_ty T) Hcd (or_introl eq_refl) Hcf (wire_true_not_simple _ r));
        try assumption.
      intros proto ->. rewrite Hpr.
      apply (create_none_string T TOcts (utag false 4) r (VOcts bo) Hue Hb eq_refl eq_refl Hts I).
  - (* NULL *)
    assert (Hc: cns = false /\ content = []).
    { destruct ce; vm_compute in Hce; inversion Hce; subst ec fl; cbn [enc_content] in Hcont; inversion Hcont; subst;
        (split; reflexivity). }
    destruct Hc as [-> ->].
    apply (sl_prim_goal cd d T _ _ VNull Hue); [|rewrite Habs0, (abs_wrappers T), Hb; reflexivity].
    exact (sl_null cd T Hue Hb).
  - (* OBJECT IDENTIFIER *)
    assert (Hc: cns = false /\ enc_oid arcs = Ok content).
    { destruct ce; vm_compute in Hce; inversion Hce; subst ec fl; cbn [enc_content] in Hcont;
        (destruct (enc_oid arcs) as [c0|]; cbn [bind] in Hcont; [|discriminate]); inversion Hcont; subst; (split; reflexivity). }
    destruct Hc as [-> Eo].
    apply (sl_prim_goal cd d T _ _ (VOid arcs) Hue); [|rewrite Habs0, (abs_wrappers T), Hb; reflexivity].
    exact (sl_oid cd T arcs content Hue Hb Eo).
  - (* REAL *)
    assert (Hc: cns = false /\ enc_real rr = Ok content).
    { destruct ce; vm_compute in Hce; inversion Hce; subst ec fl; cbn [enc_content] in Hcont;
        (destruct (enc_real rr) as [c0|]; cbn [bind] in Hcont; [|discriminate]); inversion Hcont; subst; (split; reflexivity). }
    destruct Hc as [-> Er].
    destruct rr as [| |m e|m e|]; try discriminate Hs.
    + destruct real_roundtrip_special as [[E1 D1] _]. rewrite E1 in Er. inversion Er; subst.
      apply (sl_prim_goal cd d T _ _ (VReal RPInf) Hue); [|rewrite Habs0, (abs_wrappers T), Hb; reflexivity].
      exact (sl_real cd T [64] RPInf Hue Hb D1).
    + destruct real_roundtrip_special as [_ [[E1 D1] _]]. rewrite E1 in Er. inversion Er; subst.
      apply (sl_prim_goal cd d T _ _ (VReal RNInf) Hue); [|rewrite Habs0, (abs_wrappers T), Hb; reflexivity].
      exact (sl_real cd T [65] RNInf Hue Hb D1).
    + assert (Hm: m <> 0%Z) by (destruct (Z.eqb_spec m 0); [discriminate|assumption]).
      destruct (real_roundtrip_bin m e content Hm Er) as (r' & Hd & Habs).
      apply (sl_prim_goal cd d T _ _ (VReal r') Hue).
      * exact (sl_real cd T content r' Hue Hb Hd).
      * rewrite Habs0, (abs_wrappers T), Hb. cbn [abs]. rewrite Habs. reflexivity.
  - (* character and useful strings *)
    apply Bool.andb_true_iff in Hs. destruct Hs as [Hk Hok].
    destruct (str_octets_ok n bo) as [[|]|] eqn:Eok; try discriminate.
    pose proof (known_string_sl ce cd n Hk) as Hsl.
    unfold known_string in Hk. apply Bool.andb_true_iff in Hk. destruct Hk as [Hk1 Hk2].
    destruct (lookup3 (KStr n) (enc_type_map ce)) as [[ec' ef]|] eqn:Ele; [|discriminate].
    destruct ec'; try discriminate.
    unfold concrete_encoder in Hce. cbn [key_of base_of] in Hce. rewrite Ele in Hce. inversion Hce; subst ec fl; clear Hce.
    cbn [enc_content] in Hcont.
    destruct (enc_octets_like_cases _ _ _ _ Hcont) as [[-> ->]|(-> & pieces & ps & Hcat & HF & ->)].
    + apply (sl_prim_goal cd d T _ _ (VOcts bo) Hue); [|rewrite Habs0, (abs_wrappers T), Hb; reflexivity].
      exact (sl_str cd T n bo Hue Hb Hsl Eok).
    + cbn [tagset_of] in Hb0. inversion Hb0; subst b0.
      destruct (sl_string_constructed cd n Hcd Hsl) as (dfl & Hby & Hpr & Hcf).
      exists DcStr, dfl, (VOcts bo). split; [rewrite Hf1; exact Hby|]. split; [rewrite Habs0, (abs_wrappers T), Hb; reflexivity|].
      intros f0 Hmax Hf. rewrite Hwts.
      apply (chunked_octets_none cd f0 DcStr dfl _ d bo pieces ps (sl_ty T) Hcd (or_intror eq_refl) Hcf (wire_true_not_simple _ r));
        try assumption.
      intros proto ->. rewrite Hpr.
      apply (create_none_string T (TStr n) (utag false n) r (VOcts bo) Hue Hb eq_refl eq_refl Hts Eok).
Qed.

(* ---------- what the induction establishes for one item, in a given mode ---------- *)

Definition sl_item_m (R: sk -> sk -> Prop) (ce cd: codec) (d: bool) (k: N) (T: ty) (v: val) : Prop :=
  forall b, enc_with ce (enc_content ce) T (mo d k) v = Ok b -> N.of_nat (length b) <= index_max ->
  (2 <= length b)%nat /\ hd 0 b <> 0 /\
  exists T0 v0,
    tagset_of T0 = tagset_of T /\ not_choice T0
    /\ R (skel T v) (skel T0 v0)
    /\ enc_with DER (enc_content DER) T0 def_opts v0 = enc_with DER (enc_content DER) T def_opts v
    /\ forall f ae, (2 * length b <= f)%nat -> consumes (dec_call cd f SNone [] None ae false) b (DV T0 v0).

(* the guessed leaf: same tags, same abstract content, same DER encoding *)
Lemma leaf_res R perm ce cd T v vdec : skrel_ok R perm -> univ_explicit T = true -> stage1_val ce cd T v = true ->
  abs (sl_ty T) vdec = abs T v ->
  tagset_of (sl_ty T) = tagset_of T /\ not_choice (sl_ty T) /\ R (skel T v) (skel (sl_ty T) vdec)
  /\ enc_with DER (enc_content DER) (sl_ty T) def_opts vdec = enc_with DER (enc_content DER) T def_opts v.
Proof.
  intros HR Hue Hs Habs.
  destruct (sl_ty_facts T Hue) as [Htags Hbase].
  pose proof (univ_explicit_prim T Hue) as Hp.
  split; [exact Htags|]. split; [apply sl_ty_not_choice; exact Hue|]. split.
  { rewrite (skel_leaf T v Hp).
    assert (Hp0: prim_base (sl_ty T) = true).
    { unfold prim_base. rewrite Hbase. unfold prim_base in Hp. destruct (base_of T); try discriminate Hp; reflexivity. }
    rewrite (skel_leaf (sl_ty T) vdec Hp0), Habs. unfold tagset_of'. rewrite Htags. apply (sr_refl R perm HR). }
  apply enc_with_congr.
  - rewrite (concrete_encoder_base DER (sl_ty T)), (concrete_encoder_base DER T), Hbase.
    unfold prim_base in Hp. destruct (base_of T); try discriminate Hp; reflexivity.
  - exact Htags.
  - intros ec fl o'. rewrite Hbase. apply (leaf_content_abs ce cd T v vdec ec fl o' Hs).
    rewrite <- Hbase, <- (abs_wrappers (sl_ty T) vdec), <- (abs_wrappers T v). exact Habs.
Qed.

Lemma univ_explicit_n T : univ_explicit T = true -> forall ts, tagset_of T = Ok ts -> length ts = S (n_explicit T).
Proof.
  induction T as [| | | | | | | | n|fs IH|fs IH|t IH|t IH|alts IH| |tg x IH|tg x IH] using ty_ind';
    intros H ts Hts; try discriminate H; try (cbn [tagset_of] in Hts; inversion Hts; reflexivity).
  cbn [univ_explicit] in H. apply Bool.andb_true_iff in H. destruct H as [Hcl H2].
  cbn [tagset_of] in Hts. destruct (tagset_of x) as [tx|e] eqn:Ex; cbn [bind] in Hts; [|discriminate].
  unfold tag_explicitly in Hts. destruct (tcls tg); [discriminate Hcl| | |]; inversion Hts; subst;
    rewrite app_length; cbn [length n_explicit]; rewrite (IH H2 tx eq_refl); lia.
Qed.

Lemma leaf_item_m R perm ce cd d k T v : skrel_ok R perm -> stable ce d k -> dec_ok cd ->
  univ_explicit T = true -> (d = false -> f01_class T = false) -> stage1_val ce cd T v = true ->
  sl_item_m R ce cd d k T v.
Proof.
  intros HR Hst Hcd Hue Hf01 Hs b He Hmax.
  destruct (enc_with_inv_g ce T d k v b Hst He) as (ec & fl & ts & content & cns & Hce & Hts' & Hcont & Hfr).
  destruct (univ_explicit_shape T Hue) as (b0 & r & Hb0 & Hts & Hc0 & Hu & Hex).
  rewrite Hts in Hts'. inversion Hts'; subst ts; clear Hts'.
  destruct (sl_leaf_modes ce cd d k T v ec fl content cns Hcd Hue Hs Hce Hcont) as (Hsix & Hnsix & dcd & dfl & vdec & Hby & Habs & Hval).
  rewrite (tagset_of'_ok T _ Hts) in Hby, Hval. cbn [firstn wire_ts] in Hby, Hval.
  assert (Hb0n: tnum b0 <> 0).
  { apply (base_tag_nz T b0 Hb0). intros n Hbn. unfold stage1_val in Hs. rewrite Hbn in Hs.
    destruct v; try discriminate Hs. apply Bool.andb_true_iff in Hs. destruct Hs as [Hk _].
    unfold known_string in Hk. apply Bool.andb_true_iff in Hk. destruct Hk as [Hk _].
    destruct (lookup3 (KStr n) (enc_type_map ce)) as [[ec' ef]|] eqn:Ele; [|discriminate].
    destruct ec'; try discriminate. exact (proj2 (enc_str_flag ce n ef Ele)). }
  pose proof (univ_explicit_n T Hue _ Hts) as Hne. cbn [length] in Hne.
  assert (Hmode: d = false -> cns = true \/ r <> [] -> ef_indef fl = true).
  { intros Hd0 Hor. destruct (six T) eqn:E6; [|exact (Hnsix eq_refl)].
    exfalso. specialize (Hsix eq_refl). destruct Hor as [Hc|Hr]; [congruence|].
    specialize (Hf01 Hd0). unfold f01_class in Hf01. rewrite E6 in Hf01. cbn [andb] in Hf01.
    apply Bool.negb_false_iff in Hf01. apply Nat.eqb_eq in Hf01. destruct r; [congruence|]. cbn [length] in Hne. lia. }
  pose proof (frame_modes_len_r _ _ _ _ _ _ _ _ Hex Hfr) as Hlen.
  assert (Hgen: forall f, (2 * length b <= f)%nat -> hd 0 b <> 0 /\
            forall ae, consumes (dec_call cd f SNone [] None ae false) b (DV (sl_ty T) vdec)).
  { intros f Hf.
    replace f with (S (f - 1 - length r) + length r)%nat by lia.
    refine (proj2 (framed_modes_none cd b0 r cns (ef_indef fl) d k content b (f - 1 - length r) dcd dfl (sl_ty T) vdec
             (dec_ok_indef cd Hcd) (or_intror Hb0n) Hex Hby Hmode Hfr ltac:(lia) _)).
    apply (Hval (f - 1 - length r)%nat); lia. }
  split; [lia|]. split; [exact (proj1 (Hgen (2 * length b)%nat ltac:(lia)))|].
  destruct (leaf_res R perm ce cd T v vdec HR Hue Hs Habs) as (H1 & H2 & H3 & H4).
  exists (sl_ty T), vdec. split; [exact H1|]. split; [exact H2|]. split; [exact H3|]. split; [exact H4|].
  intros f ae Hf. exact (proj2 (Hgen f Hf) ae).
Qed.

(* ---------- containers as lists of members, encoded with given options ---------- *)

Definition enc_members_o (c: codec) (o: eopts) : list (ty * val) -> res (list bytes) :=
  fix go (ms: list (ty * val)) : res (list bytes) :=
  match ms with
  | [] => Ok []
  | m :: r => do p <- enc_with c (enc_content c) (fst m) o (snd m); do ps <- go r; Ok (p :: ps)
  end.

Definition enc_members_ko (c: codec) (o: eopts) (dyn: bool) : list (ty * val) -> res (list (tagset * bytes)) :=
  fix go (ms: list (ty * val)) : res (list (tagset * bytes)) :=
  match ms with
  | [] => Ok []
  | m :: r => do b <- enc_with c (enc_content c) (fst m) o (snd m); do rest <- go r;
              Ok ((set_sort_key dyn (fst m) (snd m), b) :: rest)
  end.

Lemma enc_members_o_of_k c o dyn : forall ms,
  enc_members_o c o ms = (do kps <- enc_members_ko c o dyn ms; Ok (map snd kps)).
Proof.
  induction ms as [|m ms IH]; [reflexivity|]. cbn [enc_members_o enc_members_ko].
  destruct (enc_with c (enc_content c) (fst m) o (snd m)) as [p|e]; cbn [bind]; [|reflexivity].
  rewrite IH. destruct (enc_members_ko c o dyn ms) as [kps|e]; cbn [bind]; reflexivity.
Qed.

Lemma elems_members_o c o t : forall xs, elems_c c t o xs = enc_members_o c o (map (pair t) xs).
Proof.
  induction xs as [|x xs IH]; [reflexivity|]. cbn [elems_c map enc_members_o fst snd]. rewrite IH. reflexivity.
Qed.

Lemma fields_members_o c cd omit d k : forall fs vs, rec_full fs vs = true ->
  fields_c c cd omit (mo d k) fs vs
  = enc_members_ko c (mo d k) (match cd with EcSetDer => true | _ => false end) (rec_members fs vs).
Proof.
  induction fs as [|[p ft] fs IH]; intros vs Hf.
  - destruct vs; [reflexivity|discriminate Hf].
  - destruct vs as [|[x|] vs]; try discriminate Hf.
    change (rec_full ((p, ft) :: fs) (Some x :: vs)) with (is_req p && rec_full fs vs)%bool in Hf.
    apply Bool.andb_true_iff in Hf. destruct Hf as [Hp Hf]. destruct p; try discriminate Hp.
    change (rec_members ((Req, ft) :: fs) (Some x :: vs)) with ((ft, x) :: rec_members fs vs).
    cbn [enc_members_ko fst snd]. rewrite <- (IH vs Hf).
    destruct omit; reflexivity.
Qed.

Definition item_res_m := item_res.

Lemma members_item_m R ce cd d k : forall ms, Forall (fun m => sl_item_m R ce cd d k (fst m) (snd m)) ms ->
  forall parts, enc_members_o ce (mo d k) ms = Ok parts -> N.of_nat (length (concat parts)) <= index_max ->
  exists tvs, Forall2 (item_res R) ms tvs /\
    forall f, (2 * length (concat parts) <= f)%nat -> Forall2 (sl_elem_ok_ae (dec_call cd f)) parts tvs.
Proof.
  induction 1 as [|m ms Hm _ IH]; intros parts He Hmax.
  - inversion He; subst. exists []. split; [constructor|]. intros f _. constructor.
  - cbn [enc_members_o] in He.
    destruct (enc_with ce (enc_content ce) (fst m) (mo d k) (snd m)) as [p|e] eqn:Ep; cbn [bind] in He; [|discriminate].
    destruct (enc_members_o ce (mo d k) ms) as [ps|e] eqn:Eps; cbn [bind] in He; [|discriminate].
    inversion He; subst parts; clear He.
    cbn [concat] in Hmax. rewrite app_length in Hmax.
    destruct (Hm p Ep ltac:(lia)) as (Hpl & _ & T0 & v0 & Hts & Hnc & Hsk & Hder & Hcons).
    destruct (IH ps eq_refl ltac:(lia)) as (tvs & HF & Hcs).
    exists ((T0, v0) :: tvs). split.
    + constructor; [|exact HF]. unfold item_res, skelm. cbn [fst snd]. repeat split; assumption.
    + intros f Hf. cbn [concat] in Hf. rewrite app_length in Hf. constructor.
      * split; [|lia]. cbn [fst snd]. intros ae. apply Hcons. lia.
      * apply Hcs. lia.
Qed.

(* everything about a container of the fragment in a given mode, given its members and how DER arranges them *)
Lemma container_item_m R perm ce cd d k T' (is_set: bool) v ms b0 r arr : skrel_ok R perm -> dec_ok cd ->
  tagset_of T' = Ok (b0 :: r) -> b0 = utag true (if is_set then 17 else 16) -> Forall explicit_like r ->
  skel T' v = SNode (b0 :: r) (map skelm ms) ->
  enc_with DER (enc_content DER) T' def_opts v = der_container (b0 :: r) arr ms ->
  (forall b, enc_with ce (enc_content ce) T' (mo d k) v = Ok b ->
     exists ms' parts, wire_members perm (b0 :: r) is_set arr ms ms'
       /\ enc_members_o ce (mo d k) ms' = Ok parts /\ frame (b0 :: r) (concat parts) true (mo d k) true = Ok b) ->
  Forall (fun m => sl_item_m R ce cd d k (fst m) (snd m)) ms ->
  sl_item_m R ce cd d k T' v.
Proof.
  intros HR Hcd Hts Hb0 Hex Hsk Hder Hinv Hms b He Hmax.
  destruct (Hinv b He) as (ms' & parts & [Hord Harr] & Hm & Hfr).
  pose proof (frame_modes_len_r _ _ _ _ _ _ _ _ Hex Hfr) as Hlen.
  assert (Hms': Forall (fun m => sl_item_m R ce cd d k (fst m) (snd m)) ms').
  { destruct Hord as [-> | (_ & _ & Hp)]; [exact Hms|exact (perm_Forall _ _ _ Hp Hms)]. }
  destruct (members_item_m R ce cd d k ms' Hms' parts Hm ltac:(lia)) as (tvs & HF & Hcons).
  assert (Hgen: forall f, (2 * length b <= f)%nat -> hd 0 b <> 0 /\
            forall ae, consumes (dec_call cd f SNone [] None ae false) b (guess_dv is_set (b0 :: r) tvs)).
  { intros f Hf. refine (proj2 (container_consumes_m cd is_set b0 r d k parts b tvs Hcd Hb0 Hex Hfr f Hf _)).
    apply Hcons. lia. }
  split; [lia|]. split; [exact (proj1 (Hgen (2 * length b)%nat ltac:(lia)))|].
  destruct (guess_props is_set b0 r tvs Hb0 Hex (item_res_not_choice R ms' tvs HF)) as (Hts0 & Hn0 & Hsk0 & Hder0).
  exists (schemaless_ty (guess_proto is_set tvs) (b0 :: r)), (guess_val is_set tvs).
  split; [rewrite Hts0, Hts; reflexivity|]. split; [exact Hn0|]. split.
  { rewrite Hsk0, Hsk. pose proof (item_res_skel R ms' tvs HF) as HF2.
    destruct Hord as [-> | (Hperm & His & Hp)].
    - apply (sr_node R perm HR). exact HF2.
    - apply (sr_perm R perm HR Hperm (b0 :: r) (map skelm ms) (map skelm ms') (map skelm tvs)).
      + subst b0. rewrite His. reflexivity.
      + apply Permutation_map. exact Hp.
      + exact HF2. }
  split.
  { rewrite Hder0, Hder. exact (Harr tvs (item_res_der R ms' tvs HF) (item_res_tags R ms' tvs HF)). }
  intros f ae Hf. exact (proj2 (Hgen f Hf) ae).
Qed.

(* ---------- inverting the encoder on containers, any mode, no re-ordering ---------- *)

Lemma enc_listof_inv_m ce d k T t (is_set: bool) xs b0 r b : stable ce d k ->
  base_of T = (if is_set then TSetOf t else TSeqOf t) -> (is_set = true -> ce = BER) ->
  tagset_of T = Ok (b0 :: r) ->
  enc_with ce (enc_content ce) T (mo d k) (VList xs) = Ok b ->
  exists parts, enc_members_o ce (mo d k) (map (pair t) xs) = Ok parts
                /\ frame (b0 :: r) (concat parts) true (mo d k) true = Ok b.
Proof.
  intros Hst Hb Hset Hts He.
  destruct (enc_with_inv_g ce T d k _ b Hst He) as (ec & fl & ts & content & cns & Hcenc & Hts' & Hcont & Hfr).
  rewrite Hts in Hts'. inversion Hts'; subst ts; clear Hts'.
  rewrite concrete_encoder_base in Hcenc. rewrite enc_content_base in Hcont. rewrite Hb in Hcenc, Hcont.
  assert (Hfin: exists parts, enc_members_o ce (mo d k) (map (pair t) xs) = Ok parts /\ content = concat parts /\ cns = true /\ ef_indef fl = true).
  { destruct is_set.
    - rewrite (Hset eq_refl) in *. vm_compute in Hcenc. inversion Hcenc; subst ec fl; clear Hcenc.
      rewrite enc_content_setof_g, elems_members_o in Hcont.
      destruct (enc_members_o BER (mo d k) (map (pair t) xs)) as [parts|e]; cbn [bind listof_finish] in Hcont; [|discriminate].
      inversion Hcont; subst. exists parts. repeat split.
    - destruct ce; vm_compute in Hcenc; inversion Hcenc; subst ec fl; clear Hcenc;
        rewrite enc_content_seqof_g, elems_members_o in Hcont;
        (destruct (enc_members_o _ (mo d k) (map (pair t) xs)) as [parts|e]; cbn [bind listof_finish] in Hcont; [|discriminate]);
        inversion Hcont; subst; exists parts; repeat split. }
  destruct Hfin as (parts & Hm & -> & -> & Hsi). rewrite Hsi in Hfr. exists parts. split; assumption.
Qed.

Lemma enc_record_inv_m ce d k T fs (is_set: bool) vs b0 r b : stable ce d k ->
  base_of T = (if is_set then TSet fs else TSeq fs) -> (is_set = true -> ce = BER) ->
  rec_full fs vs = true -> tagset_of T = Ok (b0 :: r) ->
  enc_with ce (enc_content ce) T (mo d k) (VRec vs) = Ok b ->
  exists parts, enc_members_o ce (mo d k) (rec_members fs vs) = Ok parts
                /\ frame (b0 :: r) (concat parts) true (mo d k) true = Ok b.
Proof.
  intros Hst Hb Hset Hfull Hts He.
  destruct (enc_with_inv_g ce T d k _ b Hst He) as (ec & fl & ts & content & cns & Hcenc & Hts' & Hcont & Hfr).
  rewrite Hts in Hts'. inversion Hts'; subst ts; clear Hts'.
  rewrite concrete_encoder_base in Hcenc. rewrite enc_content_base in Hcont. rewrite Hb in Hcenc, Hcont.
  assert (Hfin: exists parts, enc_members_o ce (mo d k) (rec_members fs vs) = Ok parts /\ content = concat parts /\ cns = true /\ ef_indef fl = true).
  { destruct is_set.
    - rewrite (Hset eq_refl) in *. vm_compute in Hcenc. inversion Hcenc; subst ec fl; clear Hcenc.
      rewrite enc_content_set_g, (fields_members_o BER _ _ d k fs vs Hfull) in Hcont.
      rewrite (enc_members_o_of_k BER _ false).
      destruct (enc_members_ko BER (mo d k) false (rec_members fs vs)) as [kps|e]; cbn [bind record_finish] in Hcont; [|discriminate].
      inversion Hcont; subst. exists (map snd kps). repeat split.
    - destruct ce; vm_compute in Hcenc; inversion Hcenc; subst ec fl; clear Hcenc;
        rewrite enc_content_seq_g, (fields_members_o _ _ _ d k fs vs Hfull) in Hcont;
        rewrite (enc_members_o_of_k _ _ false);
        (destruct (enc_members_ko _ (mo d k) false (rec_members fs vs)) as [kps|e]; cbn [bind record_finish] in Hcont; [|discriminate]);
        inversion Hcont; subst; exists (map snd kps); repeat split. }
  destruct Hfin as (parts & Hm & -> & -> & Hsi). rewrite Hsi in Hfr. exists parts. split; assumption.
Qed.

(* ---------- one container, any mode ---------- *)

(* SEQUENCE OF / SET OF *)
Lemma listof_sl_item_m R perm ce cd d k aset T' t (is_set: bool) : skrel_ok R perm -> stable ce d k -> dec_ok cd ->
  base_of T' = (if is_set then TSetOf t else TSeqOf t) -> (is_set = true -> ce = BER) ->
  sl_frag aset T' = true ->
  (forall x, sl_val ce cd t x = true -> sl_item_m R ce cd d k t x) ->
  forall xs, forallb (sl_val ce cd t) xs = true -> sl_item_m R ce cd d k T' (VList xs).
Proof.
  intros HR Hst Hcd Hb Hset Hfr IHt xs Hxs.
  destruct (frag_shape aset T' Hfr) as (b0 & r & Hb0 & Hts & _ & Hex & _).
  assert (Hb0': b0 = utag true (if is_set then 17 else 16)).
  { rewrite Hb in Hb0. destruct is_set; inversion Hb0; reflexivity. }
  set (arr := if is_set then (fun kps : list (tagset * bytes) => sort_setof (map snd kps)) else map snd).
  assert (Hder: enc_with DER (enc_content DER) T' def_opts (VList xs) = der_container (b0 :: r) arr (map (pair t) xs)).
  { subst arr. destruct is_set; [apply (der_setof T' t _ xs Hb Hts)|apply (der_seqof T' t _ xs Hb Hts)]. }
  assert (Hallt: Forall (fun m : ty * val => fst m = t) (map (pair t) xs)).
  { apply Forall_forall. intros m Hin. apply in_map_iff in Hin. destruct Hin as (x & <- & _). reflexivity. }
  assert (Hsame: forall ms' tvs, Forall (fun m : ty * val => fst m = t) ms' ->
            Forall2 (fun a b => tagset_of' b = tagset_of' a) (map fst ms') (map fst tvs) -> all_same tvs = true).
  { intros ms' tvs Hall Ht. rewrite all_same_map, (all_same_tys_ext _ _ Ht).
    apply (all_same_const t). apply Forall_forall. intros a Ha. apply in_map_iff in Ha.
    destruct Ha as (m & <- & Hm). rewrite Forall_forall in Hall. exact (Hall m Hm). }
  apply (container_item_m R perm ce cd d k T' is_set (VList xs) (map (pair t) xs) b0 r arr HR Hcd Hts Hb0' Hex).
  - assert (Hbb: base_of T' = TSeqOf t \/ base_of T' = TSetOf t) by (destruct is_set; [right|left]; exact Hb).
    rewrite (skel_listof T' t xs Hbb), (tagset_of'_ok _ _ Hts), map_map. reflexivity.
  - exact Hder.
  - intros b He.
    destruct (enc_listof_inv_m ce d k T' t is_set xs b0 r b Hst Hb Hset Hts He) as (parts & Hm & Hfr').
    exists (map (pair t) xs), parts. split; [|split; assumption].
    apply wire_same. intros tvs Ht kps _. subst arr. unfold arr_guess. destruct is_set; [|reflexivity].
    rewrite (Hsame _ tvs Hallt Ht). reflexivity.
  - apply Forall_forall. intros m Hin. apply in_map_iff in Hin. destruct Hin as (x & <- & Hx).
    cbn [fst snd]. apply IHt. rewrite forallb_forall in Hxs. exact (Hxs x Hx).
Qed.

(* SEQUENCE / SET, every component mandatory and present *)
Lemma record_sl_item_m R perm ce cd d k aset T' fs (is_set: bool) : skrel_ok R perm -> stable ce d k -> dec_ok cd ->
  base_of T' = (if is_set then TSet fs else TSeq fs) -> (is_set = true -> ce = BER) ->
  sl_frag aset T' = true ->
  Forall (fun f => not_choice (snd f)) fs ->
  (is_set = true -> set_mixed (map snd fs) = true) ->
  forall vs, rec_full fs vs = true ->
  Forall (fun m => sl_item_m R ce cd d k (fst m) (snd m)) (rec_members fs vs) ->
  sl_item_m R ce cd d k T' (VRec vs).
Proof.
  intros HR Hst Hcd Hb Hset Hfr Hnc Hmix vs Hfull Hms.
  destruct (frag_shape aset T' Hfr) as (b0 & r & Hb0 & Hts & _ & Hex & _).
  assert (Hb0': b0 = utag true (if is_set then 17 else 16)).
  { rewrite Hb in Hb0. destruct is_set; inversion Hb0; reflexivity. }
  set (arr := if is_set then (fun kps : list (tagset * bytes) => map snd (sort_by tagset_ltb fst kps)) else map snd).
  set (ms := rec_members fs vs) in *.
  assert (Hder: enc_with DER (enc_content DER) T' def_opts (VRec vs) = der_container (b0 :: r) arr ms).
  { subst arr ms. destruct is_set; [apply (der_set T' fs _ vs Hb Hts Hfull Hnc)|apply (der_seq T' fs _ vs Hb Hts Hfull Hnc)]. }
  assert (Hshort: is_set = true -> forall ms' tvs, Permutation ms ms' ->
            Forall2 (fun a b => tagset_of' b = tagset_of' a) (map fst ms') (map fst tvs) ->
            all_same tvs = true -> (length ms <= 1)%nat).
  { intros His ms' tvs Hp Ht Esame.
    rewrite all_same_map, (all_same_tys_ext _ _ Ht) in Esame.
    rewrite <- (all_same_tys_perm _ _ (Permutation_map fst Hp)) in Esame.
    subst ms. rewrite (rec_members_fst fs vs Hfull) in Esame.
    specialize (Hmix His). rewrite set_mixed_spec in Hmix.
    assert (Hlm: length (rec_members fs vs) = length (map snd fs)) by (rewrite <- (rec_members_fst fs vs Hfull), map_length; reflexivity).
    rewrite Hlm. destruct (map snd fs) as [|t1 [|t2 rest]]; cbn [length]; try lia.
    rewrite Esame in Hmix. discriminate Hmix. }
  apply (container_item_m R perm ce cd d k T' is_set (VRec vs) ms b0 r arr HR Hcd Hts Hb0' Hex).
  - assert (Hbb: base_of T' = TSeq fs \/ base_of T' = TSet fs) by (destruct is_set; [right|left]; exact Hb).
    rewrite (skel_record T' fs vs Hbb), (tagset_of'_ok _ _ Hts), (skel_fields_members fs vs Hfull). reflexivity.
  - exact Hder.
  - intros b He.
    destruct (enc_record_inv_m ce d k T' fs is_set vs b0 r b Hst Hb Hset Hfull Hts He) as (parts & Hm & Hfr').
    exists ms, parts. split; [|split; assumption].
    apply wire_same. intros tvs Ht kps Hk. subst arr. unfold arr_guess. destruct is_set; [|reflexivity].
    destruct (all_same tvs) eqn:Esame; [|reflexivity].
    pose proof (Hshort eq_refl ms tvs (Permutation_refl ms) Ht Esame) as Hl.
    rewrite <- (der_members_length _ _ Hk) in Hl.
    destruct kps as [|kp [|kp2 kps]]; try reflexivity. cbn [length] in Hl. lia.
  - exact Hms.
Qed.

(* ---------- the induction over the type ---------- *)

Lemma fields_prep_m R ce cd d k aset : forall fs,
  Forall (fun f => forall T', base_of T' = base_of (snd f) -> sl_frag aset T' = true -> (d = false -> no_f01 T' = true) ->
                   forall v, sl_val ce cd T' v = true -> sl_item_m R ce cd d k T' v) fs ->
  forallb (fun f => is_req (fst f) && sl_frag aset (snd f)) fs = true ->
  (d = false -> forallb (fun f => no_f01 (snd f)) fs = true) ->
  forall vs, slv_fields ce cd fs vs = true ->
  rec_full fs vs = true /\ Forall (fun m => sl_item_m R ce cd d k (fst m) (snd m)) (rec_members fs vs)
  /\ Forall (fun f => not_choice (snd f)) fs.
Proof.
  induction 1 as [|f fs Hf _ IH]; intros Hfr Hno vs Hv.
  - destruct vs; [|discriminate Hv]. repeat split; constructor.
  - destruct vs as [|[x|] vs]; try discriminate Hv.
    cbn [forallb] in Hfr. apply Bool.andb_true_iff in Hfr. destruct Hfr as [Hf1 Hfr].
    apply Bool.andb_true_iff in Hf1. destruct Hf1 as [Hreq Hff].
    change (slv_fields ce cd (f :: fs) (Some x :: vs)) with (sl_val ce cd (snd f) x && slv_fields ce cd fs vs)%bool in Hv.
    apply Bool.andb_true_iff in Hv. destruct Hv as [Hx Hvs].
    assert (Hno': d = false -> no_f01 (snd f) = true /\ forallb (fun f => no_f01 (snd f)) fs = true).
    { intros Hd. specialize (Hno Hd). cbn [forallb] in Hno. apply Bool.andb_true_iff in Hno. exact Hno. }
    destruct (IH Hfr (fun Hd => proj2 (Hno' Hd)) vs Hvs) as (Hfull & Hms & Hnc).
    change (rec_full (f :: fs) (Some x :: vs)) with (is_req (fst f) && rec_full fs vs)%bool.
    change (rec_members (f :: fs) (Some x :: vs)) with ((snd f, x) :: rec_members fs vs).
    rewrite Hreq, Hfull. split; [reflexivity|]. split.
    + constructor; [|exact Hms]. cbn [fst snd]. exact (Hf (snd f) eq_refl Hff (fun Hd => proj1 (Hno' Hd)) x Hx).
    + constructor; [|exact Hnc]. exact (frag_not_choice aset _ Hff).
Qed.

Theorem sl_item_all_m R perm ce cd d k aset : skrel_ok R perm -> stable ce d k -> dec_ok cd ->
  (aset = true -> ce = BER) ->
  forall T T', base_of T' = base_of T -> sl_frag aset T' = true -> (d = false -> no_f01 T' = true) ->
  forall v, sl_val ce cd T' v = true -> sl_item_m R ce cd d k T' v.
Proof.
  intros HR Hst Hcd Haset.
  induction T as [| | | | | | | | n|fs IH|fs IH|t IH|t IH|alts IH| |tg x IH|tg x IH] using ty_ind';
    intros T' Hb Hfr Hno v Hv; cbn [base_of] in Hb;
    destruct (frag_shape aset T' Hfr) as (_ & _ & _ & _ & _ & _ & Hfb);
    assert (Hnob: d = false -> no_f01 (base_of T') = true /\ f01_class T' = false)
      by (intros Hd; exact (no_f01_base T' (Hno Hd)));
    try (assert (Hp: prim_base T' = true) by (unfold prim_base; rewrite Hb; reflexivity);
         rewrite (sl_val_prim ce cd T' v Hp) in Hv;
         exact (leaf_item_m R perm ce cd d k T' v HR Hst Hcd (frag_prim aset T' Hfr Hp) (fun Hd => proj2 (Hnob Hd)) Hv));
    try (rewrite Hb in Hfb; discriminate Hfb).
  - (* SEQUENCE *)
    rewrite Hb in Hfb, Hnob. cbn [sl_frag] in Hfb. cbn [no_f01] in Hnob.
    rewrite sl_val_base, Hb in Hv. destruct v; try discriminate Hv. rewrite sl_val_seq in Hv.
    destruct (fields_prep_m R ce cd d k aset fs IH Hfb (fun Hd => proj1 (Hnob Hd)) fs0 Hv) as (Hfull & Hms & Hnc).
    apply (record_sl_item_m R perm ce cd d k aset T' fs false HR Hst Hcd Hb ltac:(discriminate) Hfr Hnc ltac:(discriminate) fs0 Hfull Hms).
  - (* SET *)
    rewrite Hb in Hfb, Hnob. cbn [sl_frag] in Hfb. cbn [no_f01] in Hnob.
    apply Bool.andb_true_iff in Hfb. destruct Hfb as [Hfb Hmix].
    apply Bool.andb_true_iff in Hfb. destruct Hfb as [Has Hfb].
    rewrite sl_val_base, Hb in Hv. destruct v; try discriminate Hv. rewrite sl_val_set in Hv.
    destruct (fields_prep_m R ce cd d k aset fs IH Hfb (fun Hd => proj1 (Hnob Hd)) fs0 Hv) as (Hfull & Hms & Hnc).
    apply (record_sl_item_m R perm ce cd d k aset T' fs true HR Hst Hcd Hb (fun _ => Haset Has) Hfr Hnc (fun _ => Hmix) fs0 Hfull Hms).
  - (* SEQUENCE OF *)
    rewrite Hb in Hfb, Hnob. cbn [sl_frag] in Hfb. cbn [no_f01] in Hnob.
    rewrite sl_val_base, Hb in Hv. destruct v; try discriminate Hv. cbn [sl_val] in Hv.
    apply (listof_sl_item_m R perm ce cd d k aset T' t false HR Hst Hcd Hb ltac:(discriminate) Hfr); [|exact Hv].
    intros x Hx. exact (IH t eq_refl Hfb (fun Hd => proj1 (Hnob Hd)) x Hx).
  - (* SET OF *)
    rewrite Hb in Hfb, Hnob. cbn [sl_frag] in Hfb. cbn [no_f01] in Hnob.
    apply Bool.andb_true_iff in Hfb. destruct Hfb as [Has Hfb].
    rewrite sl_val_base, Hb in Hv. destruct v; try discriminate Hv. cbn [sl_val] in Hv.
    apply (listof_sl_item_m R perm ce cd d k aset T' t true HR Hst Hcd Hb (fun _ => Haset Has) Hfr); [|exact Hv].
    intros x Hx. exact (IH t eq_refl Hfb (fun Hd => proj1 (Hnob Hd)) x Hx).
  - apply (IH T' Hb Hfr Hno v Hv).
  - apply (IH T' Hb Hfr Hno v Hv).
Qed.

(* ---------- the theorems ---------- *)

Theorem schemaless_modes_generic : forall R perm ce cd d k aset T v b tl,
  skrel_ok R perm -> stable ce d k -> dec_ok cd -> (aset = true -> ce = BER) ->
  sl_frag aset T = true -> (d = false -> no_f01 T = true) -> sl_val ce cd T v = true ->
  encode ce d k T v = Ok b -> N.of_nat (length b) <= index_max ->
  exists T0 v0, decode cd None (b ++ tl) = Ok (DV T0 v0, tl)
    /\ tagset_of T0 = tagset_of T
    /\ R (skel T v) (skel T0 v0)
    /\ encode DER true 0 T0 v0 = encode DER true 0 T v.
Proof.
  intros R perm ce cd d k aset T v b tl HR Hst Hcd Haset Hfr Hno Hv He Hmax.
  destruct (sl_item_all_m R perm ce cd d k aset HR Hst Hcd Haset T T eq_refl Hfr Hno v Hv b He Hmax)
    as (_ & _ & T0 & v0 & Hts & _ & Hsk & Hder & Hc).
  exists T0, v0. split; [|split; [exact Hts|split; [exact Hsk|exact Hder]]].
  unfold decode.
  assert (Hf: (2 * length b <= dec_fuel None (b ++ tl))%nat) by (unfold dec_fuel; rewrite app_length; lia).
  pose proof (consumes_decode_with cd _ None b tl (DV T0 v0) (Hc _ false Hf)) as Hdw.
  unfold decode_with in Hdw. exact Hdw.
Qed.

(* C16 in every mode of the BER encoder - definite or indefinite lengths, strings whole or cut into
   segments of [chunk] octets - for the whole container fragment (SET OF and SET included: the BER
   encoder keeps the order), F01 class excluded in indefinite mode; decoders BER and CER *)
Theorem schemaless_roundtrip_ber_modes : forall cd d chunk T v b tl,
  dec_ok cd -> sl_frag true T = true -> (d = false -> no_f01 T = true) -> sl_val BER cd T v = true ->
  encode BER d chunk T v = Ok b -> N.of_nat (length b) <= index_max ->
  exists T0 v0, decode cd None (b ++ tl) = Ok (DV T0 v0, tl)
    /\ tagset_of T0 = tagset_of T
    /\ skel T0 v0 = skel T v
    /\ leaves T0 v0 = leaves T v
    /\ encode DER true 0 T0 v0 = encode DER true 0 T v.
Proof.
  intros cd d chunk T v b tl Hcd Hfr Hno Hv He Hmax.
  destruct (schemaless_modes_generic eq false BER cd d chunk true T v b tl skrel_eq (stable_ber d chunk) Hcd
              (fun _ => eq_refl) Hfr Hno Hv He Hmax) as (T0 & v0 & Hd & Hts & Hsk & Hder).
  exists T0, v0. split; [exact Hd|]. split; [exact Hts|]. split; [symmetry; exact Hsk|].
  split; [unfold leaves; rewrite Hsk; reflexivity|exact Hder].
Qed.

(* the CER encoder (always indefinite lengths, segments of 1000 octets, whatever options are passed),
   types without SET OF / SET *)
Theorem schemaless_roundtrip_cer_encoder : forall cd d k T v b tl,
  dec_ok cd -> sl_frag false T = true -> no_f01 T = true -> sl_val CER cd T v = true ->
  encode CER d k T v = Ok b -> N.of_nat (length b) <= index_max ->
  exists T0 v0, decode cd None (b ++ tl) = Ok (DV T0 v0, tl)
    /\ tagset_of T0 = tagset_of T
    /\ skel T0 v0 = skel T v
    /\ leaves T0 v0 = leaves T v
    /\ encode DER true 0 T0 v0 = encode DER true 0 T v.
Proof.
  intros cd d k T v b tl Hcd Hfr Hno Hv He Hmax.
  rewrite encode_cer_fixed in He.
  destruct (schemaless_modes_generic eq false CER cd false 1000 false T v b tl skrel_eq stable_cer Hcd
              ltac:(discriminate) Hfr (fun _ => Hno) Hv He Hmax) as (T0 & v0 & Hd & Hts & Hsk & Hder).
  exists T0, v0. split; [exact Hd|]. split; [exact Hts|]. split; [symmetry; exact Hsk|].
  split; [unfold leaves; rewrite Hsk; reflexivity|exact Hder].
Qed.

Print Assumptions schemaless_modes_generic.
Print Assumptions schemaless_roundtrip_ber_modes.
Print Assumptions schemaless_roundtrip_cer_encoder.

(* ------------------------------------------------------------------------------------------ *)
(* The CER encoder on SET OF / SET: it writes the members in its own canonical order.          *)
(* ------------------------------------------------------------------------------------------ *)

(* ---------- when the DER encoder refuses a value of the fragment, it is always with the same error ---------- *)

Lemma enc_len_err n i e : enc_len n i = Err e -> e = EMalformed.
Proof.
  unfold enc_len. destruct i; [discriminate|]. destruct (N.ltb n 128); [discriminate|].
  destruct (Nat.ltb 126 (length (b256 n))); [|discriminate]. intros H; inversion H; reflexivity.
Qed.

Lemma frame_one_err t c d si sub e : frame_one t c d si sub = Err e -> e = EMalformed.
Proof.
  unfold frame_one. destruct (enc_len (N.of_nat (length sub)) (negb d && si)) as [l|e0] eqn:El; cbn [bind]; [discriminate|].
  intros H; injection H as <-. exact (enc_len_err _ _ _ El).
Qed.

Lemma frame_outer_err : forall r c d si sub e, frame_outer r c d si sub = Err e -> e = EMalformed.
Proof.
  induction r as [|t r IH]; intros c d si sub e H; cbn [frame_outer] in H; [discriminate|].
  destruct (frame_one t c d si sub) as [s1|e1] eqn:E1; cbn [bind] in H.
  - exact (IH _ _ _ _ _ H).
  - injection H as <-. exact (frame_one_err _ _ _ _ _ _ E1).
Qed.

Lemma frame_err ts content ic o si e : frame ts content ic o si = Err e -> e = EMalformed.
Proof.
  destruct ts as [|t0 r]; cbn [frame]; [discriminate|].
  destruct ((match content with [] => true | _ => false end) && ic && o_ifne o)%bool; [discriminate|].
  destruct (frame_one t0 ic (if ic then o_def o else true) si content) as [s0|e0] eqn:E0; cbn [bind].
  - apply frame_outer_err.
  - intros H; injection H as <-. exact (frame_one_err _ _ _ _ _ _ E0).
Qed.

Lemma cer_string_der cd n : known_string CER cd n = true ->
  exists fl, concrete_encoder DER (TStr n) = Ok (EcOcts, fl).
Proof.
  unfold known_string. intros H. apply Bool.andb_true_iff in H. destruct H as [H _].
  unfold enc_type_map, lookup3, cer_enc_type_map in H.
  cbn [map assoc fst snd tkey_eqb] in H; revert H;
    repeat (match goal with |- context [N.eqb n ?k] =>
              destruct (N.eqb_spec n k) as [->|_]; [intros H; try discriminate H; eexists; vm_compute; reflexivity|] end);
    intros H; discriminate H.
Qed.

Lemma der_leaf_err cd T v e : univ_explicit T = true -> stage1_val CER cd T v = true ->
  enc_with DER (enc_content DER) T def_opts v = Err e -> e = EMalformed.
Proof.
  intros Hue Hs. unfold enc_with. rewrite fix_opts_der, concrete_encoder_base.
  unfold stage1_val in Hs.
  assert (Hfin: forall ec fl, concrete_encoder DER (base_of T) = Ok (ec, fl) ->
            (forall e0, enc_content DER (base_of T) ec fl def_opts v = Err e0 -> e0 = EMalformed) ->
            (do ce <- concrete_encoder DER (base_of T); let '(cd0, fl0) := ce in
             do ts <- tagset_of T; do cc <- enc_content DER T cd0 fl0 (mkOpts (o_def def_opts) (o_chunk def_opts) false) v;
             let '(content, is_cons) := cc in frame ts content is_cons def_opts (ef_indef fl0)) = Err e -> e = EMalformed).
  { intros ec fl Hc Hcont. rewrite Hc. cbn [bind].
    destruct (univ_explicit_shape T Hue) as (b0 & r & _ & Hts & _). rewrite Hts. cbn [bind].
    change (mkOpts (o_def def_opts) (o_chunk def_opts) false) with def_opts.
    rewrite enc_content_base.
    destruct (enc_content DER (base_of T) ec fl def_opts v) as [[content ic]|e0] eqn:Ec; cbn [bind].
    - apply frame_err.
    - intros H; injection H as <-. exact (Hcont e0 eq_refl). }
  destruct (base_of T) eqn:Hb; destruct v as [bb|z|bs|bo|cs| |arcs|rr|vfs|xs|i x|ab]; try discriminate Hs.
  - apply (Hfin EcBoolCer (mkEncFlags false false false None 0 0) eq_refl). intros e0 H; discriminate H.
  - apply (Hfin EcInt (mkEncFlags false false false None 0 0) eq_refl). intros e0 H; discriminate H.
  - apply (Hfin EcInt (mkEncFlags false false false None 0 0) eq_refl). intros e0 H; discriminate H.
  - apply (Hfin EcBitsCer (mkEncFlags true false false None 0 0) eq_refl). intros e0 H; discriminate H.
  - apply (Hfin EcOcts (mkEncFlags true false false None 0 0) eq_refl). intros e0 H; discriminate H.
  - apply (Hfin EcNull (mkEncFlags false false false None 0 0) eq_refl). intros e0 H; discriminate H.
  - apply (Hfin EcOid (mkEncFlags false false false None 0 0) eq_refl). intros e0 H. cbn [enc_content] in H.
    unfold enc_oid in H. destruct (oid_first arcs) as [subs|e1] eqn:Eo; cbn [bind] in H; [discriminate|].
    injection H as <-. unfold oid_first in Eo.
    destruct arcs as [|f1 [|f2 rest]]; try (injection Eo as <-; reflexivity).
    destruct (N.leb f2 39); [destruct (N.eqb f1 1); [discriminate|destruct (N.eqb f1 0); [discriminate|destruct (N.eqb f1 2); [discriminate|injection Eo as <-; reflexivity]]]|].
    destruct (N.eqb f1 2); [discriminate|injection Eo as <-; reflexivity].
  - apply (Hfin EcRealCer (mkEncFlags false false false (Some 2) 0 0) eq_refl). intros e0 H. cbn [enc_content] in H.
    destruct (enc_real rr) as [c0|e1] eqn:Er; cbn [bind] in H; [discriminate|]. injection H as <-.
    destruct rr as [| |m ex|m ex|]; try discriminate Hs; try discriminate Er.
    unfold enc_real in Er. destruct (Z.eqb m 0); [discriminate|].
    destruct (strip2 _ _ ex) as [m' e']. cbv zeta in Er.
    destruct (Nat.ltb 255 (length (exp_octets e'))); [injection Er as <-; reflexivity|].
    destruct (length (exp_octets e')) as [|[|[|[|?]]]]; discriminate Er.
  - apply Bool.andb_true_iff in Hs. destruct Hs as [Hk _].
    destruct (cer_string_der cd n Hk) as (fl & Hc).
    apply (Hfin EcOcts fl Hc). intros e0 H. cbn [enc_content] in H. discriminate H.
Qed.

Lemma der_members_err : forall ms e, der_members ms = Err e ->
  exists m, In m ms /\ enc_with DER (enc_content DER) (fst m) def_opts (snd m) = Err e.
Proof.
  induction ms as [|m ms IH]; intros e H; cbn [der_members] in H; [discriminate|].
  destruct (enc_with DER (enc_content DER) (fst m) def_opts (snd m)) as [p|e1] eqn:Ep; cbn [bind] in H.
  - destruct (der_members ms) as [r|e2] eqn:E; cbn [bind] in H; [discriminate|]. injection H as <-.
    destruct (IH e2 eq_refl) as (m' & Hin & Hm'). exists m'. split; [right; exact Hin|exact Hm'].
  - injection H as <-. exists m. split; [left; reflexivity|exact Ep].
Qed.

Lemma der_container_err (P: ty -> val -> Prop) ts arr ms e :
  Forall (fun m => forall e0, enc_with DER (enc_content DER) (fst m) def_opts (snd m) = Err e0 -> e0 = EMalformed) ms ->
  der_container ts arr ms = Err e -> e = EMalformed.
Proof.
  intros HF H. unfold der_container in H.
  destruct (der_members ms) as [kps|e1] eqn:Ek; cbn [bind] in H.
  - exact (frame_err _ _ _ _ _ _ H).
  - injection H as <-. destruct (der_members_err ms e1 Ek) as (m & Hin & Hm).
    rewrite Forall_forall in HF. exact (HF m Hin e1 Hm).
Qed.

Lemma fields_prep_P (P: ty -> val -> Prop) ce cd aset : forall fs,
  Forall (fun f => forall T', base_of T' = base_of (snd f) -> sl_frag aset T' = true ->
                   forall v, sl_val ce cd T' v = true -> P T' v) fs ->
  forallb (fun f => is_req (fst f) && sl_frag aset (snd f)) fs = true ->
  forall vs, slv_fields ce cd fs vs = true ->
  rec_full fs vs = true /\ Forall (fun m => P (fst m) (snd m)) (rec_members fs vs)
  /\ Forall (fun f => not_choice (snd f)) fs.
Proof.
  induction 1 as [|f fs Hf _ IH]; intros Hfr vs Hv.
  - destruct vs; [|discriminate Hv]. repeat split; constructor.
  - destruct vs as [|[x|] vs]; try discriminate Hv.
    cbn [forallb] in Hfr. apply Bool.andb_true_iff in Hfr. destruct Hfr as [Hf1 Hfr].
    apply Bool.andb_true_iff in Hf1. destruct Hf1 as [Hreq Hff].
    change (slv_fields ce cd (f :: fs) (Some x :: vs)) with (sl_val ce cd (snd f) x && slv_fields ce cd fs vs)%bool in Hv.
    apply Bool.andb_true_iff in Hv. destruct Hv as [Hx Hvs].
    destruct (IH Hfr vs Hvs) as (Hfull & Hms & Hnc).
    change (rec_full (f :: fs) (Some x :: vs)) with (is_req (fst f) && rec_full fs vs)%bool.
    change (rec_members (f :: fs) (Some x :: vs)) with ((snd f, x) :: rec_members fs vs).
    rewrite Hreq, Hfull. split; [reflexivity|]. split.
    + constructor; [|exact Hms]. cbn [fst snd]. exact (Hf (snd f) eq_refl Hff x Hx).
    + constructor; [|exact Hnc]. exact (frag_not_choice aset _ Hff).
Qed.

Definition der_err_ok (T: ty) (v: val) : Prop :=
  forall e, enc_with DER (enc_content DER) T def_opts v = Err e -> e = EMalformed.

Theorem der_err_all cd aset : forall T T', base_of T' = base_of T -> sl_frag aset T' = true ->
  forall v, sl_val CER cd T' v = true -> der_err_ok T' v.
Proof.
  induction T as [| | | | | | | | n|fs IH|fs IH|t IH|t IH|alts IH| |tg x IH|tg x IH] using ty_ind';
    intros T' Hb Hfr v Hv; cbn [base_of] in Hb;
    destruct (frag_shape aset T' Hfr) as (b0 & r & _ & Hts & _ & _ & Hfb);
    try (assert (Hp: prim_base T' = true) by (unfold prim_base; rewrite Hb; reflexivity);
         rewrite (sl_val_prim CER cd T' v Hp) in Hv;
         intros e He; exact (der_leaf_err cd T' v e (frag_prim aset T' Hfr Hp) Hv He));
    try (rewrite Hb in Hfb; discriminate Hfb).
  - rewrite Hb in Hfb. cbn [sl_frag] in Hfb.
    rewrite sl_val_base, Hb in Hv. destruct v; try discriminate Hv. rewrite sl_val_seq in Hv.
    destruct (fields_prep_P der_err_ok CER cd aset fs IH Hfb fs0 Hv) as (Hfull & Hms & Hnc).
    intros e He. rewrite (der_seq T' fs _ fs0 Hb Hts Hfull Hnc) in He.
    exact (der_container_err der_err_ok _ _ _ e Hms He).
  - rewrite Hb in Hfb. cbn [sl_frag] in Hfb.
    apply Bool.andb_true_iff in Hfb. destruct Hfb as [Hfb Hmix].
    apply Bool.andb_true_iff in Hfb. destruct Hfb as [Has Hfb].
    rewrite sl_val_base, Hb in Hv. destruct v; try discriminate Hv. rewrite sl_val_set in Hv.
    destruct (fields_prep_P der_err_ok CER cd aset fs IH Hfb fs0 Hv) as (Hfull & Hms & Hnc).
    intros e He. rewrite (der_set T' fs _ fs0 Hb Hts Hfull Hnc) in He.
    exact (der_container_err der_err_ok _ _ _ e Hms He).
  - rewrite Hb in Hfb. cbn [sl_frag] in Hfb.
    rewrite sl_val_base, Hb in Hv. destruct v; try discriminate Hv. cbn [sl_val] in Hv.
    intros e He. rewrite (der_seqof T' t _ xs Hb Hts) in He.
    apply (der_container_err der_err_ok _ _ _ e) in He; [exact He|].
    apply Forall_forall. intros m Hin. apply in_map_iff in Hin. destruct Hin as (x & <- & Hx).
    cbn [fst snd]. apply (IH t eq_refl Hfb). rewrite forallb_forall in Hv. exact (Hv x Hx).
  - rewrite Hb in Hfb. cbn [sl_frag] in Hfb.
    apply Bool.andb_true_iff in Hfb. destruct Hfb as [Has Hfb].
    rewrite sl_val_base, Hb in Hv. destruct v; try discriminate Hv. cbn [sl_val] in Hv.
    intros e He. rewrite (der_setof T' t _ xs Hb Hts) in He.
    apply (der_container_err der_err_ok _ _ _ e) in He; [exact He|].
    apply Forall_forall. intros m Hin. apply in_map_iff in Hin. destruct Hin as (x & <- & Hx).
    cbn [fst snd]. apply (IH t eq_refl Hfb). rewrite forallb_forall in Hv. exact (Hv x Hx).
  - exact (IH T' Hb Hfr v Hv).
  - exact (IH T' Hb Hfr v Hv).
Qed.

(* ---------- members in another order: the DER encoder fails or succeeds alike ---------- *)

Lemma der_members_perm_res ms ms' : Permutation ms ms' ->
  Forall (fun m => der_err_ok (fst m) (snd m)) ms ->
  match der_members ms, der_members ms' with
  | Ok kps, Ok kps' => Permutation kps kps'
  | Err e, Err e' => e = EMalformed /\ e' = EMalformed
  | _, _ => False
  end.
Proof.
  intros Hp Hok.
  assert (Hok': Forall (fun m => der_err_ok (fst m) (snd m)) ms') by exact (perm_Forall _ _ _ Hp Hok).
  destruct (der_members ms) as [kps|e] eqn:E1; destruct (der_members ms') as [kps'|e'] eqn:E2.
  - apply der_members_F2 in E1. destruct (Permutation_Forall2 Hp E1) as (kps2 & Hp2 & HF2).
    apply der_members_F2 in HF2. rewrite E2 in HF2. injection HF2 as <-. exact Hp2.
  - destruct (der_members_err ms' e' E2) as (m & Hin & Hm).
    apply der_members_F2 in E1.
    assert (Hin0: In m ms) by (eapply Permutation_in; [apply Permutation_sym; exact Hp|exact Hin]).
    clear - E1 Hin0 Hm. induction E1 as [|m0 kp ms kps [Hm0 _] _ IH]; [destruct Hin0|].
    destruct Hin0 as [->|Hin0]; [rewrite Hm0 in Hm; discriminate Hm|exact (IH Hin0)].
  - destruct (der_members_err ms e E1) as (m & Hin & Hm).
    apply der_members_F2 in E2.
    assert (Hin0: In m ms') by (eapply Permutation_in; [exact Hp|exact Hin]).
    clear - E2 Hin0 Hm. induction E2 as [|m0 kp ms kps [Hm0 _] _ IH]; [destruct Hin0|].
    destruct Hin0 as [->|Hin0]; [rewrite Hm0 in Hm; discriminate Hm|exact (IH Hin0)].
  - destruct (der_members_err ms e E1) as (m & Hin & Hm). destruct (der_members_err ms' e' E2) as (m' & Hin' & Hm').
    rewrite Forall_forall in Hok, Hok'. split; [exact (Hok m Hin e Hm)|exact (Hok' m' Hin' e' Hm')].
Qed.

(* ---------- members encoded with given options, as a pointwise relation ---------- *)

Definition em_rel (c: codec) (o: eopts) (dyn: bool) (m: ty * val) (kp: tagset * bytes) : Prop :=
  enc_with c (enc_content c) (fst m) o (snd m) = Ok (snd kp) /\ fst kp = set_sort_key dyn (fst m) (snd m).

Lemma enc_members_ko_F2 c o dyn : forall ms kps, enc_members_ko c o dyn ms = Ok kps <-> Forall2 (em_rel c o dyn) ms kps.
Proof.
  induction ms as [|m ms IH]; intros kps; split; intros H.
  - inversion H; subst. constructor.
  - inversion H; subst. reflexivity.
  - cbn [enc_members_ko] in H.
    destruct (enc_with c (enc_content c) (fst m) o (snd m)) as [p|e] eqn:Ep; cbn [bind] in H; [|discriminate].
    destruct (enc_members_ko c o dyn ms) as [r|e] eqn:E; cbn [bind] in H; [|discriminate].
    inversion H; subst. constructor; [split; [exact Ep|reflexivity]|]. apply IH. reflexivity.
  - inversion H as [|? kp ? kps' [Hm Hk] HF]; subst. cbn [enc_members_ko]. rewrite Hm. cbn [bind].
    apply IH in HF. rewrite HF. cbn [bind]. destruct kp as [k0 p]. cbn [fst snd] in *. subst k0. reflexivity.
Qed.

Lemma enc_members_ko_perm c o dyn ms kps kps' : enc_members_ko c o dyn ms = Ok kps -> Permutation kps kps' ->
  exists ms', Permutation ms ms' /\ enc_members_ko c o dyn ms' = Ok kps'.
Proof.
  intros H Hp. apply enc_members_ko_F2 in H.
  destruct (Forall2_perm_right' _ ms kps kps' H Hp) as (ms' & Hpm & HF).
  exists ms'. split; [exact Hpm|]. apply enc_members_ko_F2. exact HF.
Qed.

(* ---------- sorting related lists by the same keys ---------- *)

Section SortF2.
  Context {A B K: Type} (ltb: K -> K -> bool) (ka: A -> K) (kb: B -> K) (P: A -> B -> Prop).
  Hypothesis Hkey : forall a b, P a b -> ka a = kb b.

  Lemma insert_by_F2 a b : P a b -> forall la lb, Forall2 P la lb ->
    Forall2 P (insert_by ltb ka a la) (insert_by ltb kb b lb).
  Proof.
    intros Hab la lb HF. induction HF as [|x y la lb Hxy HF IH]; cbn [insert_by].
    - constructor; [exact Hab|constructor].
    - rewrite (Hkey _ _ Hab), (Hkey _ _ Hxy). destruct (ltb (kb y) (kb b)).
      + constructor; [exact Hxy|exact IH].
      + constructor; [exact Hab|]. constructor; assumption.
  Qed.

  Lemma sort_by_F2 : forall la lb, Forall2 P la lb -> Forall2 P (sort_by ltb ka la) (sort_by ltb kb lb).
  Proof.
    induction 1 as [|x y la lb Hxy HF IH]; [constructor|].
    change (sort_by ltb ka (x :: la)) with (insert_by ltb ka x (sort_by ltb ka la)).
    change (sort_by ltb kb (y :: lb)) with (insert_by ltb kb y (sort_by ltb kb lb)).
    apply insert_by_F2; assumption.
  Qed.
End SortF2.

(* ---------- DER encodings are TLVs: none is another one followed by zero octets ---------- *)

Definition tlv_shaped (p: bytes) : Prop :=
  exists t c l body, p = enc_tag t c ++ l ++ body /\ enc_len (N.of_nat (length body)) false = Ok l.

Lemma frame_one_tlv t c si sub b : frame_one t c true si sub = Ok b -> tlv_shaped b.
Proof.
  unfold frame_one. cbn [negb andb]. intros H.
  destruct (enc_len (N.of_nat (length sub)) false) as [l|e] eqn:El; cbn [bind] in H; [|discriminate].
  inversion H; subst. rewrite app_nil_r. exists t, c, l, sub. split; [reflexivity|exact El].
Qed.

Lemma frame_outer_tlv : forall r c si s b, tlv_shaped s -> frame_outer r c true si s = Ok b -> tlv_shaped b.
Proof.
  induction r as [|t r IH]; intros c si s b Hs H; cbn [frame_outer] in H.
  - inversion H; subst. exact Hs.
  - destruct (frame_one t c true si s) as [s1|e] eqn:E1; cbn [bind] in H; [|discriminate].
    exact (IH _ _ _ _ (frame_one_tlv _ _ _ _ _ E1) H).
Qed.

Lemma der_enc_tlv T v t0 r p : tagset_of T = Ok (t0 :: r) ->
  enc_with DER (enc_content DER) T def_opts v = Ok p -> tlv_shaped p.
Proof.
  intros Hts He.
  destruct (enc_with_inv_c DER T v p def_codec_der He) as (ec & fl & ts & content & cns & _ & Hts' & _ & Hfr).
  rewrite Hts in Hts'. inversion Hts'; subst ts.
  cbn [frame] in Hfr. rewrite Bool.andb_false_r in Hfr. cbn [o_def def_opts] in Hfr.
  assert (Hd: (if cns then true else true) = true) by (destruct cns; reflexivity). rewrite Hd in Hfr.
  destruct (frame_one t0 cns true (ef_indef fl) content) as [s0|e] eqn:E0; cbn [bind] in Hfr; [|discriminate].
  exact (frame_outer_tlv _ _ _ _ _ (frame_one_tlv _ _ _ _ _ E0) Hfr).
Qed.

Lemma tlv_prefix a b z : tlv_shaped a -> tlv_shaped b -> a ++ z = b -> z = [].
Proof.
  intros (ta & ca & la & ba & -> & Ela) (tb & cb & lb & bb & -> & Elb) H.
  pose proof (dec_enc_tag ta ca (la ++ ba ++ z)) as Ha.
  pose proof (dec_enc_tag tb cb (lb ++ bb)) as Hb.
  rewrite <- !app_assoc in H. rewrite H in Ha. rewrite Hb in Ha.
  apply (f_equal (fun o : option (tag * bytes) => match o with Some (_, rr) => rr | None => [] end)) in Ha. cbv beta iota in Ha.
  rename Ha into Hrest.
  pose proof (dec_enc_len _ la (ba ++ z) Ela) as Hla.
  pose proof (dec_enc_len _ lb bb Elb) as Hlb.
  rewrite <- Hrest in Hla. rewrite Hlb in Hla. injection Hla as Hn Hbody.
  apply Nat2N.inj in Hn. apply (f_equal (@length N)) in Hbody. rewrite app_length in Hbody.
  destruct z; [reflexivity|]. cbn [length] in Hbody. lia.
Qed.

Lemma firstn_repeat0 : forall n k, (n <= k)%nat -> firstn n (repeat (0: N) k) = repeat 0 n.
Proof.
  induction n as [|n IH]; intros k H; [reflexivity|]. destruct k as [|k]; [lia|].
  cbn [repeat firstn]. rewrite IH by lia. reflexivity.
Qed.

Lemma pad_to_firstn m (a: bytes) n : (length a <= n)%nat -> (n <= m)%nat ->
  firstn n (pad_to m a) = a ++ repeat 0 (n - length a).
Proof.
  intros H1 H2. unfold pad_to. rewrite firstn_app. rewrite firstn_all2 by lia. f_equal.
  apply firstn_repeat0. lia.
Qed.

Lemma tlv_pad_eq a b m : tlv_shaped a -> tlv_shaped b -> (length a <= m)%nat -> (length b <= m)%nat ->
  pad_to m a = pad_to m b -> a = b.
Proof.
  intros Ha Hb La Lb H.
  destruct (Nat.le_ge_cases (length a) (length b)) as [Hle|Hle].
  - apply (f_equal (firstn (length b))) in H.
    rewrite (pad_to_firstn m a (length b) Hle Lb), (pad_to_firstn m b (length b) (Nat.le_refl _) Lb) in H.
    rewrite Nat.sub_diag in H. cbn [repeat] in H. rewrite app_nil_r in H.
    pose proof (tlv_prefix a b _ Ha Hb H) as Hz. rewrite Hz, app_nil_r in H. exact H.
  - apply (f_equal (firstn (length a))) in H.
    rewrite (pad_to_firstn m b (length a) Hle La), (pad_to_firstn m a (length a) (Nat.le_refl _) La) in H.
    rewrite Nat.sub_diag in H. cbn [repeat] in H. rewrite app_nil_r in H. symmetry in H.
    pose proof (tlv_prefix b a _ Hb Ha H) as Hz. rewrite Hz, app_nil_r in H. symmetry. exact H.
Qed.

Lemma max_len_ge (l: list bytes) a : In a l -> (length a <= max_len l)%nat.
Proof.
  unfold max_len. induction l as [|x l IH]; intros Hin; [destruct Hin|].
  cbn [fold_right]. destruct Hin as [->|Hin]; [lia|]. specialize (IH Hin). lia.
Qed.

Lemma tlv_pad_distinct (l: list bytes) : Forall tlv_shaped l -> pad_distinct l.
Proof.
  intros HF a b Ha Hb H. rewrite Forall_forall in HF.
  exact (tlv_pad_eq a b (max_len l) (HF a Ha) (HF b Hb) (max_len_ge l a Ha) (max_len_ge l b Hb) H).
Qed.

(* ---------- the CER encoder on SET OF: elements sorted by their (CER) encodings ---------- *)

Lemma enc_members_o_perm c o ms parts parts' : enc_members_o c o ms = Ok parts -> Permutation parts parts' ->
  exists ms', Permutation ms ms' /\ enc_members_o c o ms' = Ok parts'.
Proof.
  intros H Hp. rewrite (enc_members_o_of_k c o false) in H.
  destruct (enc_members_ko c o false ms) as [kps|e] eqn:Ek; cbn [bind] in H; [|discriminate].
  injection H as <-.
  destruct (Permutation_map_inv snd kps (Permutation_sym Hp)) as (kps' & Hs' & Hp').
  destruct (enc_members_ko_perm c o false ms kps kps' Ek Hp') as (ms' & Hpm & Hk').
  exists ms'. split; [exact Hpm|]. rewrite (enc_members_o_of_k c o false), Hk'. cbn [bind]. rewrite Hs'. reflexivity.
Qed.

Lemma enc_setof_cer_inv T t xs b0 r b :
  base_of T = TSetOf t -> tagset_of T = Ok (b0 :: r) ->
  enc_with CER (enc_content CER) T (mo false 1000) (VList xs) = Ok b ->
  exists ms' parts, Permutation (map (pair t) xs) ms' /\ enc_members_o CER (mo false 1000) ms' = Ok parts
                    /\ frame (b0 :: r) (concat parts) true (mo false 1000) true = Ok b.
Proof.
  intros Hb Hts He.
  destruct (enc_with_inv_g CER T false 1000 _ b stable_cer He) as (ec & fl & ts & content & cns & Hcenc & Hts' & Hcont & Hfr).
  rewrite Hts in Hts'. inversion Hts'; subst ts; clear Hts'.
  rewrite concrete_encoder_base in Hcenc. rewrite enc_content_base in Hcont. rewrite Hb in Hcenc, Hcont.
  vm_compute in Hcenc. inversion Hcenc; subst ec fl; clear Hcenc.
  rewrite enc_content_setof_g, elems_members_o in Hcont.
  destruct (enc_members_o CER (mo false 1000) (map (pair t) xs)) as [parts|e] eqn:Em; cbn [bind listof_finish] in Hcont; [|discriminate].
  inversion Hcont; subst content cns; clear Hcont. cbn [ef_indef] in Hfr.
  destruct (enc_members_o_perm CER _ _ parts (sort_setof parts) Em (sort_setof_perm_self parts)) as (ms' & Hp & Hm').
  exists ms', (sort_setof parts). split; [exact Hp|]. split; [exact Hm'|exact Hfr].
Qed.

(* DER on the members in CER's order: the same octets *)
Lemma wire_setof_cer ts ms ms' : Permutation ms ms' ->
  Forall (fun m => der_err_ok (fst m) (snd m)) ms ->
  Forall (fun m => exists t0 r, tagset_of (fst m) = Ok (t0 :: r)) ms ->
  (forall tvs, Forall2 (fun a b => tagset_of' b = tagset_of' a) (map fst ms') (map fst tvs) -> all_same tvs = true) ->
  wire_members true ts true (fun kps => sort_setof (map snd kps)) ms ms'.
Proof.
  intros Hp Herr Htags Hsame. split; [right; repeat split; exact Hp|].
  intros tvs Hd Ht. unfold der_container. rewrite (der_members_congr ms' tvs Hd).
  unfold arr_guess. rewrite (Hsame tvs Ht).
  pose proof (der_members_perm_res ms ms' Hp Herr) as Hres.
  destruct (der_members ms) as [kps|e] eqn:E1; destruct (der_members ms') as [kps'|e'] eqn:E2; cbn [bind].
  - assert (Hpd: pad_distinct (map snd kps)).
    { apply tlv_pad_distinct. apply der_members_F2 in E1. clear - E1 Htags.
      induction E1 as [|m kp ms kps [Hm _] _ IH]; cbn [map]; [constructor|].
      inversion Htags as [|? ? (t0 & r & Hts) Hrest]; subst.
      constructor; [exact (der_enc_tlv _ _ _ _ _ Hts Hm)|exact (IH Hrest)]. }
    rewrite <- (sort_setof_perm (map snd kps) (map snd kps') (Permutation_map snd Hres) Hpd). reflexivity.
  - destruct Hres.
  - destruct Hres.
  - destruct Hres as [-> ->]. reflexivity.
Qed.

(* ---------- the CER encoder on SET: components sorted by their tags ---------- *)

Definition keym (m: ty * val) : tagset := last_tag (tagset_of' (fst m)).

Lemma enc_set_cer_inv T fs vs b0 r b :
  base_of T = TSet fs -> tagset_of T = Ok (b0 :: r) -> rec_full fs vs = true ->
  Forall (fun f => not_choice (snd f)) fs ->
  enc_with CER (enc_content CER) T (mo false 1000) (VRec vs) = Ok b ->
  exists parts, enc_members_o CER (mo false 1000) (sort_by tagset_ltb keym (rec_members fs vs)) = Ok parts
                /\ frame (b0 :: r) (concat parts) true (mo false 1000) true = Ok b.
Proof.
  intros Hb Hts Hfull Hnc He.
  destruct (enc_with_inv_g CER T false 1000 _ b stable_cer He) as (ec & fl & ts & content & cns & Hcenc & Hts' & Hcont & Hfr).
  rewrite Hts in Hts'. inversion Hts'; subst ts; clear Hts'.
  rewrite concrete_encoder_base in Hcenc. rewrite enc_content_base in Hcont. rewrite Hb in Hcenc, Hcont.
  vm_compute in Hcenc. inversion Hcenc; subst ec fl; clear Hcenc.
  rewrite enc_content_set_g, (fields_members_o CER _ _ false 1000 fs vs Hfull) in Hcont.
  destruct (enc_members_ko CER (mo false 1000) false (rec_members fs vs)) as [kps|e] eqn:Ek; cbn [bind record_finish] in Hcont; [|discriminate].
  inversion Hcont; subst content cns; clear Hcont. cbn [ef_indef] in Hfr.
  exists (map snd (sort_by tagset_ltb fst kps)). split; [|exact Hfr].
  apply enc_members_ko_F2 in Ek.
  assert (HP: Forall2 (fun m kp => em_rel CER (mo false 1000) false m kp /\ not_choice (fst m)) (rec_members fs vs) kps).
  { assert (Hncm: Forall (fun m : ty * val => not_choice (fst m)) (rec_members fs vs)).
    { apply Forall_forall. intros m Hin. rewrite Forall_forall in Hnc.
      assert (Hin': In (fst m) (map snd fs)) by (rewrite <- (rec_members_fst fs vs Hfull); apply in_map; exact Hin).
      apply in_map_iff in Hin'. destruct Hin' as (f & Hfe & Hfin). rewrite <- Hfe. exact (Hnc f Hfin). }
    clear - Ek Hncm. induction Ek as [|m kp ms0 kps0 Hm _ IH]; [constructor|].
    inversion Hncm; subst. constructor; [split; assumption|apply IH; assumption]. }
  pose proof (sort_by_F2 tagset_ltb keym fst _
                (fun m kp (H: em_rel CER (mo false 1000) false m kp /\ not_choice (fst m)) =>
                   eq_trans (eq_sym (sort_key_plain false (fst m) (snd m) (proj2 H))) (eq_sym (proj2 (proj1 H))))
                _ _ HP) as HS.
  rewrite (enc_members_o_of_k CER _ false).
  assert (Hk': enc_members_ko CER (mo false 1000) false (sort_by tagset_ltb keym (rec_members fs vs)) = Ok (sort_by tagset_ltb fst kps)).
  { apply enc_members_ko_F2. clear - HS. induction HS as [|m kp ms0 kps0 [Hm _] _ IH]; constructor; assumption. }
  rewrite Hk'. reflexivity.
Qed.

Lemma der_members_sorted ms kps : der_members ms = Ok kps ->
  der_members (sort_by tagset_ltb keym ms) = Ok (sort_by tagset_ltb fst kps).
Proof.
  intros H. apply der_members_F2 in H. apply der_members_F2.
  apply (sort_by_F2 tagset_ltb keym fst dm_rel); [|exact H].
  intros m kp [_ Hk]. unfold keym. symmetry. exact Hk.
Qed.

Lemma wire_set_cer ts ms :
  Forall (fun m => der_err_ok (fst m) (snd m)) ms ->
  (forall ms' tvs, Permutation ms ms' ->
     Forall2 (fun a b => tagset_of' b = tagset_of' a) (map fst ms') (map fst tvs) -> all_same tvs = true -> (length ms <= 1)%nat) ->
  wire_members true ts true (fun kps => map snd (sort_by tagset_ltb fst kps)) ms (sort_by tagset_ltb keym ms).
Proof.
  intros Herr Hshort.
  pose proof (sort_by_perm_self tagset_ltb keym ms) as Hp.
  split; [right; repeat split; exact Hp|].
  intros tvs Hd Ht. unfold der_container. rewrite (der_members_congr _ tvs Hd).
  pose proof (der_members_perm_res ms _ Hp Herr) as Hres.
  destruct (der_members ms) as [kps|e] eqn:E1.
  - rewrite (der_members_sorted ms kps E1). cbn [bind]. unfold arr_guess.
    destruct (all_same tvs) eqn:Esame.
    + pose proof (Hshort _ tvs Hp Ht Esame) as Hl. rewrite <- (der_members_length _ _ E1) in Hl.
      destruct kps as [|kp [|kp2 kps]]; try reflexivity. cbn [length] in Hl. lia.
    + rewrite sort_tags_idem. reflexivity.
  - destruct (der_members (sort_by tagset_ltb keym ms)) as [kps'|e'] eqn:E2; [destruct Hres|].
    destruct Hres as [-> ->]. reflexivity.
Qed.

(* ---------- SET OF / SET as the CER encoder writes them ---------- *)

Lemma setof_cer_item R cd aset T' t : skrel_ok R true -> dec_ok cd ->
  base_of T' = TSetOf t -> sl_frag aset T' = true -> sl_frag aset t = true ->
  (forall x, sl_val CER cd t x = true -> sl_item_m R CER cd false 1000 t x) ->
  forall xs, forallb (sl_val CER cd t) xs = true -> sl_item_m R CER cd false 1000 T' (VList xs).
Proof.
  intros HR Hcd Hb Hfr Hfrt IHt xs Hxs.
  destruct (frag_shape aset T' Hfr) as (b0 & r & Hb0 & Hts & _ & Hex & _).
  assert (Hb0': b0 = utag true (if true then 17 else 16)).
  { rewrite Hb in Hb0. inversion Hb0; reflexivity. }
  set (ms := map (pair t) xs).
  assert (Hallt: Forall (fun m : ty * val => fst m = t) ms).
  { apply Forall_forall. intros m Hin. apply in_map_iff in Hin. destruct Hin as (x & <- & _). reflexivity. }
  assert (Hsame: forall ms' tvs, Forall (fun m : ty * val => fst m = t) ms' ->
            Forall2 (fun a b => tagset_of' b = tagset_of' a) (map fst ms') (map fst tvs) -> all_same tvs = true).
  { intros ms' tvs Hall Ht. rewrite all_same_map, (all_same_tys_ext _ _ Ht).
    apply (all_same_const t). apply Forall_forall. intros a Ha. apply in_map_iff in Ha.
    destruct Ha as (m & <- & Hm). rewrite Forall_forall in Hall. exact (Hall m Hm). }
  rewrite forallb_forall in Hxs.
  apply (container_item_m R true CER cd false 1000 T' true (VList xs) ms b0 r
           (fun kps => sort_setof (map snd kps)) HR Hcd Hts Hb0' Hex).
  - rewrite (skel_listof T' t xs (or_intror Hb)), (tagset_of'_ok _ _ Hts). unfold ms. rewrite map_map. reflexivity.
  - exact (der_setof T' t _ xs Hb Hts).
  - intros b He.
    destruct (enc_setof_cer_inv T' t xs b0 r b Hb Hts He) as (ms' & parts & Hp & Hm & Hfr').
    exists ms', parts. split; [|split; assumption].
    apply (wire_setof_cer (b0 :: r) ms ms' Hp).
    + apply Forall_forall. intros m Hin. apply in_map_iff in Hin. destruct Hin as (x & <- & Hx).
      cbn [fst snd]. exact (der_err_all cd aset t t eq_refl Hfrt x (Hxs x Hx)).
    + destruct (frag_shape aset t Hfrt) as (t0 & rt & _ & Htt & _).
      apply Forall_forall. intros m Hin. rewrite Forall_forall in Hallt. rewrite (Hallt m Hin). exists t0, rt. exact Htt.
    + intros tvs Ht. exact (Hsame ms' tvs (perm_Forall _ _ _ Hp Hallt) Ht).
  - apply Forall_forall. intros m Hin. apply in_map_iff in Hin. destruct Hin as (x & <- & Hx).
    cbn [fst snd]. apply IHt. exact (Hxs x Hx).
Qed.

Lemma set_cer_item R cd aset T' fs : skrel_ok R true -> dec_ok cd ->
  base_of T' = TSet fs -> sl_frag aset T' = true ->
  Forall (fun f => not_choice (snd f)) fs -> set_mixed (map snd fs) = true ->
  forall vs, rec_full fs vs = true ->
  Forall (fun m => sl_item_m R CER cd false 1000 (fst m) (snd m)) (rec_members fs vs) ->
  Forall (fun m => der_err_ok (fst m) (snd m)) (rec_members fs vs) ->
  sl_item_m R CER cd false 1000 T' (VRec vs).
Proof.
  intros HR Hcd Hb Hfr Hnc Hmix vs Hfull Hms Herr.
  destruct (frag_shape aset T' Hfr) as (b0 & r & Hb0 & Hts & _ & Hex & _).
  assert (Hb0': b0 = utag true (if true then 17 else 16)).
  { rewrite Hb in Hb0. inversion Hb0; reflexivity. }
  set (ms := rec_members fs vs) in *.
  assert (Hshort: forall ms' tvs, Permutation ms ms' ->
            Forall2 (fun a b => tagset_of' b = tagset_of' a) (map fst ms') (map fst tvs) ->
            all_same tvs = true -> (length ms <= 1)%nat).
  { intros ms' tvs Hp Ht Esame.
    rewrite all_same_map, (all_same_tys_ext _ _ Ht) in Esame.
    rewrite <- (all_same_tys_perm _ _ (Permutation_map fst Hp)) in Esame.
    subst ms. rewrite (rec_members_fst fs vs Hfull) in Esame.
    rewrite set_mixed_spec in Hmix.
    assert (Hlm: length (rec_members fs vs) = length (map snd fs)) by (rewrite <- (rec_members_fst fs vs Hfull), map_length; reflexivity).
    rewrite Hlm. destruct (map snd fs) as [|t1 [|t2 rest]]; cbn [length]; try lia.
    rewrite Esame in Hmix. discriminate Hmix. }
  apply (container_item_m R true CER cd false 1000 T' true (VRec vs) ms b0 r
           (fun kps => map snd (sort_by tagset_ltb fst kps)) HR Hcd Hts Hb0' Hex).
  - rewrite (skel_record T' fs vs (or_intror Hb)), (tagset_of'_ok _ _ Hts), (skel_fields_members fs vs Hfull). reflexivity.
  - exact (der_set T' fs _ vs Hb Hts Hfull Hnc).
  - intros b He.
    destruct (enc_set_cer_inv T' fs vs b0 r b Hb Hts Hfull Hnc He) as (parts & Hm & Hfr').
    exists (sort_by tagset_ltb keym ms), parts. split; [|split; assumption].
    exact (wire_set_cer (b0 :: r) ms Herr Hshort).
  - exact Hms.
Qed.

(* the induction for the CER encoder, SET OF and SET included *)
Theorem sl_item_all_cer R cd : skrel_ok R true -> dec_ok cd ->
  forall T T', base_of T' = base_of T -> sl_frag true T' = true -> no_f01 T' = true ->
  forall v, sl_val CER cd T' v = true -> sl_item_m R CER cd false 1000 T' v.
Proof.
  intros HR Hcd.
  induction T as [| | | | | | | | n|fs IH|fs IH|t IH|t IH|alts IH| |tg x IH|tg x IH] using ty_ind';
    intros T' Hb Hfr Hno v Hv; cbn [base_of] in Hb;
    destruct (frag_shape true T' Hfr) as (_ & _ & _ & _ & _ & _ & Hfb);
    pose proof (no_f01_base T' Hno) as Hnob;
    try (assert (Hp: prim_base T' = true) by (unfold prim_base; rewrite Hb; reflexivity);
         rewrite (sl_val_prim CER cd T' v Hp) in Hv;
         exact (leaf_item_m R true CER cd false 1000 T' v HR stable_cer Hcd (frag_prim true T' Hfr Hp) (fun _ => proj2 Hnob) Hv));
    try (rewrite Hb in Hfb; discriminate Hfb).
  - (* SEQUENCE *)
    rewrite Hb in Hfb, Hnob. cbn [sl_frag] in Hfb. cbn [no_f01] in Hnob.
    rewrite sl_val_base, Hb in Hv. destruct v; try discriminate Hv. rewrite sl_val_seq in Hv.
    assert (IH': Forall (fun f => forall T', base_of T' = base_of (snd f) -> sl_frag true T' = true -> (false = false -> no_f01 T' = true) ->
                   forall v, sl_val CER cd T' v = true -> sl_item_m R CER cd false 1000 T' v) fs).
    { apply Forall_forall. intros f Hin T'' Hb'' Hf'' Hn'' v'' Hv''. rewrite Forall_forall in IH.
      exact (IH f Hin T'' Hb'' Hf'' (Hn'' eq_refl) v'' Hv''). }
    destruct (fields_prep_m R CER cd false 1000 true fs IH' Hfb (fun _ => proj1 Hnob) fs0 Hv) as (Hfull & Hms & Hnc).
    apply (record_sl_item_m R true CER cd false 1000 true T' fs false HR stable_cer Hcd Hb ltac:(discriminate) Hfr Hnc ltac:(discriminate) fs0 Hfull Hms).
  - (* SET *)
    rewrite Hb in Hfb, Hnob. cbn [sl_frag] in Hfb. cbn [no_f01] in Hnob.
    apply Bool.andb_true_iff in Hfb. destruct Hfb as [Hfb Hmix]. cbn [andb] in Hfb.
    rewrite sl_val_base, Hb in Hv. destruct v; try discriminate Hv. rewrite sl_val_set in Hv.
    assert (IH': Forall (fun f => forall T', base_of T' = base_of (snd f) -> sl_frag true T' = true -> (false = false -> no_f01 T' = true) ->
                   forall v, sl_val CER cd T' v = true -> sl_item_m R CER cd false 1000 T' v) fs).
    { apply Forall_forall. intros f Hin T'' Hb'' Hf'' Hn'' v'' Hv''. rewrite Forall_forall in IH.
      exact (IH f Hin T'' Hb'' Hf'' (Hn'' eq_refl) v'' Hv''). }
    destruct (fields_prep_m R CER cd false 1000 true fs IH' Hfb (fun _ => proj1 Hnob) fs0 Hv) as (Hfull & Hms & Hnc).
    assert (Herr: Forall (fun m => der_err_ok (fst m) (snd m)) (rec_members fs fs0)).
    { refine (proj1 (proj2 (fields_prep_P der_err_ok CER cd true fs _ Hfb fs0 Hv))).
      apply Forall_forall. intros f _ T'' Hb'' Hf'' v'' Hv''. exact (der_err_all cd true (snd f) T'' Hb'' Hf'' v'' Hv''). }
    exact (set_cer_item R cd true T' fs HR Hcd Hb Hfr Hnc Hmix fs0 Hfull Hms Herr).
  - (* SEQUENCE OF *)
    rewrite Hb in Hfb, Hnob. cbn [sl_frag] in Hfb. cbn [no_f01] in Hnob.
    rewrite sl_val_base, Hb in Hv. destruct v; try discriminate Hv. cbn [sl_val] in Hv.
    apply (listof_sl_item_m R true CER cd false 1000 true T' t false HR stable_cer Hcd Hb ltac:(discriminate) Hfr); [|exact Hv].
    intros x Hx. exact (IH t eq_refl Hfb (proj1 Hnob) x Hx).
  - (* SET OF *)
    rewrite Hb in Hfb, Hnob. cbn [sl_frag andb] in Hfb. cbn [no_f01] in Hnob.
    rewrite sl_val_base, Hb in Hv. destruct v; try discriminate Hv. cbn [sl_val] in Hv.
    apply (setof_cer_item R cd true T' t HR Hcd Hb Hfr Hfb); [|exact Hv].
    intros x Hx. exact (IH t eq_refl Hfb (proj1 Hnob) x Hx).
  - apply (IH T' Hb Hfr Hno v Hv).
  - apply (IH T' Hb Hfr Hno v Hv).
Qed.

(* the CER encoder, SET OF and SET included: it sorts their members, so the decoded object lists
   them in CER's order; same skeleton up to the order under SET OF / SET nodes, the leaves a
   permutation, and the DER re-encoding still is the DER encoding of the original *)
Theorem schemaless_roundtrip_cer_encoder_sets : forall cd d k T v b tl,
  dec_ok cd -> sl_frag true T = true -> no_f01 T = true -> sl_val CER cd T v = true ->
  encode CER d k T v = Ok b -> N.of_nat (length b) <= index_max ->
  exists T0 v0, decode cd None (b ++ tl) = Ok (DV T0 v0, tl)
    /\ tagset_of T0 = tagset_of T
    /\ sk_sim (skel T v) (skel T0 v0)
    /\ Permutation (leaves T v) (leaves T0 v0)
    /\ encode DER true 0 T0 v0 = encode DER true 0 T v.
Proof.
  intros cd d k T v b tl Hcd Hfr Hno Hv He Hmax.
  rewrite encode_cer_fixed in He.
  destruct (sl_item_all_cer sk_sim cd skrel_sim Hcd T T eq_refl Hfr Hno v Hv b He Hmax)
    as (_ & _ & T0 & v0 & Hts & _ & Hsk & Hder & Hc).
  exists T0, v0. split; [|split; [exact Hts|split; [exact Hsk|split; [unfold leaves; apply sk_sim_leaves; exact Hsk|exact Hder]]]].
  unfold decode.
  assert (Hf: (2 * length b <= dec_fuel None (b ++ tl))%nat) by (unfold dec_fuel; rewrite app_length; lia).
  pose proof (consumes_decode_with cd _ None b tl (DV T0 v0) (Hc _ false Hf)) as Hdw.
  unfold decode_with in Hdw. exact Hdw.
Qed.

Print Assumptions schemaless_roundtrip_cer_encoder_sets.

(* ---------- non-vacuity ---------- *)

(* indefinite lengths and 2-octet segments, BER encoder, CER decoder; SET OF and SET inside *)
Example schemaless_roundtrip_ber_modes_nonvacuous :
  sl_frag true sl2_example_ty = true /\ no_f01 sl2_example_ty = false
  /\ (let T := TExp (mkTag Appl false 7)
                 (TSeq [ (Req, TExp (mkTag Ctx false 0) (TSeqOf TInt));
                         (Req, TSetOf (TExp (mkTag Ctx false 1) TOcts));
                         (Req, TSet [(Req, TOcts); (Req, TExp (mkTag Ctx false 2) (TSeqOf (TSeqOf TNull))); (Req, TBool)]);
                         (Req, TSeq []); (Req, TReal); (Req, TSet [(Req, TStr 12)]); (Req, TExp (mkTag Priv false 40) TBits) ]) in
      let v := VRec [ Some (VList [VInt 5; VInt (-129)]);
                      Some (VList [VOcts [7; 7; 7]; VOcts [3]; VOcts []]);
                      Some (VRec [Some (VOcts [1; 2; 3]); Some (VList [VList [VNull; VNull]; VList []]); Some (VBool false)]);
                      Some (VRec []); Some (VReal (RBin 10 0)); Some (VRec [Some (VOcts [104; 105; 106])]);
                      Some (VBits [true; false; true; true; false; false; true; false; true; true; true; false; false; false; false; false; true]) ] in
      sl_frag true T = true /\ no_f01 T = true /\ sl_val BER CER T v = true
      /\ exists b, encode BER false 2 T v = Ok b /\ N.of_nat (length b) <= index_max /\ length b = 135%nat
           /\ exists T0 v0, decode CER None (b ++ [9]) = Ok (DV T0 v0, [9])
                /\ leaves T0 v0 = leaves T v /\ length (leaves T v) = 12%nat
                /\ encode DER true 0 T0 v0 = encode DER true 0 T v).
Proof.
  split; [vm_compute; reflexivity|]. split; [vm_compute; reflexivity|]. cbv zeta.
  split; [vm_compute; reflexivity|]. split; [vm_compute; reflexivity|]. split; [vm_compute; reflexivity|].
  eexists. split; [vm_compute; reflexivity|]. split; [vm_compute; discriminate|]. split; [reflexivity|].
  eexists; eexists. split; [vm_compute; reflexivity|]. split; [vm_compute; reflexivity|].
  split; [vm_compute; reflexivity|]. vm_compute. reflexivity.
Qed.

(* the CER encoder with SET OF and SET: the decoded object has the members in CER's order *)
Example schemaless_roundtrip_cer_sets_nonvacuous :
  let T := TSeq [ (Req, TSetOf TInt); (Req, TSet [(Req, TOcts); (Req, TBool); (Req, TExp (mkTag Ctx false 0) TOcts)]) ] in
  let v := VRec [ Some (VList [VInt 300; VInt 6; VInt 5]); Some (VRec [Some (VOcts [1]); Some (VBool true); Some (VOcts [2])]) ] in
  sl_frag true T = true /\ no_f01 T = true /\ sl_val CER BER T v = true
  /\ exists b, encode CER true 0 T v = Ok b /\ N.of_nat (length b) <= index_max
       /\ exists T0 v0, decode BER None b = Ok (DV T0 v0, [])
            /\ leaves T0 v0 <> leaves T v
            /\ encode DER true 0 T0 v0 = encode DER true 0 T v.
Proof.
  cbv zeta. split; [vm_compute; reflexivity|]. split; [vm_compute; reflexivity|]. split; [vm_compute; reflexivity|].
  eexists. split; [vm_compute; reflexivity|]. split; [vm_compute; discriminate|].
  eexists; eexists. split; [vm_compute; reflexivity|]. split; [vm_compute; discriminate|]. vm_compute. reflexivity.
Qed.

(* why the F01 class is excluded in indefinite mode: [1] EXPLICIT INTEGER is written A1 03 02 01 05 00 00
   (definite length AND end-of-octets); without a schema, too, the decoder stops before the 00 00,
   and inside a SEQUENCE the spurious 00 00 ends the SEQUENCE early *)
Example schemaless_f01_refuted :
  let T := TSeq [(Req, TExp (mkTag Ctx false 1) TInt); (Req, TNull)] in
  let v := VRec [Some (VInt 5); Some VNull] in
  sl_frag true T = true /\ no_f01 T = false /\ sl_val BER BER T v = true
  /\ encode BER false 0 T v = Ok [48; 128; 161; 3; 2; 1; 5; 0; 0; 5; 0; 0; 0]
  /\ decode BER None [48; 128; 161; 3; 2; 1; 5; 0; 0; 5; 0; 0; 0]
     = Ok (DV (TSeq [(Req, TExp (mkTag Ctx true 1) TInt)]) (VRec [Some (VInt 5)]), [5; 0; 0; 0]).
Proof. cbv zeta. repeat split; vm_compute; reflexivity. Qed.

Print Assumptions schemaless_roundtrip_ber_modes_nonvacuous.
Print Assumptions schemaless_roundtrip_cer_sets_nonvacuous.

(* ------------------------------------------------------------------------------------------ *)
(* Absent OPTIONAL components.  Without a schema they are simply not there: what the decoder    *)
(* reads is the encoding of the value PRUNED to the components present, each of them mandatory. *)
(* ------------------------------------------------------------------------------------------ *)

Definition pres_ok (p: presence) : bool := match p with Def _ => false | _ => true end.
Definition is_opt (p: presence) : bool := match p with Opt => true | _ => false end.

(* SEQUENCE / SET values with every mandatory component present, OPTIONAL ones present or not, no DEFAULT *)
Fixpoint prunable (T: ty) (v: val) {struct T} : bool :=
  match T with
  | TImp _ x | TExp _ x => prunable x v
  | TSeq fs | TSet fs =>
      match v with
      | VRec vs =>
          (fix go (fs: list (presence * ty)) (vs: list (option val)) : bool :=
             match fs, vs with
             | [], [] => true
             | f :: fs', Some x :: vs' => pres_ok (fst f) && prunable (snd f) x && go fs' vs'
             | f :: fs', None :: vs' => is_opt (fst f) && go fs' vs'
             | _, _ => false
             end) fs vs
      | _ => false
      end
  | _ => true
  end.

(* the type and value with the absent components removed and the present ones made mandatory,
   in SEQUENCE / SET at any depth outside SEQUENCE OF / SET OF *)
Fixpoint prune (T: ty) (v: val) {struct T} : ty * val :=
  match T with
  | TImp t x => (TImp t (fst (prune x v)), snd (prune x v))
  | TExp t x => (TExp t (fst (prune x v)), snd (prune x v))
  | TSeq fs =>
      match v with
      | VRec vs =>
          let ms := (fix go (fs: list (presence * ty)) (vs: list (option val)) : list (ty * val) :=
                       match fs, vs with
                       | f :: fs', Some x :: vs' => prune (snd f) x :: go fs' vs'
                       | _ :: fs', None :: vs' => go fs' vs'
                       | _, _ => []
                       end) fs vs in
          (TSeq (rec_ty_of ms), VRec (rec_val_of ms))
      | _ => (T, v)
      end
  | TSet fs =>
      match v with
      | VRec vs =>
          let ms := (fix go (fs: list (presence * ty)) (vs: list (option val)) : list (ty * val) :=
                       match fs, vs with
                       | f :: fs', Some x :: vs' => prune (snd f) x :: go fs' vs'
                       | _ :: fs', None :: vs' => go fs' vs'
                       | _, _ => []
                       end) fs vs in
          (TSet (rec_ty_of ms), VRec (rec_val_of ms))
      | _ => (T, v)
      end
  | _ => (T, v)
  end.

Definition prune_fields : list (presence * ty) -> list (option val) -> list (ty * val) :=
  fix go (fs: list (presence * ty)) (vs: list (option val)) : list (ty * val) :=
    match fs, vs with
    | f :: fs', Some x :: vs' => prune (snd f) x :: go fs' vs'
    | _ :: fs', None :: vs' => go fs' vs'
    | _, _ => []
    end.

Definition prunable_fields : list (presence * ty) -> list (option val) -> bool :=
  fix go (fs: list (presence * ty)) (vs: list (option val)) : bool :=
    match fs, vs with
    | [], [] => true
    | f :: fs', Some x :: vs' => pres_ok (fst f) && prunable (snd f) x && go fs' vs'
    | f :: fs', None :: vs' => is_opt (fst f) && go fs' vs'
    | _, _ => false
    end.

Lemma prune_seq fs vs : prune (TSeq fs) (VRec vs) = (TSeq (rec_ty_of (prune_fields fs vs)), VRec (rec_val_of (prune_fields fs vs))).
Proof. reflexivity. Qed.
Lemma prune_set fs vs : prune (TSet fs) (VRec vs) = (TSet (rec_ty_of (prune_fields fs vs)), VRec (rec_val_of (prune_fields fs vs))).
Proof. reflexivity. Qed.
Lemma prunable_seq fs vs : prunable (TSeq fs) (VRec vs) = prunable_fields fs vs. Proof. reflexivity. Qed.
Lemma prunable_set fs vs : prunable (TSet fs) (VRec vs) = prunable_fields fs vs. Proof. reflexivity. Qed.

(* a version of [enc_with_congr] that asks about the contents octets only for the encoder class in use *)
Lemma enc_with_congr' c T1 T2 o v1 v2 :
  concrete_encoder c T1 = concrete_encoder c T2 -> tagset_of T1 = tagset_of T2 ->
  (forall cd fl, concrete_encoder c T2 = Ok (cd, fl) -> forall o', enc_content c T1 cd fl o' v1 = enc_content c T2 cd fl o' v2) ->
  enc_with c (enc_content c) T1 o v1 = enc_with c (enc_content c) T2 o v2.
Proof.
  intros H1 H2 H3. unfold enc_with. rewrite H1, H2.
  destruct (concrete_encoder c T2) as [[cd fl]|e] eqn:E; cbn [bind]; [|reflexivity].
  destruct (tagset_of T2) as [ts|e]; cbn [bind]; [|reflexivity].
  rewrite (H3 cd fl eq_refl). reflexivity.
Qed.

(* what pruning keeps: the encoder class, the tag set, and - for the BER encoder, which does not
   treat OPTIONAL components specially - the contents octets *)
Definition prune_ok (T: ty) (v: val) : Prop :=
  concrete_encoder BER (fst (prune T v)) = concrete_encoder BER T
  /\ tagset_of (fst (prune T v)) = tagset_of T
  /\ forall cd fl, concrete_encoder BER T = Ok (cd, fl) ->
       forall o, enc_content BER (fst (prune T v)) cd fl o (snd (prune T v)) = enc_content BER T cd fl o v.

Lemma prune_ok_enc T v o : prune_ok T v ->
  enc_with BER (enc_content BER) (fst (prune T v)) o (snd (prune T v)) = enc_with BER (enc_content BER) T o v.
Proof. intros (H1 & H2 & H3). apply enc_with_congr'; assumption. Qed.

(* the contents octets of a BER SEQUENCE / SET *)
Definition seq_content (o: eopts) (fs: list (presence * ty)) (vs: list (option val)) : res (bytes * bool) :=
  do parts <- fields_c BER EcSeq false o fs vs; Ok (concat (map snd parts), true).

Lemma seq_content_prune o : forall fs vs,
  Forall (fun f => forall x, prunable (snd f) x = true -> prune_ok (snd f) x) fs ->
  prunable_fields fs vs = true ->
  seq_content o (rec_ty_of (prune_fields fs vs)) (rec_val_of (prune_fields fs vs)) = seq_content o fs vs.
Proof.
  unfold seq_content.
  induction fs as [|[p ft] fs IH]; intros vs HF Hp.
  - destruct vs; [reflexivity|discriminate Hp].
  - inversion HF as [|? ? Hf HFr]; subst. cbn [snd] in Hf.
    destruct vs as [|[x|] vs]; try discriminate Hp.
    + change (prunable_fields ((p, ft) :: fs) (Some x :: vs)) with (pres_ok p && prunable ft x && prunable_fields fs vs)%bool in Hp.
      apply Bool.andb_true_iff in Hp. destruct Hp as [Hp Hps]. apply Bool.andb_true_iff in Hp. destruct Hp as [Hpo Hpx].
      change (prune_fields ((p, ft) :: fs) (Some x :: vs)) with (prune ft x :: prune_fields fs vs).
      specialize (IH vs HFr Hps).
      assert (E1: fields_c BER EcSeq false o (rec_ty_of (prune ft x :: prune_fields fs vs)) (rec_val_of (prune ft x :: prune_fields fs vs))
                  = (do b <- enc_with BER (enc_content BER) (fst (prune ft x)) o (snd (prune ft x));
                     do rest <- fields_c BER EcSeq false o (rec_ty_of (prune_fields fs vs)) (rec_val_of (prune_fields fs vs));
                     Ok ((set_sort_key false (fst (prune ft x)) (snd (prune ft x)), b) :: rest))) by reflexivity.
      assert (E2: fields_c BER EcSeq false o ((p, ft) :: fs) (Some x :: vs)
                  = (do b <- enc_with BER (enc_content BER) ft o x;
                     do rest <- fields_c BER EcSeq false o fs vs;
                     Ok ((set_sort_key false ft x, b) :: rest))) by (destruct p; try discriminate Hpo; reflexivity).
      rewrite E1, E2, (prune_ok_enc ft x o (Hf x Hpx)).
      destruct (enc_with BER (enc_content BER) ft o x) as [b|e]; cbn [bind]; [|reflexivity].
      destruct (fields_c BER EcSeq false o (rec_ty_of (prune_fields fs vs)) (rec_val_of (prune_fields fs vs))) as [r1|e1];
        destruct (fields_c BER EcSeq false o fs vs) as [r2|e2]; cbn [bind] in *; try discriminate IH.
      * injection IH as IH. cbn [map snd concat]. rewrite IH. reflexivity.
      * exact IH.
    + change (prunable_fields ((p, ft) :: fs) (None :: vs)) with (is_opt p && prunable_fields fs vs)%bool in Hp.
      apply Bool.andb_true_iff in Hp. destruct Hp as [Hpo Hps]. destruct p; try discriminate Hpo.
      change (prune_fields ((Opt, ft) :: fs) (None :: vs)) with (prune_fields fs vs).
      rewrite (IH vs HFr Hps). reflexivity.
Qed.

Theorem prune_ok_all : forall T v, prunable T v = true -> prune_ok T v.
Proof.
  induction T as [| | | | | | | | n|fs IH|fs IH|t IH|t IH|alts IH| |tg x IH|tg x IH] using ty_ind';
    intros v Hp; try (split; [reflexivity|split; [reflexivity|intros; reflexivity]]).
  - (* SEQUENCE *)
    destruct v; try discriminate Hp. rewrite prunable_seq in Hp. unfold prune_ok. rewrite prune_seq. cbn [fst snd].
    split; [reflexivity|]. split; [reflexivity|]. intros cd fl Hc o.
    vm_compute in Hc. inversion Hc; subst cd fl.
    rewrite !enc_content_seq_g. exact (seq_content_prune o fs fs0 IH Hp).
  - (* SET *)
    destruct v; try discriminate Hp. rewrite prunable_set in Hp. unfold prune_ok. rewrite prune_set. cbn [fst snd].
    split; [reflexivity|]. split; [reflexivity|]. intros cd fl Hc o.
    vm_compute in Hc. inversion Hc; subst cd fl.
    rewrite !enc_content_set_g. exact (seq_content_prune o fs fs0 IH Hp).
  - (* IMPLICIT *)
    cbn [prunable] in Hp. destruct (IH v Hp) as (H1 & H2 & H3). unfold prune_ok. cbn [prune fst snd].
    split; [rewrite (concrete_encoder_base BER (TImp tg _)), (concrete_encoder_base BER (TImp tg x)); cbn [base_of];
            rewrite <- !concrete_encoder_base; exact H1|].
    split; [cbn [tagset_of]; rewrite H2; reflexivity|].
    intros cd fl Hc o. cbn [enc_content]. apply H3.
    rewrite (concrete_encoder_base BER (TImp tg x)) in Hc. cbn [base_of] in Hc. rewrite <- concrete_encoder_base in Hc. exact Hc.
  - (* EXPLICIT *)
    cbn [prunable] in Hp. destruct (IH v Hp) as (H1 & H2 & H3). unfold prune_ok. cbn [prune fst snd].
    split; [rewrite (concrete_encoder_base BER (TExp tg _)), (concrete_encoder_base BER (TExp tg x)); cbn [base_of];
            rewrite <- !concrete_encoder_base; exact H1|].
    split; [cbn [tagset_of]; rewrite H2; reflexivity|].
    intros cd fl Hc o. cbn [enc_content]. apply H3.
    rewrite (concrete_encoder_base BER (TExp tg x)) in Hc. cbn [base_of] in Hc. rewrite <- concrete_encoder_base in Hc. exact Hc.
Qed.

(* pruning keeps the skeleton: absent components have none *)
Lemma prune_skel : forall T v W W', tagset_of' W' = tagset_of' W -> prunable T v = true ->
  skel_aux W' (fst (prune T v)) (snd (prune T v)) = skel_aux W T v.
Proof.
  assert (Hfields: forall fs, Forall (fun f => forall v W W', tagset_of' W' = tagset_of' W -> prunable (snd f) v = true ->
                      skel_aux W' (fst (prune (snd f) v)) (snd (prune (snd f) v)) = skel_aux W (snd f) v) fs ->
            forall vs, prunable_fields fs vs = true -> map skelm (prune_fields fs vs) = skel_fields fs vs).
  { induction fs as [|[p ft] fs IHfs]; intros HF vs Hp.
    - destruct vs; [reflexivity|discriminate Hp].
    - inversion HF as [|? ? Hf HFr]; subst. cbn [snd] in Hf.
      destruct vs as [|[x|] vs]; try discriminate Hp.
      + change (prunable_fields ((p, ft) :: fs) (Some x :: vs)) with (pres_ok p && prunable ft x && prunable_fields fs vs)%bool in Hp.
        apply Bool.andb_true_iff in Hp. destruct Hp as [Hp Hps]. apply Bool.andb_true_iff in Hp. destruct Hp as [_ Hpx].
        change (prune_fields ((p, ft) :: fs) (Some x :: vs)) with (prune ft x :: prune_fields fs vs).
        change (skel_fields ((p, ft) :: fs) (Some x :: vs)) with (skel ft x :: skel_fields fs vs).
        cbn [map]. rewrite (IHfs HFr vs Hps). f_equal. unfold skelm, skel.
        apply Hf; [|exact Hpx]. destruct (prune_ok_all ft x Hpx) as (_ & Hts & _). unfold tagset_of'. rewrite Hts. reflexivity.
      + change (prunable_fields ((p, ft) :: fs) (None :: vs)) with (is_opt p && prunable_fields fs vs)%bool in Hp.
        apply Bool.andb_true_iff in Hp. destruct Hp as [_ Hps].
        change (prune_fields ((p, ft) :: fs) (None :: vs)) with (prune_fields fs vs).
        change (skel_fields ((p, ft) :: fs) (None :: vs)) with (skel_fields fs vs).
        exact (IHfs HFr vs Hps). }
  induction T as [| | | | | | | | n|fs IH|fs IH|t IH|t IH|alts IH| |tg x IH|tg x IH] using ty_ind';
    intros v W W' Hw Hp; try (cbn [prune fst snd skel_aux]; rewrite Hw; reflexivity).
  - destruct v; try discriminate Hp. rewrite prunable_seq in Hp. rewrite prune_seq. cbn [fst snd].
    change (skel_aux W' (TSeq (rec_ty_of (prune_fields fs fs0))) (VRec (rec_val_of (prune_fields fs fs0))))
      with (SNode (tagset_of' W') (skel_fields (rec_ty_of (prune_fields fs fs0)) (rec_val_of (prune_fields fs fs0)))).
    change (skel_aux W (TSeq fs) (VRec fs0)) with (SNode (tagset_of' W) (skel_fields fs fs0)).
    rewrite (skel_fields_members _ _ (rec_of_full _)), rec_of_members, Hw, (Hfields fs IH fs0 Hp). reflexivity.
  - destruct v; try discriminate Hp. rewrite prunable_set in Hp. rewrite prune_set. cbn [fst snd].
    change (skel_aux W' (TSet (rec_ty_of (prune_fields fs fs0))) (VRec (rec_val_of (prune_fields fs fs0))))
      with (SNode (tagset_of' W') (skel_fields (rec_ty_of (prune_fields fs fs0)) (rec_val_of (prune_fields fs fs0)))).
    change (skel_aux W (TSet fs) (VRec fs0)) with (SNode (tagset_of' W) (skel_fields fs fs0)).
    rewrite (skel_fields_members _ _ (rec_of_full _)), rec_of_members, Hw, (Hfields fs IH fs0 Hp). reflexivity.
  - cbn [prune fst snd]. reflexivity.
  - cbn [prunable] in Hp. cbn [prune fst snd skel_aux]. exact (IH v W W' Hw Hp).
  - cbn [prunable] in Hp. cbn [prune fst snd skel_aux]. exact (IH v W W' Hw Hp).
Qed.

Lemma prune_skel_top T v : prunable T v = true -> skel (fst (prune T v)) (snd (prune T v)) = skel T v.
Proof.
  intros Hp. unfold skel. apply prune_skel; [|exact Hp].
  destruct (prune_ok_all T v Hp) as (_ & Hts & _). unfold tagset_of'. rewrite Hts. reflexivity.
Qed.

(* C16 with absent OPTIONAL components (BER encoder, every mode).  T may have OPTIONAL components
   in SEQUENCE / SET at any depth outside SEQUENCE OF / SET OF, absent or present in v; (T', v') is
   the pruned pair: the components present, each mandatory.  When that is in the fragment, the
   decoder - which sees no trace of the absent components - returns an object with the tags, the
   skeleton and the leaves of v, and its DER re-encoding is the DER encoding of the pruned value. *)
Theorem schemaless_roundtrip_optional : forall cd d chunk T v b tl,
  dec_ok cd -> prunable T v = true ->
  sl_frag true (fst (prune T v)) = true -> (d = false -> no_f01 (fst (prune T v)) = true) ->
  sl_val BER cd (fst (prune T v)) (snd (prune T v)) = true ->
  encode BER d chunk T v = Ok b -> N.of_nat (length b) <= index_max ->
  exists T0 v0, decode cd None (b ++ tl) = Ok (DV T0 v0, tl)
    /\ tagset_of T0 = tagset_of T
    /\ skel T0 v0 = skel T v
    /\ leaves T0 v0 = leaves T v
    /\ encode DER true 0 T0 v0 = encode DER true 0 (fst (prune T v)) (snd (prune T v)).
Proof.
  intros cd d chunk T v b tl Hcd Hp Hfr Hno Hv He Hmax.
  pose proof (prune_ok_all T v Hp) as Hok.
  assert (He': encode BER d chunk (fst (prune T v)) (snd (prune T v)) = Ok b).
  { unfold encode, enc. rewrite (prune_ok_enc T v _ Hok). exact He. }
  destruct (schemaless_roundtrip_ber_modes cd d chunk _ _ b tl Hcd Hfr Hno Hv He' Hmax) as (T0 & v0 & Hd & Hts & Hsk & Hl & Hder).
  exists T0, v0. split; [exact Hd|]. split; [rewrite Hts; exact (proj1 (proj2 Hok))|].
  split; [rewrite Hsk; exact (prune_skel_top T v Hp)|].
  split; [unfold leaves in *; rewrite Hsk, (prune_skel_top T v Hp); reflexivity|exact Hder].
Qed.

(* SEQUENCE { a [0] EXPLICIT INTEGER OPTIONAL, b SEQUENCE OF INTEGER OPTIONAL, c SET { x BOOLEAN OPTIONAL, y OCTET STRING },
              d NULL OPTIONAL } with a and x absent, in indefinite mode with 1-octet segments *)
Example schemaless_roundtrip_optional_nonvacuous :
  let T := TSeq [ (Opt, TExp (mkTag Ctx false 0) TOcts); (Opt, TSeqOf TInt);
                  (Req, TSet [(Opt, TBool); (Req, TOcts)]); (Opt, TNull) ] in
  let v := VRec [ None; Some (VList [VInt 1; VInt 2]); Some (VRec [None; Some (VOcts [8; 9])]); Some VNull ] in
  prunable T v = true
  /\ prune T v = (TSeq [ (Req, TSeqOf TInt); (Req, TSet [(Req, TOcts)]); (Req, TNull) ],
                  VRec [ Some (VList [VInt 1; VInt 2]); Some (VRec [Some (VOcts [8; 9])]); Some VNull ])
  /\ sl_frag true (fst (prune T v)) = true /\ no_f01 (fst (prune T v)) = true
  /\ sl_val BER BER (fst (prune T v)) (snd (prune T v)) = true
  /\ exists b, encode BER false 1 T v = Ok b /\ N.of_nat (length b) <= index_max
       /\ exists T0 v0, decode BER None b = Ok (DV T0 v0, []) /\ leaves T0 v0 = leaves T v /\ length (leaves T v) = 4%nat
            /\ encode DER true 0 T0 v0 = Ok [48; 16; 48; 6; 2; 1; 1; 2; 1; 2; 49; 4; 4; 2; 8; 9; 5; 0].
Proof.
  cbv zeta. split; [vm_compute; reflexivity|]. split; [vm_compute; reflexivity|]. split; [vm_compute; reflexivity|].
  split; [vm_compute; reflexivity|]. split; [vm_compute; reflexivity|].
  eexists. split; [vm_compute; reflexivity|]. split; [vm_compute; discriminate|].
  eexists; eexists. split; [vm_compute; reflexivity|]. split; [vm_compute; reflexivity|]. split; vm_compute; reflexivity.
Qed.

(* the DER conclusion is about the pruned value: DER itself leaves out a PRESENT optional component
   that is an empty SEQUENCE OF / SET OF / SEQUENCE / SET (finding F24), so for such a value the
   re-encoding of the schemaless result (which has the component) is not the DER encoding of the
   original *)
Example schemaless_optional_empty_differs :
  let T := TSeq [(Opt, TSeqOf TInt); (Req, TNull)] in
  let v := VRec [Some (VList []); Some VNull] in
  prunable T v = true
  /\ encode BER true 0 T v = Ok [48; 4; 48; 0; 5; 0]
  /\ decode BER None [48; 4; 48; 0; 5; 0] = Ok (DV (TSeq [(Req, TSeqOf TNull); (Req, TNull)]) (VRec [Some (VList []); Some VNull]), [])
  /\ encode DER true 0 (TSeq [(Req, TSeqOf TNull); (Req, TNull)]) (VRec [Some (VList []); Some VNull]) = Ok [48; 4; 48; 0; 5; 0]
  /\ encode DER true 0 (fst (prune T v)) (snd (prune T v)) = Ok [48; 4; 48; 0; 5; 0]
  /\ encode DER true 0 T v = Ok [48; 2; 5; 0].
Proof. cbv zeta. repeat split; vm_compute; reflexivity. Qed.

Print Assumptions schemaless_roundtrip_optional.
Print Assumptions schemaless_roundtrip_optional_nonvacuous.

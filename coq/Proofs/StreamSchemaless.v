(* The streaming properties (C05, C06) of decoding WITHOUT a guiding type (schemaless, C16), for the stage-1
   values of self-describing types (SchemalessRT.v): the consuming run provided by [sl_stage1_generic] is a
   clean run by StreamClean.consumes_clean_dec_item, whatever the specification. *)
From Coq Require Import Lia.
From PV Require Import Base.Bytes Model.Tag Model.TableTypes Model.Types Model.Proc Model.Enc Model.Dec Gen.Tables
     Proofs.ProcBind Proofs.RunLemmas Proofs.TagOctets Proofs.DecHeader Proofs.DecFrame Proofs.DecPrim Proofs.TagsetShape Proofs.Schemaless
     Proofs.RoundTrip1 Proofs.RoundTrip2 Proofs.SchemalessRT
     Proofs.ProcSim Proofs.ProcSched Proofs.DecStream Proofs.StreamStage2 Proofs.StreamClean.
Local Open Scope N_scope.

Theorem schemaless_stage1_consumes_clean : forall ce cd T v b,
  enc_ok ce -> univ_explicit T = true -> stage1_val ce cd T v = true ->
  encode ce true 0 T v = Ok b -> N.of_nat (length b) <= index_max ->
  (0 < length b)%nat /\ exists vdec, abs (sl_ty T) vdec = abs T v /\
    forall fuel, (2 * length b + 2 <= fuel)%nat -> consumes_clean (dec_item cd fuel None) b (DV (sl_ty T) vdec).
Proof.
  intros ce cd T v b Hce Hue Hs He Hmax.
  assert (Hdef: def_codec ce) by (destruct Hce as [-> | ->]; reflexivity).
  destruct (sl_stage1_leaf ce cd T v b Hce Hue Hs He) as (content & vdec & Hleaf & Hsl & Habs).
  pose proof (univ_explicit_prim T Hue) as Hp. pose proof (univ_explicit_wf T Hue) as Hw.
  pose proof (content_le_encoding ce cd T v content vdec b Hdef Hp Hw Hleaf He) as Hcl.
  assert (Hr: (length (tagset_of' T) - 1 < length b)%nat).
  { destruct (univ_explicit_shape T Hue) as (t0 & r & _ & Hts & _ & _ & _).
    destruct Hleaf as [(ec & fl & Hce' & Hcont) _].
    unfold encode, enc, enc_with in He. change (mkOpts true 0 false) with def_opts in He.
    unfold def_codec in Hdef. rewrite Hdef, Hce' in He. cbn [bind] in He.
    rewrite Hts in He. cbn [bind] in He.
    change (mkOpts (o_def def_opts) (o_chunk def_opts) false) with def_opts in He.
    rewrite Hcont in He. cbn [bind frame] in He. rewrite Bool.andb_false_r in He. cbn [andb o_def def_opts] in He.
    destruct (frame_one t0 false true (ef_indef fl) content) as [s0|e] eqn:E0; cbn [bind] in He; [|discriminate].
    pose proof (frame_outer_len r _ s0 b He) as Hl.
    destruct (frame_one_length _ _ _ _ _ E0) as (l & -> & Hl0). pose proof (enc_tag_nonempty t0 false).
    rewrite !app_length in Hl.
    rewrite (tagset_of'_ok T _ Hts). cbn [length]. lia. }
  split; [lia|]. exists vdec. split; [exact Habs|]. intros fuel Hf.
  apply consumes_clean_dec_item; [lia|].
  set (k := (length (tagset_of' T) - 1)%nat) in *.
  assert (Hfuel: fuel = (S (fuel - 1 - k) + k)%nat) by lia.
  assert (Hbig: (length b <= S (fuel - 1 - k))%nat) by lia.
  assert (Hfit: fits (fuel - 1 - k) content) by (split; lia).
  pose proof (sl_stage1_generic ce cd T v content vdec b (fuel - 1 - k) Hdef Hue Hleaf Hsl He Hfit Hbig) as Hg.
  fold k in Hg. rewrite <- Hfuel in Hg. exact Hg.
Qed.
Print Assumptions schemaless_stage1_consumes_clean.

Theorem c06_schemaless_stage1 : forall ce cd T v b fuel k,
  enc_ok ce -> univ_explicit T = true -> stage1_val ce cd T v = true ->
  encode ce true 0 T v = Ok b -> N.of_nat (length b) <= index_max ->
  (2 * length b + 2 <= fuel)%nat -> (k < length b)%nat ->
  decode_with cd fuel None (firstn k b) = Err EEndOfStream
  /\ exists n kont s1, resume (dec_item cd fuel None) (mkStream (firstn k b) 0 false 0) = inl (ReadN n kont, s1)
                       /\ (length (avail s1) < n)%nat.
Proof.
  intros ce cd T v b fuel k Hce Hue Hs He Hmax Hf Hk.
  destruct (schemaless_stage1_consumes_clean ce cd T v b Hce Hue Hs He Hmax) as (_ & vdec & _ & Hc).
  exact (c06_of_clean cd fuel None b (DV (sl_ty T) vdec) k (Hc fuel Hf) Hk).
Qed.

Theorem c05_schemaless_stage1 : forall ce cd T v b,
  enc_ok ce -> univ_explicit T = true -> stage1_val ce cd T v = true ->
  encode ce true 0 T v = Ok b -> N.of_nat (length b) <= index_max ->
  exists vdec, abs (sl_ty T) vdec = abs T v /\
    forall fuel tl sched, (2 * length b + 2 <= fuel)%nat ->
    wf_sched false sched -> arrivals sched = b ++ tl ->
    decode_with cd fuel None (b ++ tl) = Ok (DV (sl_ty T) vdec, tl)
    /\ exists j, drive sched (dec_item cd fuel None) (mkStream [] 0 false 0)
                 = repeat OUnder j ++ [ODone (Ok (DV (sl_ty T) vdec)) (length b)].
Proof.
  intros ce cd T v b Hce Hue Hs He Hmax.
  destruct (schemaless_stage1_consumes_clean ce cd T v b Hce Hue Hs He Hmax) as (_ & vdec & Habs & Hc).
  exists vdec. split; [exact Habs|]. intros fuel tl sched Hf Hw Harr.
  exact (c05_of_clean cd fuel None b (DV (sl_ty T) vdec) (Hc fuel Hf) tl sched Hw Harr).
Qed.

Print Assumptions c06_schemaless_stage1.
Print Assumptions c05_schemaless_stage1.

(* [0] EXPLICIT [APPLICATION 1] EXPLICIT INTEGER 300, no guiding type: every cut point *)
Example c06_schemaless_example :
  let T := TExp (mkTag Ctx false 0) (TExp (mkTag Appl false 1) TInt) in
  let b := [160; 6; 97; 4; 2; 2; 1; 44] in
  univ_explicit T = true /\ stage1_val BER BER T (VInt 300) = true /\ encode BER true 0 T (VInt 300) = Ok b
  /\ (2 * length b + 2 <= 20)%nat
  /\ forallb (fun k => match decode_with BER 20 None (firstn k b) with Err EEndOfStream => true | _ => false end
                       && match resume (dec_item BER 20 None) (mkStream (firstn k b) 0 false 0) with
                          | inl (ReadN _ _, _) => true | _ => false end) (seq 0 (length b)) = true.
Proof. vm_compute. repeat split; try reflexivity; lia. Qed.

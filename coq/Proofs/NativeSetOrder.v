(* DER orders the members of a SET by the tag the member's encoding really starts with: for an
   untagged CHOICE member that is the tag of the alternative chosen, followed through nested
   untagged CHOICEs (Enc.chosen_outer), in the bare-Python-value branch exactly as for a value
   object; CER goes by the smallest tag over all alternatives (Enc.smallest_outer).
   General statement: Props/C17.v C17_pyvalue_equiv (encode_py = encode, any codec).  Here the
   instance on which the two rules differ, evaluated. *)
From PV Require Import Model.Native Proofs.NativeRoundTrip Proofs.NativeEquiv.
Local Open Scope N_scope.

(* SET { what CHOICE { inner CHOICE { num INTEGER, text OCTET STRING }, nothing NULL },
         flags BIT STRING } *)
Definition so_T : ty := TSet [(Req, TChoice [TChoice [TInt; TOcts]; TNull]); (Req, TBits)].
Definition so_text : val := VRec [Some (VChoice 0 (VChoice 1 (VOcts [120; 121]))); Some (VBits [true; false; true])].
Definition so_num : val := VRec [Some (VChoice 0 (VChoice 0 (VInt 7))); Some (VBits [true; false; true])].

Lemma set_order_domain : ok17 so_T so_text = true /\ ok17 so_T so_num = true.
Proof. split; reflexivity. Qed.

(* text (tag 4) chosen: DER puts BIT STRING (3) first, CER the CHOICE (smallest alternative: 2) *)
Example set_order_text :
  to_native so_T so_text = Ok (PDict [(0%nat, PDict [(0%nat, PDict [(1%nat, PBytes [120; 121])])]);
                                      (1%nat, PStr [49; 48; 49])])
  /\ (forall p, to_native so_T so_text = Ok p ->
        encode_py DER true 0 so_T p = Ok [49; 8; 3; 2; 5; 160; 4; 2; 120; 121]
        /\ encode DER true 0 so_T so_text = Ok [49; 8; 3; 2; 5; 160; 4; 2; 120; 121]
        /\ encode_py CER true 0 so_T p = Ok [49; 128; 4; 2; 120; 121; 3; 2; 5; 160; 0; 0]
        /\ encode CER true 0 so_T so_text = Ok [49; 128; 4; 2; 120; 121; 3; 2; 5; 160; 0; 0]).
Proof.
  split; [reflexivity|]. intros p H. vm_compute in H. injection H as <-.
  repeat split; vm_compute; reflexivity.
Qed.

(* num (tag 2) chosen: the CHOICE goes first under both rules *)
Example set_order_num : forall p, to_native so_T so_num = Ok p ->
  encode_py DER true 0 so_T p = Ok [49; 7; 2; 1; 7; 3; 2; 5; 160]
  /\ encode DER true 0 so_T so_num = Ok [49; 7; 2; 1; 7; 3; 2; 5; 160].
Proof. intros p H. vm_compute in H. injection H as <-. split; vm_compute; reflexivity. Qed.

(* the sort key of the bare-value branch is the one of the value-object branch, whatever the value *)
Lemma sort_key_follows_choice : forall dyn T v, ok17 T v = true ->
  set_sort_key dyn T (canon T v) = set_sort_key dyn T v.
Proof.
  intros dyn T v H. unfold ok17 in H. apply andb_prop in H. destruct H as [Hty Hwf].
  unfold set_sort_key. rewrite (proj2 (encoder_ignores_canon BER T Hty v Hwf)). reflexivity.
Qed.

(* The independent X.690 reference (Spec/X690.v) alone: its OBJECT IDENTIFIER (8.19) and
   BIT STRING (8.6) readers invert its writers.

   A. oid_value (oid_contents arcs) = arcs
   B. bits_of_octets_spec reads back the contents octets written by bitstring_contents
   C. join_bit_segments over the single primitive segment gives the bit string back
   D. bits_octets distributes over an octet-aligned prefix (segmented bit strings) *)
From Coq Require Import Lia NArith ZArith ZifyNat ZifyN.
From PV Require Import Base.Bytes Model.Tag Model.Enc Model.Dec Spec.X690
     Proofs.Bits Proofs.TagOctets Proofs.SpecOctets Proofs.LeafInt Proofs.LeafOidBits Proofs.DerReference.
Local Open Scope N_scope.

(* ====================================================================== *)
(* A. OBJECT IDENTIFIER                                                     *)
(* ====================================================================== *)

(* the most significant base-128 digit of a non-zero number is non-zero *)
Lemma digits128_head : forall f n, (N.size_nat n <= f)%nat ->
  exists d r, digits f 128 n = d :: r /\ (n <> 0 -> d <> 0).
Proof.
  induction f as [|f IH]; intros n Hf.
  - assert (n = 0) as -> by (apply size_nat_0; lia). cbn [digits].
    exists 0, []. split; [reflexivity|]. intros H; exact H.
  - cbn [digits]. destruct (N.ltb_spec n 128) as [Hs|Hl].
    + exists n, []. split; [reflexivity|]. intros H; exact H.
    + assert (Hn: n <> 0) by lia.
      pose proof (size_nat_div n 7 Hn eq_refl) as Hd. change (2 ^ 7) with 128 in Hd.
      destruct (IH (n / 128)) as (d & r & E & Hnz); [lia|].
      rewrite E. exists d, (r ++ [n mod 128]). split; [reflexivity|].
      intros _. apply Hnz.
      intros Hq. apply N.div_small_iff in Hq; lia.
Qed.

Lemma digits_of_128_head n : exists d r, digits_of 128 n = d :: r /\ (n <> 0 -> d <> 0).
Proof. unfold digits_of. apply digits128_head. lia. Qed.

(* one subidentifier: continuation-marked digits followed by anything *)
Lemma subids_digits : forall ds f acc fresh rest,
  ds <> [] -> Forall (fun d => d < 128) ds ->
  (fresh = true -> (exists d, ds = [d]) \/ hd 0 ds <> 0) ->
  subids (length ds + f) acc fresh (mark_continuation ds ++ rest) =
  opt_bind (subids f 0 true rest) (fun l => Some (val128 acc ds :: l)).
Proof.
  induction ds as [|d ds IH]; intros f acc fresh rest Hne Hall Hfr; [congruence|].
  inversion Hall as [|? ? Hd Hall']; subst.
  destruct ds as [|e ds'].
  - cbn [mark_continuation app length Nat.add subids val128].
    destruct (N.eqb_spec d 128) as [Hc|_]; [lia|]. rewrite Bool.andb_false_r.
    destruct (N.ltb_spec d 128) as [_|Hc]; [reflexivity|lia].
  - rewrite mark_continuation_cons2.
    change (length (d :: e :: ds') + f)%nat with (S (length (e :: ds') + f)).
    cbn [app subids].
    assert (Hfn: (fresh && N.eqb (128 + d) 128)%bool = false).
    { destruct fresh; [|reflexivity]. cbn [andb].
      destruct (N.eqb_spec (128 + d) 128) as [Hc|_]; [|reflexivity].
      destruct (Hfr eq_refl) as [(x & Hx)|Hh]; [discriminate|].
      cbn [hd] in Hh. lia. }
    rewrite Hfn.
    destruct (N.ltb_spec (128 + d) 128) as [Hc|_]; [lia|].
    replace (128 + d - 128) with d by lia.
    change (val128 acc (d :: e :: ds')) with (val128 (acc * 128 + d) (e :: ds')).
    apply IH; [discriminate|exact Hall'|discriminate].
Qed.

Lemma subid_octets_length_pos n : (1 <= length (subid_octets n))%nat.
Proof.
  unfold subid_octets. rewrite mark_continuation_length.
  destruct (digits_of_128_head n) as (d & r & E & _). rewrite E. cbn [length]. lia.
Qed.

Lemma subids_subid_octets n f fresh rest :
  subids (length (subid_octets n) + f) 0 fresh (subid_octets n ++ rest) =
  opt_bind (subids f 0 true rest) (fun l => Some (n :: l)).
Proof.
  unfold subid_octets. rewrite mark_continuation_length.
  destruct (digits_of_128_value n) as [Hall Hval].
  destruct (digits_of_128_head n) as (d & r & E & Hnz).
  rewrite subids_digits.
  - rewrite Hval. reflexivity.
  - rewrite E. discriminate.
  - exact Hall.
  - intros _. rewrite E. cbn [hd].
    destruct (N.eq_dec n 0) as [Hz|Hn]; [|right; apply Hnz; exact Hn].
    left. subst n. exists 0. vm_compute in E. inversion E. reflexivity.
Qed.

(* fuel beyond the length of the input is irrelevant *)
Lemma subids_fuel_mono : forall b f acc fresh k, (length b <= f)%nat ->
  subids (f + k) acc fresh b = subids f acc fresh b.
Proof.
  induction b as [|o r IH]; intros f acc fresh k Hf.
  - destruct (f + k)%nat; destruct f; reflexivity.
  - destruct f as [|f]; [cbn [length] in Hf; lia|].
    cbn [Nat.add subids]. cbn [length] in Hf.
    rewrite !(IH f) by lia. reflexivity.
Qed.

Theorem subids_concat : forall (l: list N) (f: nat),
  (length (concat (map subid_octets l)) <= f)%nat ->
  subids f 0 true (concat (map subid_octets l)) = Some l.
Proof.
  induction l as [|n l IH]; intros f Hf.
  - cbn [map concat]. destruct f; reflexivity.
  - cbn [map concat] in *. rewrite app_length in Hf.
    replace f with (length (subid_octets n) + (f - length (subid_octets n)))%nat by lia.
    rewrite subids_subid_octets, IH by lia. reflexivity.
Qed.

Theorem oid_value_oid_contents : forall (arcs: list N) (c: bytes),
  oid_contents arcs = Some c -> oid_value c = Some arcs.
Proof.
  intros arcs c H. unfold oid_contents in H.
  destruct arcs as [|a1 [|a2 rest]]; try discriminate.
  destruct (N.leb a1 2 && (N.eqb a1 2 || N.leb a2 39))%bool eqn:G; [|discriminate].
  assert (Hc: c = concat (map subid_octets (40 * a1 + a2 :: rest))) by congruence.
  clear H. subst c.
  unfold oid_value. rewrite subids_concat by lia.
  apply Bool.andb_true_iff in G. destruct G as [G1 G2].
  apply N.leb_le in G1. apply Bool.orb_true_iff in G2.
  assert (G3: a1 = 2 \/ a2 <= 39).
  { destruct G2 as [G2|G2]; [left; apply N.eqb_eq in G2; exact G2|right; apply N.leb_le in G2; exact G2]. }
  clear G2.
  destruct (N.ltb_spec (40 * a1 + a2) 40) as [L1|L1].
  - assert (a1 = 0) by lia. subst a1. replace (40 * 0 + a2) with a2 by lia. reflexivity.
  - destruct (N.ltb_spec (40 * a1 + a2) 80) as [L2|L2].
    + assert (a1 = 1) by lia. subst a1. replace (40 * 1 + a2 - 40) with a2 by lia. reflexivity.
    + assert (a1 = 2) as -> by lia.
      replace (40 * 2 + a2 - 80) with a2 by lia. reflexivity.
Qed.

Example oid_value_oid_contents_ex1 :
  oid_contents [2; 999; 3] = Some [136; 55; 3] /\ oid_value [136; 55; 3] = Some [2; 999; 3].
Proof. vm_compute. split; reflexivity. Qed.

Example oid_value_oid_contents_ex2 :
  oid_contents [1; 2; 840; 113549] = Some [42; 134; 72; 134; 247; 13] /\
  oid_value [42; 134; 72; 134; 247; 13] = Some [1; 2; 840; 113549].
Proof. vm_compute. split; reflexivity. Qed.

(* the leading-0x80 rule is really exercised: a padded subidentifier is refused *)
Example oid_value_leading_80 : oid_value [42; 128; 1] = None.
Proof. vm_compute. reflexivity. Qed.

(* ====================================================================== *)
(* B. BIT STRING: the reference's reader on the reference's writer          *)
(* ====================================================================== *)

Lemma mod2_eqb_odd n : N.eqb (n mod 2) 1 = N.odd n.
Proof.
  pose proof (N.bit0_mod n) as H. rewrite N.bit0_odd in H.
  destruct (N.odd n); cbn [N.b2n] in H; rewrite <- H; reflexivity.
Qed.

Lemma bits_of_N_is_N_to_bits k : forall n, bits_of_N k n = N_to_bits k n.
Proof.
  induction k as [|k IH]; intros n; cbn [bits_of_N N_to_bits]; [reflexivity|].
  rewrite IH, mod2_eqb_odd. reflexivity.
Qed.

Lemma bits_of_octets_spec_is_octets_to_bits b : bits_of_octets_spec b = octets_to_bits b.
Proof.
  unfold bits_of_octets_spec, octets_to_bits. f_equal.
  apply map_ext. intros a. apply bits_of_N_is_N_to_bits.
Qed.

(* the contents octets written for a bit string read back as the padded bit string *)
Lemma bits_of_octets_spec_bits_octets bs :
  bits_of_octets_spec (bits_octets bs) = bs ++ repeat false (pad_of (length bs)).
Proof.
  rewrite bits_of_octets_spec_is_octets_to_bits. unfold bits_octets. cbv zeta.
  set (p := pad_of (length bs)). set (padded := bs ++ repeat false p).
  assert (HL: length padded = (length bs + p)%nat)
    by (subst padded; rewrite app_length, repeat_length; reflexivity).
  assert (H8: (8 * (length padded / 8) = length padded)%nat).
  { rewrite HL. pose proof (pad_aligned (length bs)) as Ha. fold p in Ha. lia. }
  rewrite octets_to_bits_be_bytes, H8. apply N_to_bits_bits_to_N.
Qed.

Theorem bits_read_back : forall (bs: list bool),
  exists c, bitstring_contents bs = N.of_nat (pad_of (length bs)) :: c
         /\ bits_of_octets_spec c = bs ++ repeat false (pad_of (length bs))
         /\ length c = ((length bs + pad_of (length bs)) / 8)%nat.
Proof.
  intros bs. exists (bits_octets bs). split; [|split].
  - rewrite bitstring_contents_is_enc_bits_prim. reflexivity.
  - apply bits_of_octets_spec_bits_octets.
  - apply bits_octets_length.
Qed.

Example bits_read_back_ex :
  let bs := [true; false; true; true; false; false; true; false; true; true] in
  bitstring_contents bs = [6; 178; 192] /\
  bits_of_octets_spec [178; 192] = bs ++ repeat false 6 /\ pad_of (length bs) = 6%nat.
Proof. vm_compute. split; [|split]; reflexivity. Qed.

(* ====================================================================== *)
(* C. the single primitive segment joins back to the bit string            *)
(* ====================================================================== *)

Corollary bits_join_single : forall bs, exists u c,
  bitstring_contents bs = u :: c /\ N.ltb 7 u = false /\
  join_bit_segments [(bits_of_octets_spec c, u)] = Some bs.
Proof.
  intros bs. destruct (bits_read_back bs) as (c & Hc & Hb & _).
  exists (N.of_nat (pad_of (length bs))), c. split; [exact Hc|].
  pose proof (pad_of_lt (length bs)) as Hp. split.
  - apply N.ltb_ge. lia.
  - cbn [join_bit_segments]. rewrite Hb, Nat2N.id, app_length, repeat_length.
    destruct (Nat.ltb_spec (length bs + pad_of (length bs)) (pad_of (length bs))) as [Hc'|_]; [lia|].
    replace (length bs + pad_of (length bs) - pad_of (length bs))%nat with (length bs) by lia.
    rewrite firstn_app_exact. reflexivity.
Qed.

Example bits_join_single_ex :
  let bs := [true; false; true; true; false; false; true; false; true; true] in
  bitstring_contents bs = [6; 178; 192] /\
  join_bit_segments [(bits_of_octets_spec [178; 192], 6)] = Some bs.
Proof. vm_compute. split; reflexivity. Qed.

(* ====================================================================== *)
(* D. an octet-aligned prefix is encoded independently of what follows      *)
(* ====================================================================== *)

Lemma pow256_nz k : 256 ^ k <> 0.
Proof. apply N.pow_nonzero. discriminate. Qed.

(* only the low k octets matter *)
Lemma be_bytes_add_hi k : forall A B, be_bytes k (A * 256 ^ N.of_nat k + B) = be_bytes k B.
Proof.
  induction k as [|k IH]; intros A B; [reflexivity|].
  cbn [be_bytes]. rewrite pow256_succ.
  replace (A * (256 * 256 ^ N.of_nat k) + B) with (B + (A * 256 ^ N.of_nat k) * 256) by lia.
  rewrite N.div_add, N.mod_add by discriminate.
  rewrite (N.add_comm (B / 256)), IH. reflexivity.
Qed.

Lemma be_bytes_app a : forall b n,
  be_bytes (a + b) n = be_bytes a (n / 256 ^ N.of_nat b) ++ be_bytes b n.
Proof.
  induction b as [|b IH]; intros n.
  - rewrite Nat.add_0_r. cbn [be_bytes N.of_nat]. rewrite N.pow_0_r, N.div_1_r, app_nil_r. reflexivity.
  - rewrite Nat.add_succ_r. cbn [be_bytes]. rewrite IH, app_assoc. f_equal. f_equal.
    rewrite pow256_succ.
    rewrite N.div_div by (try apply pow256_nz; discriminate). reflexivity.
Qed.

Lemma bits_value_lt l : bits_value l < 2 ^ N.of_nat (length l).
Proof.
  induction l as [|b l IH].
  - cbn [bits_value length N.of_nat]. rewrite N.pow_0_r. lia.
  - cbn [bits_value length]. rewrite Nat2N.inj_succ, N.pow_succ_r'. destruct b; lia.
Qed.

Lemma pow2_8k k : 2 ^ N.of_nat (8 * k) = 256 ^ N.of_nat k.
Proof.
  replace (N.of_nat (8 * k)) with (8 * N.of_nat k) by lia.
  rewrite N.pow_mul_r. reflexivity.
Qed.

Lemma pad_of_aligned_add a b : (a mod 8 = 0)%nat -> pad_of (a + b) = pad_of b.
Proof.
  intros Ha. unfold pad_of. f_equal. f_equal.
  rewrite Nat.add_mod, Ha by discriminate. cbn [Nat.add]. apply Nat.mod_mod. discriminate.
Qed.

Theorem bits_octets_app : forall a b, (length a mod 8 = 0)%nat ->
  bits_octets (a ++ b) = bits_octets a ++ bits_octets b.
Proof.
  intros a b Ha. unfold bits_octets. cbv zeta.
  rewrite (app_length a b), (pad_of_aligned_add _ _ Ha).
  assert (Hpa: pad_of (length a) = 0%nat) by (unfold pad_of; rewrite Ha; reflexivity).
  rewrite Hpa. cbn [repeat]. rewrite (app_nil_r a).
  set (pb := b ++ repeat false (pad_of (length b))).
  rewrite <- app_assoc. fold pb.
  assert (HLb: (length pb mod 8 = 0)%nat).
  { subst pb. rewrite app_length, repeat_length. apply pad_aligned. }
  apply Nat.mod_divides in Ha; [|discriminate]. destruct Ha as [ka Hka].
  apply Nat.mod_divides in HLb; [|discriminate]. destruct HLb as [kb Hkb].
  rewrite app_length, Hka, Hkb.
  replace ((8 * ka + 8 * kb) / 8)%nat with (ka + kb)%nat
    by (rewrite <- Nat.mul_add_distr_l, Nat.mul_comm, Nat.div_mul by discriminate; reflexivity).
  rewrite !(Nat.mul_comm 8), !Nat.div_mul by discriminate.
  rewrite bits_to_N_app, (bits_to_N_value pb), Hkb, pow2_8k.
  rewrite be_bytes_app, be_bytes_add_hi. f_equal.
  - f_equal.
    pose proof (bits_value_lt pb) as Hlt. rewrite Hkb, pow2_8k in Hlt.
    rewrite N.div_add_l by apply pow256_nz.
    rewrite (N.div_small _ _ Hlt). apply N.add_0_r.
  - rewrite bits_to_N_is_bits_value. reflexivity.
Qed.

Example bits_octets_app_ex :
  let a := [true; false; true; true; false; false; true; false] in
  let b := [true; true; false] in
  bits_octets (a ++ b) = [178; 192] /\ bits_octets a = [178] /\ bits_octets b = [192].
Proof. vm_compute. split; [|split]; reflexivity. Qed.

(* alignment is needed: an unaligned prefix is padded on its own *)
Example bits_octets_app_unaligned :
  bits_octets ([true] ++ [true]) <> bits_octets [true] ++ bits_octets [true].
Proof. vm_compute. discriminate. Qed.

Print Assumptions subids_concat.
Print Assumptions oid_value_oid_contents.
Print Assumptions bits_read_back.
Print Assumptions bits_join_single.
Print Assumptions bits_octets_app.

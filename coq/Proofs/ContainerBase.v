(* List and dict lemmas shared by the container proofs: positional update, enumeration,
   the insertion-ordered dict on consecutive keys, sorting an already sorted list. *)
From Coq Require Import Lia.
From PV Require Import Spec.ListSpec.
Local Open Scope nat_scope.

(* ---------- set_nth ---------- *)

Lemma set_nth_length {A} (l: list A) k x : length (set_nth k x l) = length l.
Proof. revert k; induction l as [|y l IH]; intros [|k]; simpl; auto. Qed.

Lemma nth_set_nth_same {A} (l: list A) k x d : k < length l -> nth k (set_nth k x l) d = x.
Proof. revert k; induction l as [|y l IH]; intros [|k] H; simpl in *; try lia; auto. apply IH; lia. Qed.

Lemma nth_set_nth_other {A} (l: list A) k j x d : j <> k -> nth j (set_nth k x l) d = nth j l d.
Proof.
  revert k j; induction l as [|y l IH]; intros [|k] [|j] H; simpl; auto; try congruence.
Qed.

Lemma set_nth_split {A} (l: list A) k x : k < length l ->
  set_nth k x l = firstn k l ++ x :: skipn (S k) l.
Proof.
  revert k; induction l as [|y l IH]; intros [|k] H; simpl in *; try lia; auto.
  f_equal. apply IH. lia.
Qed.

Lemma set_nth_map {A B} (f: A -> B) (l: list A) k x : map f (set_nth k x l) = set_nth k (f x) (map f l).
Proof. revert k; induction l as [|y l IH]; intros [|k]; simpl; auto. f_equal; auto. Qed.

Lemma set_nth_out {A} (l: list A) k x : length l <= k -> set_nth k x l = l.
Proof. revert k; induction l as [|y l IH]; intros [|k] H; simpl in *; auto; try lia. f_equal; apply IH; lia. Qed.

Lemma nth_repeat {A} (x: A) n k d : nth k (repeat x n) d = if Nat.ltb k n then x else d.
Proof.
  revert k; induction n as [|n IH]; intros [|k]; simpl; auto.
  rewrite IH. destruct (Nat.ltb_spec k n), (Nat.ltb_spec (S k) (S n)); auto; lia.
Qed.

(* ---------- enumerate ---------- *)

Lemma enumerate_from_length {A} i (l: list A) : length (enumerate_from i l) = length l.
Proof. revert i; induction l; intros; simpl; auto. Qed.

Lemma enumerate_from_snd {A} i (l: list A) : map snd (enumerate_from i l) = l.
Proof. revert i; induction l; intros; simpl; auto. f_equal; auto. Qed.

Lemma enumerate_from_app {A} i (l r: list A) :
  enumerate_from i (l ++ r) = enumerate_from i l ++ enumerate_from (i + length l) r.
Proof.
  revert i; induction l as [|x l IH]; intros; simpl.
  - rewrite Nat.add_0_r; auto.
  - f_equal. rewrite IH. do 2 f_equal. lia.
Qed.

Lemma dget_enum (l: list comp) : forall i k,
  dget k (enumerate_from i l) = if Nat.leb i k then nth_error l (k - i) else None.
Proof.
  induction l as [|x l IH]; intros i k; simpl.
  - destruct (Nat.leb i k); auto. destruct (k - i); auto.
  - destruct (Nat.eqb_spec k i) as [->|Hne].
    + rewrite Nat.leb_refl, Nat.sub_diag. auto.
    + rewrite IH. destruct (Nat.leb_spec i k), (Nat.leb_spec (S i) k); try lia; auto.
      replace (k - i) with (S (k - S i)) by lia. auto.
Qed.

Lemma dset_enum_in (l: list comp) : forall i k v, i <= k < i + length l ->
  dset k v (enumerate_from i l) = enumerate_from i (set_nth (k - i) v l).
Proof.
  induction l as [|x l IH]; intros i k v H; simpl in *; [lia|].
  destruct (Nat.eqb_spec k i) as [->|Hne].
  - rewrite Nat.sub_diag. auto.
  - replace (k - i) with (S (k - S i)) by lia. simpl. f_equal. apply IH. lia.
Qed.

Lemma dset_enum_end (l: list comp) : forall i v,
  dset (i + length l) v (enumerate_from i l) = enumerate_from i (l ++ [v]).
Proof.
  induction l as [|x l IH]; intros i v; simpl.
  - rewrite Nat.add_0_r. auto.
  - destruct (Nat.eqb_spec (i + S (length l)) i); [lia|]. f_equal.
    replace (i + S (length l)) with (S i + length l) by lia. apply IH.
Qed.

Lemma dmax_enum (l: list comp) : forall i, l <> [] -> dmax (enumerate_from i l) = i + length l - 1.
Proof.
  induction l as [|x l IH]; intros i H; [congruence|]. simpl.
  destruct l as [|y l'].
  - simpl. lia.
  - rewrite IH by congruence. simpl. lia.
Qed.

Lemma slen_enum (l: list comp) : slen (Some (enumerate l)) = length l.
Proof.
  unfold slen, enumerate. destruct l as [|x l]; auto.
  change (enumerate_from 0 (x :: l)) with ((0, x) :: enumerate_from 1 l).
  change (S (dmax ((0, x) :: enumerate_from 1 l)) = length (x :: l)).
  pose proof (dmax_enum (x :: l) 0 ltac:(congruence)) as H.
  change (enumerate_from 0 (x :: l)) with ((0, x) :: enumerate_from 1 l) in H.
  rewrite H. simpl. lia.
Qed.

(* ---------- sorting an already sorted list is the identity ---------- *)

Lemma sort_by_key_enum (l: list comp) : forall i, sort_by key_leb (enumerate_from i l) = enumerate_from i l.
Proof.
  induction l as [|x l IH]; intros i; auto.
  change (sort_by key_leb (enumerate_from i (x :: l)))
    with (insert_by key_leb (i, x) (sort_by key_leb (enumerate_from (S i) l))).
  rewrite IH.
  destruct l as [|y l']; auto. simpl. unfold key_leb. simpl.
  destruct (Nat.leb_spec i (S i)); [auto|lia].
Qed.

Lemma components_enum (l: list comp) : components (enumerate l) = l.
Proof. unfold components, enumerate. rewrite sort_by_key_enum. apply enumerate_from_snd. Qed.

(* ---------- norm_idx / pyidx ---------- *)

Lemma norm_idx_nat k n : norm_idx (Z.of_nat k) n = Some k.
Proof. unfold norm_idx. destruct (Z.ltb_spec (Z.of_nat k) 0); [lia|]. rewrite Nat2Z.id. auto. Qed.

Lemma pyidx_nat k n : pyidx (Z.of_nat k) n = if Nat.ltb k n then Some k else None.
Proof.
  unfold pyidx. destruct (Z.ltb_spec (Z.of_nat k) 0); [lia|].
  destruct (Z.ltb_spec (Z.of_nat k) (Z.of_nat n)), (Nat.ltb_spec k n); try lia; auto.
  rewrite Nat2Z.id. auto.
Qed.

Lemma pyidx_lt i n k : pyidx i n = Some k -> k < n.
Proof.
  unfold pyidx. destruct (Z.ltb_spec i 0).
  - destruct (Z.leb_spec (- Z.of_nat n) i); [|discriminate]. intros E; inversion E; lia.
  - destruct (Z.ltb_spec i (Z.of_nat n)); [|discriminate]. intros E; inversion E; lia.
Qed.

Lemma pyidx_same_len i n m : n = m -> pyidx i n = pyidx i m.
Proof. intros ->; auto. Qed.

Lemma skipn_skipn_add {A} x y (l: list A) : skipn x (skipn y l) = skipn (y + x) l.
Proof.
  revert l; induction y as [|y IH]; intros l; [reflexivity|].
  destruct l as [|a l]; [rewrite !skipn_nil; reflexivity|]. cbn [skipn plus]. apply IH.
Qed.

(* ---------- the prototype's sort is a sort ---------- *)
From Coq Require Import Sorting.Permutation Sorting.Sorted.

Lemma insert_perm (x: Z) l : Permutation (x :: l) (insert_by Z.leb x l).
Proof.
  induction l as [|y l IH]; cbn [insert_by]; [apply Permutation_refl|].
  destruct (Z.leb x y); [apply Permutation_refl|].
  eapply perm_trans; [apply perm_swap|]. apply perm_skip. exact IH.
Qed.

Theorem zsort_perm l : Permutation l (zsort l).
Proof.
  induction l as [|x l IH]; [apply perm_nil|].
  change (zsort (x :: l)) with (insert_by Z.leb x (zsort l)).
  eapply perm_trans; [apply perm_skip; exact IH|]. apply insert_perm.
Qed.

Lemma insert_sorted (x: Z) l : LocallySorted Z.le l -> LocallySorted Z.le (insert_by Z.leb x l).
Proof.
  induction 1 as [|y|y z l Hs IH Hyz]; cbn [insert_by].
  - constructor.
  - destruct (Z.leb_spec x y); constructor; try constructor; lia.
  - destruct (Z.leb_spec x y).
    + constructor; [constructor; assumption|assumption].
    + cbn [insert_by] in IH. destruct (Z.leb_spec x z).
      * constructor; [exact IH|lia].
      * constructor; [exact IH|exact Hyz].
Qed.

Theorem zsort_sorted l : LocallySorted Z.le (zsort l).
Proof.
  induction l as [|x l IH]; [constructor|].
  change (zsort (x :: l)) with (insert_by Z.leb x (zsort l)). apply insert_sorted. exact IH.
Qed.

(* ---------- valueless scalars ---------- *)
Lemma scalar_valueless_raises {A} (f: Z -> A) (g: Z -> Z -> A) (y: scalar) :
  scalar_unop None f = Err ELib /\ scalar_binop None y g = Err ELib /\ scalar_binop y None g = Err ELib.
Proof. repeat split; destruct y; reflexivity. Qed.

Lemma scalar_value_computes {A} (f: Z -> A) (g: Z -> Z -> A) x y :
  scalar_unop (Some x) f = Ok (f x) /\ scalar_binop (Some x) (Some y) g = Ok (g x y).
Proof. split; reflexivity. Qed.

(* C16 with untagged CHOICE members / elements and DEFAULT (and OPTIONAL) components.
   Without a schema the decoder sees the chosen alternative under its own tags and no trace of a
   component that is absent or (DEFAULT) equal to its default: what it reads is the encoding of the
   value PRUNED ([cprune]) to what is on the wire - the chosen alternative in place of the CHOICE,
   the components present each mandatory, a SEQUENCE OF as the SEQUENCE of its (pruned) elements.
   The encoders (BER in every mode, CER, DER) write for the pruned value exactly what they write for
   the original ([cprune_enc]); the theorems of SchemalessRT2/3.v then apply to the pruned value. *)
From Coq Require Import Lia Sorting.Permutation.
From PV Require Import Base.Bytes Model.Tag Model.TableTypes Model.Types Model.Proc Model.Enc Model.Dec Gen.Tables
     Proofs.TagsetShape Proofs.Schemaless Proofs.RoundTrip1 Proofs.RoundTrip2
     Proofs.RoundTripModesC Proofs.RoundTripModes
     Proofs.SchemalessRT Proofs.SchemalessRT2 Proofs.SchemalessRT3.
Local Open Scope N_scope.

(* ---------- the domain and the pruning ---------- *)

Definition omits_c (ce: codec) : bool := match ce with BER => false | _ => true end.
Definition static_set (ce: codec) : bool := match ce with CER => true | _ => false end.
Definition not_choiceb (T: ty) : bool := match T with TChoice _ => false | _ => true end.
Definition choice_base (T: ty) : bool := match base_of T with TChoice _ => true | _ => false end.

(* the encoder [ce] (options d, k) does not leave out this present OPTIONAL component: under CER /
   DER an OPTIONAL component whose contents are empty and constructed is dropped (finding F24) *)
Definition kept_opt (ce: codec) (d: bool) (k: N) (T: ty) (v: val) : bool :=
  negb (omits_c ce) || match enc_with ce (enc_content ce) T (mkOpts d k true) v with Ok [] => false | _ => true end.

Fixpoint cprunable (ce: codec) (d: bool) (k: N) (T: ty) (v: val) {struct T} : bool :=
  match T with
  | TImp _ x | TExp _ x => negb (choice_base x) && cprunable ce d k x v      (* a tagged CHOICE: not here *)
  | TSeq fs =>
      match v with
      | VRec vs =>
          (fix go (fs: list (presence * ty)) (vs: list (option val)) : bool :=
             match fs, vs with
             | [], [] => true
             | f :: fs', Some x :: vs' =>
                 (match fst f with
                  | Req => cprunable ce d k (snd f) x
                  | Opt => cprunable ce d k (snd f) x && kept_opt ce d k (snd f) x
                  | Def dv => match val_py_eq x dv with
                              | Some true => true
                              | Some false => cprunable ce d k (snd f) x
                              | None => false end
                  end) && go fs' vs'
             | f :: fs', None :: vs' => negb (is_req (fst f)) && go fs' vs'
             | _, _ => false
             end) fs vs
      | _ => false
      end
  | TSet fs =>
      match v with
      | VRec vs =>
          (fix go (fs: list (presence * ty)) (vs: list (option val)) : bool :=
             match fs, vs with
             | [], [] => true
             | f :: fs', Some x :: vs' =>
                 (match fst f with
                  | Req => cprunable ce d k (snd f) x
                  | Opt => cprunable ce d k (snd f) x && kept_opt ce d k (snd f) x
                  | Def dv => match val_py_eq x dv with
                              | Some true => true
                              | Some false => cprunable ce d k (snd f) x
                              | None => false end
                  end) && (negb (static_set ce) || not_choiceb (snd f)) && go fs' vs'
             | f :: fs', None :: vs' => negb (is_req (fst f)) && go fs' vs'
             | _, _ => false
             end) fs vs
      | _ => false
      end
  | TSeqOf t => match v with VList xs => forallb (cprunable ce d k t) xs | _ => false end
  | TChoice alts =>
      match v with
      | VChoice i x => (fix go (alts: list ty) (n: nat) : bool :=
                          match alts, n with
                          | a :: _, O => cprunable ce d k a x
                          | _ :: r, S n' => go r n'
                          | [], _ => false
                          end) alts i
      | _ => false
      end
  | _ => true
  end.

(* is the component on the wire *)
Definition on_wire (p: presence) (x: val) : bool :=
  match p with Def dv => match val_py_eq x dv with Some true => false | _ => true end | _ => true end.

Fixpoint cprune (T: ty) (v: val) {struct T} : ty * val :=
  match T with
  | TImp t x => (TImp t (fst (cprune x v)), snd (cprune x v))
  | TExp t x => (TExp t (fst (cprune x v)), snd (cprune x v))
  | TSeq fs =>
      match v with
      | VRec vs =>
          let ms := (fix go (fs: list (presence * ty)) (vs: list (option val)) : list (ty * val) :=
                       match fs, vs with
                       | f :: fs', Some x :: vs' => if on_wire (fst f) x then cprune (snd f) x :: go fs' vs' else go fs' vs'
                       | _ :: fs', None :: vs' => go fs' vs'
                       | _, _ => []
                       end) fs vs in
          (TSeq (rec_ty_of ms), VRec (rec_val_of ms))
      | _ => (T, v)
      end
  | TSet fs =>
      match v with
      | VRec vs =>
          let ms := (fix go (fs: list (presence * ty)) (vs: list (option val)) : list (ty * val) :=
                       match fs, vs with
                       | f :: fs', Some x :: vs' => if on_wire (fst f) x then cprune (snd f) x :: go fs' vs' else go fs' vs'
                       | _ :: fs', None :: vs' => go fs' vs'
                       | _, _ => []
                       end) fs vs in
          (TSet (rec_ty_of ms), VRec (rec_val_of ms))
      | _ => (T, v)
      end
  | TSeqOf t =>
      match v with
      | VList xs => let ms := map (cprune t) xs in (TSeq (rec_ty_of ms), VRec (rec_val_of ms))
      | _ => (T, v)
      end
  | TChoice alts =>
      match v with
      | VChoice i x => (fix go (alts: list ty) (n: nat) : ty * val :=
                          match alts, n with
                          | a :: _, O => cprune a x
                          | _ :: r, S n' => go r n'
                          | [], _ => (T, v)
                          end) alts i
      | _ => (T, v)
      end
  | _ => (T, v)
  end.

Definition cprune_fields : list (presence * ty) -> list (option val) -> list (ty * val) :=
  fix go (fs: list (presence * ty)) (vs: list (option val)) : list (ty * val) :=
    match fs, vs with
    | f :: fs', Some x :: vs' => if on_wire (fst f) x then cprune (snd f) x :: go fs' vs' else go fs' vs'
    | _ :: fs', None :: vs' => go fs' vs'
    | _, _ => []
    end.

Definition member_ok (ce: codec) (d: bool) (k: N) (p: presence) (ft: ty) (x: val) : bool :=
  match p with
  | Req => cprunable ce d k ft x
  | Opt => cprunable ce d k ft x && kept_opt ce d k ft x
  | Def dv => match val_py_eq x dv with
              | Some true => true
              | Some false => cprunable ce d k ft x
              | None => false end
  end.

Definition cprunable_fields (ce: codec) (d: bool) (k: N) (is_set: bool) : list (presence * ty) -> list (option val) -> bool :=
  fix go (fs: list (presence * ty)) (vs: list (option val)) : bool :=
    match fs, vs with
    | [], [] => true
    | f :: fs', Some x :: vs' =>
        member_ok ce d k (fst f) (snd f) x && (negb (is_set && static_set ce) || not_choiceb (snd f)) && go fs' vs'
    | f :: fs', None :: vs' => negb (is_req (fst f)) && go fs' vs'
    | _, _ => false
    end.

Definition cprune_alt (T: ty) (v x: val) : list ty -> nat -> ty * val :=
  fix go (alts: list ty) (n: nat) : ty * val :=
    match alts, n with
    | a :: _, O => cprune a x
    | _ :: r, S n' => go r n'
    | [], _ => (T, v)
    end.

Lemma cprune_seq fs vs : cprune (TSeq fs) (VRec vs) = (TSeq (rec_ty_of (cprune_fields fs vs)), VRec (rec_val_of (cprune_fields fs vs))).
Proof. reflexivity. Qed.
Lemma cprune_set fs vs : cprune (TSet fs) (VRec vs) = (TSet (rec_ty_of (cprune_fields fs vs)), VRec (rec_val_of (cprune_fields fs vs))).
Proof. reflexivity. Qed.
Lemma cprune_seqof t xs : cprune (TSeqOf t) (VList xs) = (TSeq (rec_ty_of (map (cprune t) xs)), VRec (rec_val_of (map (cprune t) xs))).
Proof. reflexivity. Qed.
Lemma cprune_choice alts i x : cprune (TChoice alts) (VChoice i x) = cprune_alt (TChoice alts) (VChoice i x) x alts i.
Proof. reflexivity. Qed.

Lemma cprunable_seq ce d k fs vs : cprunable ce d k (TSeq fs) (VRec vs) = cprunable_fields ce d k false fs vs.
Proof.
  cbn [cprunable]. revert vs. induction fs as [|f fs IH]; intros vs; destruct vs as [|[x|] vs]; try reflexivity.
  all: cbn [cprunable_fields andb negb orb]; rewrite <- IH; unfold member_ok; rewrite ?Bool.andb_true_r; reflexivity.
Qed.
Lemma cprunable_set ce d k fs vs : cprunable ce d k (TSet fs) (VRec vs) = cprunable_fields ce d k true fs vs.
Proof.
  cbn [cprunable]. revert vs. induction fs as [|f fs IH]; intros vs; destruct vs as [|[x|] vs]; try reflexivity.
  all: cbn [cprunable_fields andb]; rewrite <- IH; unfold member_ok; reflexivity.
Qed.

(* ---------- small facts about the encoders ---------- *)

Lemma cenc_total ce T : exists cd fl, concrete_encoder ce T = Ok (cd, fl).
Proof.
  rewrite concrete_encoder_base. pose proof (base_of_plain T) as Hpl.
  destruct (base_of T) eqn:Hb; try contradiction;
    try (destruct ce; eexists; eexists; vm_compute; reflexivity).
  unfold concrete_encoder. cbn [key_of base_of].
  destruct (lookup3 (KStr n) (enc_type_map ce)) as [[a b]|]; [eexists; eexists; reflexivity|].
  destruct ce; eexists; eexists; vm_compute; reflexivity.
Qed.

(* ifNotEmpty matters only when it makes the encoder leave the item out *)
Lemma ifne_irrelevant c T d k v :
  (match enc_with c (enc_content c) T (mkOpts d k true) v with Ok [] => false | _ => true end) = true ->
  enc_with c (enc_content c) T (mkOpts d k true) v = enc_with c (enc_content c) T (mkOpts d k false) v.
Proof.
  unfold enc_with, fix_opts. destruct (enc_fixed c) as [fd fc]. cbn [o_def o_chunk o_ifne].
  destruct (concrete_encoder c T) as [[cd fl]|e]; cbn [bind]; [|reflexivity].
  destruct (tagset_of T) as [ts|e]; cbn [bind]; [|reflexivity].
  destruct (enc_content c T cd fl _ v) as [[content ic]|e]; cbn [bind]; [|reflexivity].
  destruct ts as [|t0 r]; [reflexivity|]. cbn [frame o_ifne o_def].
  destruct ((match content with [] => true | _ => false end) && ic)%bool; cbn [andb]; [discriminate|reflexivity].
Qed.

Lemma fields_c_emit c cd omit o p ft fs x vs :
  on_wire p x = true -> (forall dv, p = Def dv -> val_py_eq x dv = Some false) ->
  fields_c c cd omit o ((p, ft) :: fs) (Some x :: vs)
  = (do b <- enc_with c (enc_content c) ft (if omit then mkOpts (o_def o) (o_chunk o) (is_opt p) else o) x;
     do rest <- fields_c c cd omit o fs vs;
     Ok ((set_sort_key (match cd with EcSetDer => true | _ => false end) ft x, b) :: rest)).
Proof.
  intros Hw Hd. destruct p as [| |dv]; try reflexivity.
  cbn [fields_c]. rewrite (Hd dv eq_refl). reflexivity.
Qed.

Lemma fields_c_skip_def c cd omit o dv ft fs x vs : val_py_eq x dv = Some true ->
  fields_c c cd omit o ((Def dv, ft) :: fs) (Some x :: vs) = fields_c c cd omit o fs vs.
Proof. intros H. cbn [fields_c]. rewrite H. reflexivity. Qed.

Lemma fields_c_skip_none c cd omit o p ft fs vs : is_req p = false ->
  fields_c c cd omit o ((p, ft) :: fs) (None :: vs) = fields_c c cd omit o fs vs.
Proof. intros H. destruct p; try discriminate H; reflexivity. Qed.

Lemma chosen_outer_plain T v : not_choice T -> chosen_outer T v = last_tag (tagset_of' T).
Proof. intros H. destruct T; try reflexivity. destruct H. Qed.

Lemma choice_base_plain T : choice_base T = false -> not_choice T.
Proof. unfold choice_base. destruct T; try exact (fun _ => I). cbn [base_of]. discriminate. Qed.

(* ---------- what pruning keeps, for one encoder and mode ---------- *)

Section Prune.
  Variable ce : codec.
  Variable d : bool.
  Variable k : N.
  Hypothesis Hst : stable ce d k.

  Definition encm (T: ty) (v: val) : res bytes := enc_with ce (enc_content ce) T (mo d k) v.

  (* for a type that is not an untagged CHOICE: same tags, and contents octets that go with them *)
  Definition content_kept (T: ty) (v: val) : Prop :=
    tagset_of (fst (cprune T v)) = tagset_of T
    /\ forall cd fl, concrete_encoder ce T = Ok (cd, fl) ->
       exists cd' fl', concrete_encoder ce (fst (cprune T v)) = Ok (cd', fl') /\ ef_indef fl' = ef_indef fl
         /\ enc_content ce (fst (cprune T v)) cd' fl' (mo d k) (snd (cprune T v)) = enc_content ce T cd fl (mo d k) v.

  Definition prune_kept (T: ty) (v: val) : Prop :=
    encm (fst (cprune T v)) (snd (cprune T v)) = encm T v
    /\ chosen_outer (fst (cprune T v)) (snd (cprune T v)) = chosen_outer T v
    /\ not_choice (fst (cprune T v))
    /\ (choice_base T = false -> content_kept T v).

  Lemma content_kept_enc T v : content_kept T v -> encm (fst (cprune T v)) (snd (cprune T v)) = encm T v.
  Proof.
    intros [Hts Hc]. unfold encm, enc_with. rewrite Hst.
    destruct (cenc_total ce T) as (cd & fl & Hcd). destruct (Hc cd fl Hcd) as (cd' & fl' & Hcd' & Hsi & Hcont).
    rewrite Hcd, Hcd', Hts. cbn [bind].
    destruct (tagset_of T) as [ts|e]; cbn [bind]; [|reflexivity].
    change (mkOpts (o_def (mo d k)) (o_chunk (mo d k)) false) with (mo d k).
    rewrite Hcont, Hsi. reflexivity.
  Qed.

  Lemma choice_enc alts i a x : nth_error alts i = Some a ->
    encm (TChoice alts) (VChoice i x) = encm a x.
  Proof.
    intros Hn. unfold encm. unfold enc_with at 1. rewrite Hst.
    assert (Hc: exists fl, concrete_encoder ce (TChoice alts) = Ok (EcChoice, fl))
      by (destruct ce; eexists; vm_compute; reflexivity).
    destruct Hc as (fl & Hc). rewrite Hc. cbn [bind tagset_of].
    change (mkOpts (o_def (mo d k)) (o_chunk (mo d k)) false) with (mo d k).
    rewrite enc_content_choice_g, (alt_c_nth ce (mo d k) x alts i a Hn).
    destruct (enc_with ce (enc_content ce) a (mo d k) x) as [p|e]; reflexivity.
  Qed.

  Lemma chosen_outer_alt x : forall alts i a, nth_error alts i = Some a ->
    chosen_outer (TChoice alts) (VChoice i x) = chosen_outer a x.
  Proof.
    intros alts i a H. cbn [chosen_outer]. revert i H.
    induction alts as [|a0 alts IH]; intros i H; destruct i as [|i]; try discriminate H.
    - inversion H; subst. reflexivity.
    - cbn [nth_error] in H. exact (IH i H).
  Qed.

  (* the members of a SEQUENCE / SET: the encoder's loop on the pruned members and on the original *)
  Definition parts_rel (keys: bool) (r' r: res (list (tagset * bytes))) : Prop :=
    match r', r with
    | Ok p', Ok p => map snd p' = map snd p /\ (keys = true -> map fst p' = map fst p)
    | Err e', Err e => e' = e
    | _, _ => False
    end.

  Lemma parts_rel_finish cd r' r :
    parts_rel (match cd with EcSetCer | EcSetDer => true | _ => false end) r' r ->
    (do parts <- r'; record_finish cd parts) = (do parts <- r; record_finish cd parts).
  Proof.
    destruct r' as [p'|e']; destruct r as [p|e]; cbn [parts_rel bind]; try contradiction.
    - intros [Hs Hk].
      assert (Hall: (match cd with EcSetCer | EcSetDer => true | _ => false end) = true -> p' = p).
      { intros Hb. specialize (Hk Hb). clear - Hs Hk. revert p Hs Hk.
        induction p' as [|[k1 b1] p' IH]; intros [|[k2 b2] p] Hs Hk; try discriminate; [reflexivity|].
        cbn [map fst snd] in *. inversion Hs; inversion Hk; subst. f_equal. apply IH; assumption. }
      destruct cd; cbn [record_finish]; try reflexivity; try (rewrite Hs; reflexivity);
        rewrite (Hall eq_refl); reflexivity.
    - intros ->. reflexivity.
  Qed.

  Lemma fields_kept cd (is_set: bool) :
    (cd = EcSetCer -> is_set = true /\ static_set ce = true) ->
    forall fs vs,
    Forall (fun f => forall x, cprunable ce d k (snd f) x = true -> prune_kept (snd f) x) fs ->
    cprunable_fields ce d k is_set fs vs = true ->
    parts_rel (match cd with EcSetCer | EcSetDer => true | _ => false end)
      (fields_c ce cd (omits_c ce) (mo d k) (rec_ty_of (cprune_fields fs vs)) (rec_val_of (cprune_fields fs vs)))
      (fields_c ce cd (omits_c ce) (mo d k) fs vs).
  Proof.
    intros Hcer.
    induction fs as [|[p ft] fs IH]; intros vs HF Hp.
    - destruct vs; [|discriminate Hp]. cbn. split; [reflexivity|intros _; reflexivity].
    - inversion HF as [|? ? Hf HFr]; subst. cbn [snd] in Hf.
      destruct vs as [|[x|] vs]; try discriminate Hp.
      + change (cprunable_fields ce d k is_set ((p, ft) :: fs) (Some x :: vs))
          with (member_ok ce d k p ft x && (negb (is_set && static_set ce) || not_choiceb ft) && cprunable_fields ce d k is_set fs vs)%bool in Hp.
        apply Bool.andb_true_iff in Hp. destruct Hp as [Hp Hps]. apply Bool.andb_true_iff in Hp. destruct Hp as [Hm Hnc].
        specialize (IH vs HFr Hps).
        change (cprune_fields ((p, ft) :: fs) (Some x :: vs))
          with (if on_wire p x then cprune ft x :: cprune_fields fs vs else cprune_fields fs vs).
        destruct (on_wire p x) eqn:Ew.
        * (* on the wire *)
          assert (Hpx: cprunable ce d k ft x = true /\ (forall dv, p = Def dv -> val_py_eq x dv = Some false)
                       /\ enc_with ce (enc_content ce) ft (if omits_c ce then mkOpts d k (is_opt p) else mo d k) x = encm ft x).
          { unfold member_ok in Hm. destruct p as [| |dv].
            - split; [exact Hm|]. split; [intros dv H; discriminate H|]. destruct (omits_c ce); reflexivity.
            - apply Bool.andb_true_iff in Hm. destruct Hm as [Hm Hk]. split; [exact Hm|]. split; [intros dv H; discriminate H|].
              unfold kept_opt in Hk. destruct (omits_c ce); [|reflexivity]. cbn [negb orb is_opt] in *.
              exact (ifne_irrelevant ce ft d k x Hk).
            - unfold on_wire in Ew. destruct (val_py_eq x dv) as [[|]|] eqn:Epy; try discriminate.
              split; [exact Hm|]. split; [intros dv' H; inversion H; subst; exact Epy|]. destruct (omits_c ce); reflexivity. }
          destruct Hpx as (Hpx & Hdef & Henc).
          destruct (Hf x Hpx) as (HE & HK & HN & HC).
          rewrite (fields_c_emit ce cd (omits_c ce) (mo d k) p ft fs x vs Ew Hdef).
          change (o_def (mo d k)) with d. change (o_chunk (mo d k)) with k. rewrite Henc.
          change (rec_ty_of (cprune ft x :: cprune_fields fs vs)) with ((Req, fst (cprune ft x)) :: rec_ty_of (cprune_fields fs vs)).
          change (rec_val_of (cprune ft x :: cprune_fields fs vs)) with (Some (snd (cprune ft x)) :: rec_val_of (cprune_fields fs vs)).
          rewrite (fields_c_emit ce cd (omits_c ce) (mo d k) Req _ _ _ _ eq_refl ltac:(intros dv H; discriminate H)).
          change (o_def (mo d k)) with d. change (o_chunk (mo d k)) with k.
          assert (Ho: (if omits_c ce then mkOpts d k (is_opt Req) else mo d k) = mo d k) by (destruct (omits_c ce); reflexivity).
          rewrite Ho. fold (encm (fst (cprune ft x)) (snd (cprune ft x))). rewrite HE.
          destruct (encm ft x) as [b|e]; cbn [bind]; [|reflexivity].
          destruct (fields_c ce cd (omits_c ce) (mo d k) (rec_ty_of (cprune_fields fs vs)) (rec_val_of (cprune_fields fs vs))) as [r1|e1];
            destruct (fields_c ce cd (omits_c ce) (mo d k) fs vs) as [r2|e2]; cbn [parts_rel bind] in *; try contradiction.
          -- destruct IH as [IHs IHk]. cbn [map fst snd]. split; [rewrite IHs; reflexivity|].
             intros Hkeys. rewrite (IHk Hkeys). f_equal.
             destruct cd; try discriminate Hkeys.
             ++ (* CER SET: static keys, no CHOICE among the components *)
                destruct (Hcer eq_refl) as [-> Hss]. rewrite Hss in Hnc. cbn [andb negb orb] in Hnc.
                assert (Hnc': not_choice ft) by (destruct ft; try exact I; discriminate Hnc).
                rewrite (sort_key_plain false _ _ HN), (sort_key_plain false _ _ Hnc').
                assert (Hcb: choice_base ft = false).
                { unfold choice_base. pose proof (base_of_plain ft).
                  destruct ft; try reflexivity; cbn [base_of] in *.
                  - destruct Hnc'.
                  - unfold cprunable in Hpx. fold cprunable in Hpx. apply Bool.andb_true_iff in Hpx. destruct Hpx as [Hcb _].
                    apply Bool.negb_true_iff in Hcb. exact Hcb.
                  - unfold cprunable in Hpx. fold cprunable in Hpx. apply Bool.andb_true_iff in Hpx. destruct Hpx as [Hcb _].
                    apply Bool.negb_true_iff in Hcb. exact Hcb. }
                destruct (HC Hcb) as [Hts _]. unfold tagset_of'. rewrite Hts. reflexivity.
             ++ (* DER SET: the key is the outermost tag of what was chosen *)
                unfold set_sort_key. exact HK.
          -- exact IH.
        * (* a DEFAULT component equal to its default: not on the wire *)
          unfold on_wire in Ew. destruct p as [| |dv]; try discriminate Ew.
          destruct (val_py_eq x dv) as [[|]|] eqn:Epy; try discriminate Ew.
          rewrite (fields_c_skip_def ce cd _ _ dv ft fs x vs Epy). exact IH.
      + change (cprunable_fields ce d k is_set ((p, ft) :: fs) (None :: vs))
          with (negb (is_req p) && cprunable_fields ce d k is_set fs vs)%bool in Hp.
        apply Bool.andb_true_iff in Hp. destruct Hp as [Hpo Hps]. apply Bool.negb_true_iff in Hpo.
        change (cprune_fields ((p, ft) :: fs) (None :: vs)) with (cprune_fields fs vs).
        rewrite (fields_c_skip_none ce cd _ _ p ft fs vs Hpo). exact (IH vs HFr Hps).
  Qed.

  (* the elements of a SEQUENCE OF, as the components of the pruned SEQUENCE *)
  Lemma elems_kept cd t : forall xs,
    (forall x, cprunable ce d k t x = true -> prune_kept t x) ->
    forallb (cprunable ce d k t) xs = true ->
    match fields_c ce cd (omits_c ce) (mo d k) (rec_ty_of (map (cprune t) xs)) (rec_val_of (map (cprune t) xs)),
          elems_c ce t (mo d k) xs with
    | Ok p', Ok p => map snd p' = p
    | Err e', Err e => e' = e
    | _, _ => False
    end.
  Proof.
    intros xs Ht. induction xs as [|x xs IH]; intros Hp; [reflexivity|].
    cbn [forallb] in Hp. apply Bool.andb_true_iff in Hp. destruct Hp as [Hx Hxs]. specialize (IH Hxs).
    destruct (Ht x Hx) as (HE & _).
    cbn [map].
    change (rec_ty_of (cprune t x :: map (cprune t) xs)) with ((Req, fst (cprune t x)) :: rec_ty_of (map (cprune t) xs)).
    change (rec_val_of (cprune t x :: map (cprune t) xs)) with (Some (snd (cprune t x)) :: rec_val_of (map (cprune t) xs)).
    rewrite (fields_c_emit ce cd (omits_c ce) (mo d k) Req _ _ _ _ eq_refl ltac:(intros dv H; discriminate H)).
    change (o_def (mo d k)) with d. change (o_chunk (mo d k)) with k.
    assert (Ho: (if omits_c ce then mkOpts d k (is_opt Req) else mo d k) = mo d k) by (destruct (omits_c ce); reflexivity).
    rewrite Ho. fold (encm (fst (cprune t x)) (snd (cprune t x))). rewrite HE.
    cbn [elems_c]. fold (encm t x).
    destruct (encm t x) as [b|e]; cbn [bind]; [|reflexivity].
    destruct (fields_c ce cd (omits_c ce) (mo d k) (rec_ty_of (map (cprune t) xs)) (rec_val_of (map (cprune t) xs))) as [r1|e1];
      destruct (elems_c ce t (mo d k) xs) as [r2|e2]; cbn [bind] in *; try contradiction.
    - cbn [map snd]. rewrite IH. reflexivity.
    - exact IH.
  Qed.

  Lemma alt_kept T0 v0 x : forall alts i,
    Forall (fun a => forall y, cprunable ce d k a y = true -> prune_kept a y) alts ->
    (fix go (alts: list ty) (n: nat) : bool :=
       match alts, n with
       | a :: _, O => cprunable ce d k a x
       | _ :: r, S n' => go r n'
       | [], _ => false
       end) alts i = true ->
    exists a, nth_error alts i = Some a /\ cprune_alt T0 v0 x alts i = cprune a x /\ prune_kept a x.
  Proof.
    induction alts as [|a0 alts IH]; intros i HF Hp; [destruct i; discriminate Hp|].
    inversion HF as [|? ? Ha HFr]; subst. destruct i as [|i].
    - exists a0. split; [reflexivity|]. split; [reflexivity|exact (Ha x Hp)].
    - destruct (IH i HFr Hp) as (a & Hn & Hc & Hk). exists a. split; [exact Hn|]. split; [exact Hc|exact Hk].
  Qed.

  Lemma kept_id T v : cprune T v = (T, v) -> not_choice T -> prune_kept T v.
  Proof.
    intros Hid Hn. unfold prune_kept, content_kept. rewrite Hid. cbn [fst snd].
    split; [reflexivity|]. split; [reflexivity|]. split; [exact Hn|]. intros _. split; [reflexivity|].
    intros cd fl Hc. exists cd, fl. split; [exact Hc|]. split; reflexivity.
  Qed.

  Theorem prune_kept_all : forall T v, cprunable ce d k T v = true -> prune_kept T v.
  Proof.
    induction T as [| | | | | | | | n|fs IH|fs IH|t IH|t IH|alts IH| |tg x IH|tg x IH] using ty_ind';
      intros v Hp; try (apply kept_id; [reflexivity|exact I]).
    - (* SEQUENCE *)
      destruct v; try discriminate Hp. rewrite cprunable_seq in Hp.
      assert (HC: content_kept (TSeq fs) (VRec fs0)).
      { unfold content_kept. rewrite cprune_seq. cbn [fst snd]. split; [reflexivity|].
        intros cd fl Hc. exists cd, fl. split; [exact Hc|]. split; [reflexivity|].
        rewrite !enc_content_seq_g.
        assert (Hcd: cd = EcSeq /\ record_omit cd fl = omits_c ce) by (destruct ce; vm_compute in Hc; inversion Hc; split; reflexivity).
        destruct Hcd as [-> ->].
        apply (parts_rel_finish EcSeq). apply (fields_kept EcSeq false ltac:(discriminate) fs fs0 IH Hp). }
      unfold prune_kept. split; [exact (content_kept_enc _ _ HC)|]. rewrite cprune_seq. cbn [fst snd].
      split; [reflexivity|]. split; [exact I|]. intros _. exact HC.
    - (* SET *)
      destruct v; try discriminate Hp. rewrite cprunable_set in Hp.
      assert (HC: content_kept (TSet fs) (VRec fs0)).
      { unfold content_kept. rewrite cprune_set. cbn [fst snd]. split; [reflexivity|].
        intros cd fl Hc. exists cd, fl. split; [exact Hc|]. split; [reflexivity|].
        rewrite !enc_content_set_g.
        assert (Hcd: record_omit cd fl = omits_c ce /\ (cd = EcSeq \/ cd = EcSetDer \/ (cd = EcSetCer /\ static_set ce = true)))
          by (destruct ce; vm_compute in Hc; inversion Hc; split; try reflexivity; auto).
        destruct Hcd as [-> Hcd].
        apply (parts_rel_finish cd). apply (fields_kept cd true); [|exact IH|exact Hp].
        intros ->. destruct Hcd as [H|[H|[_ H]]]; try discriminate H. split; [reflexivity|exact H]. }
      unfold prune_kept. split; [exact (content_kept_enc _ _ HC)|]. rewrite cprune_set. cbn [fst snd].
      split; [reflexivity|]. split; [exact I|]. intros _. exact HC.
    - (* SEQUENCE OF: the SEQUENCE of its pruned elements *)
      destruct v; try discriminate Hp. cbn [cprunable] in Hp.
      assert (HC: content_kept (TSeqOf t) (VList xs)).
      { unfold content_kept. rewrite cprune_seqof. cbn [fst snd]. split; [reflexivity|].
        intros cd fl Hc.
        assert (Hcd: (cd = EcSeqOfBer \/ cd = EcSeqOfCer) /\ ef_indef fl = true) by (destruct ce; vm_compute in Hc; inversion Hc; split; auto).
        destruct Hcd as [Hcd Hsi].
        assert (Hc': exists fl', concrete_encoder ce (TSeq (rec_ty_of (map (cprune t) xs))) = Ok (EcSeq, fl') /\ ef_indef fl' = true
                                 /\ record_omit EcSeq fl' = omits_c ce)
          by (destruct ce; (eexists; split; [vm_compute; reflexivity|split; reflexivity])).
        destruct Hc' as (fl' & Hc' & Hsi' & Hom).
        exists EcSeq, fl'. split; [exact Hc'|]. split; [congruence|].
        rewrite enc_content_seq_g, enc_content_seqof_g, Hom.
        pose proof (elems_kept EcSeq t xs IH Hp) as Hrel.
        destruct (fields_c ce EcSeq (omits_c ce) (mo d k) (rec_ty_of (map (cprune t) xs)) (rec_val_of (map (cprune t) xs))) as [r1|e1];
          destruct (elems_c ce t (mo d k) xs) as [r2|e2]; cbn [bind] in *; try contradiction.
        - destruct Hcd as [-> | ->]; cbn [record_finish listof_finish]; rewrite Hrel; reflexivity.
        - rewrite Hrel. reflexivity. }
      unfold prune_kept. split; [exact (content_kept_enc _ _ HC)|]. rewrite cprune_seqof. cbn [fst snd].
      split; [reflexivity|]. split; [exact I|]. intros _. exact HC.
    - (* untagged CHOICE: the chosen alternative *)
      destruct v; try discriminate Hp. cbn [cprunable] in Hp.
      destruct (alt_kept (TChoice alts) (VChoice i v) v alts i IH Hp) as (a & Hn & Hc & HE & HK & HN & _).
      unfold prune_kept. rewrite cprune_choice, Hc.
      split; [rewrite HE; symmetry; exact (choice_enc alts i a v Hn)|].
      split; [rewrite HK; symmetry; exact (chosen_outer_alt v alts i a Hn)|].
      split; [exact HN|]. intros Hcb. discriminate Hcb.
    - (* IMPLICIT *)
      cbn [cprunable] in Hp. apply Bool.andb_true_iff in Hp. destruct Hp as [Hcb Hp]. apply Bool.negb_true_iff in Hcb.
      destruct (IH v Hp) as (_ & _ & _ & HC). destruct (HC Hcb) as [Hts Hcont].
      assert (HC': content_kept (TImp tg x) v).
      { unfold content_kept. cbn [cprune fst snd]. split; [cbn [tagset_of]; rewrite Hts; reflexivity|].
        intros cd fl Hc. rewrite (concrete_encoder_base ce (TImp tg x)) in Hc. cbn [base_of] in Hc. rewrite <- concrete_encoder_base in Hc.
        destruct (Hcont cd fl Hc) as (cd' & fl' & Hc' & Hsi & He).
        exists cd', fl'. split; [|split; [exact Hsi|exact He]].
        rewrite (concrete_encoder_base ce (TImp tg _)). cbn [base_of]. rewrite <- concrete_encoder_base. exact Hc'. }
      unfold prune_kept. split; [exact (content_kept_enc _ _ HC')|]. cbn [cprune fst snd].
      split; [|split; [exact I|intros _; exact HC']].
      cbn [chosen_outer]. unfold tagset_of'. cbn [tagset_of]. rewrite Hts. reflexivity.
    - (* EXPLICIT *)
      cbn [cprunable] in Hp. apply Bool.andb_true_iff in Hp. destruct Hp as [Hcb Hp]. apply Bool.negb_true_iff in Hcb.
      destruct (IH v Hp) as (_ & _ & _ & HC). destruct (HC Hcb) as [Hts Hcont].
      assert (HC': content_kept (TExp tg x) v).
      { unfold content_kept. cbn [cprune fst snd]. split; [cbn [tagset_of]; rewrite Hts; reflexivity|].
        intros cd fl Hc. rewrite (concrete_encoder_base ce (TExp tg x)) in Hc. cbn [base_of] in Hc. rewrite <- concrete_encoder_base in Hc.
        destruct (Hcont cd fl Hc) as (cd' & fl' & Hc' & Hsi & He).
        exists cd', fl'. split; [|split; [exact Hsi|exact He]].
        rewrite (concrete_encoder_base ce (TExp tg _)). cbn [base_of]. rewrite <- concrete_encoder_base. exact Hc'. }
      unfold prune_kept. split; [exact (content_kept_enc _ _ HC')|]. cbn [cprune fst snd].
      split; [|split; [exact I|intros _; exact HC']].
      cbn [chosen_outer]. unfold tagset_of'. cbn [tagset_of]. rewrite Hts. reflexivity.
  Qed.
End Prune.

(* the encoder writes for the pruned value what it writes for the original *)
Theorem cprune_enc ce d k T v : stable ce d k -> cprunable ce d k T v = true ->
  encode ce d k (fst (cprune T v)) (snd (cprune T v)) = encode ce d k T v.
Proof. intros Hst Hp. exact (proj1 (prune_kept_all ce d k Hst T v Hp)). Qed.

Theorem cprune_tagset ce d k T v : stable ce d k -> cprunable ce d k T v = true -> choice_base T = false ->
  tagset_of (fst (cprune T v)) = tagset_of T.
Proof. intros Hst Hp Hc. exact (proj1 (proj2 (proj2 (proj2 (prune_kept_all ce d k Hst T v Hp))) Hc)). Qed.

(* ---------- the theorems ---------- *)

(* BER encoder, every mode; T may contain untagged CHOICE members / elements, DEFAULT and OPTIONAL
   components; (T', v') = cprune T v is what is on the wire.  The decoded object has the tags, the
   skeleton and the leaves of the pruned value, and its DER re-encoding is the DER encoding of the
   ORIGINAL value. *)
Theorem schemaless_roundtrip_choice_default : forall cd d chunk T v b tl,
  dec_ok cd -> cprunable BER d chunk T v = true -> cprunable DER true 0 T v = true ->
  sl_frag true (fst (cprune T v)) = true -> (d = false -> no_f01 (fst (cprune T v)) = true) ->
  sl_val BER cd (fst (cprune T v)) (snd (cprune T v)) = true ->
  encode BER d chunk T v = Ok b -> N.of_nat (length b) <= index_max ->
  exists T0 v0, decode cd None (b ++ tl) = Ok (DV T0 v0, tl)
    /\ tagset_of T0 = tagset_of (fst (cprune T v))
    /\ skel T0 v0 = skel (fst (cprune T v)) (snd (cprune T v))
    /\ leaves T0 v0 = leaves (fst (cprune T v)) (snd (cprune T v))
    /\ encode DER true 0 T0 v0 = encode DER true 0 T v.
Proof.
  intros cd d chunk T v b tl Hcd Hp Hpd Hfr Hno Hv He Hmax.
  rewrite <- (cprune_enc BER d chunk T v (stable_ber d chunk) Hp) in He.
  destruct (schemaless_roundtrip_ber_modes cd d chunk _ _ b tl Hcd Hfr Hno Hv He Hmax) as (T0 & v0 & Hd & Hts & Hsk & Hl & Hder).
  exists T0, v0. split; [exact Hd|]. split; [exact Hts|]. split; [exact Hsk|]. split; [exact Hl|].
  rewrite Hder. exact (cprune_enc DER true 0 T v stable_der Hpd).
Qed.

(* the CER encoder: it sorts SET OF / SET members, hence the order under such nodes *)
Theorem schemaless_roundtrip_choice_default_cer : forall cd d k T v b tl,
  dec_ok cd -> cprunable CER false 1000 T v = true -> cprunable DER true 0 T v = true ->
  sl_frag true (fst (cprune T v)) = true -> no_f01 (fst (cprune T v)) = true ->
  sl_val CER cd (fst (cprune T v)) (snd (cprune T v)) = true ->
  encode CER d k T v = Ok b -> N.of_nat (length b) <= index_max ->
  exists T0 v0, decode cd None (b ++ tl) = Ok (DV T0 v0, tl)
    /\ tagset_of T0 = tagset_of (fst (cprune T v))
    /\ sk_sim (skel (fst (cprune T v)) (snd (cprune T v))) (skel T0 v0)
    /\ Permutation (leaves (fst (cprune T v)) (snd (cprune T v))) (leaves T0 v0)
    /\ encode DER true 0 T0 v0 = encode DER true 0 T v.
Proof.
  intros cd d k T v b tl Hcd Hp Hpd Hfr Hno Hv He Hmax.
  rewrite encode_cer_fixed in He.
  rewrite <- (cprune_enc CER false 1000 T v stable_cer Hp) in He.
  destruct (schemaless_roundtrip_cer_encoder_sets cd false 1000 _ _ b tl Hcd Hfr Hno Hv He Hmax) as (T0 & v0 & Hd & Hts & Hsk & Hl & Hder).
  exists T0, v0. split; [exact Hd|]. split; [exact Hts|]. split; [exact Hsk|]. split; [exact Hl|].
  rewrite Hder. exact (cprune_enc DER true 0 T v stable_der Hpd).
Qed.

(* the DER encoding itself, read by any of the three decoders: re-encoding reproduces it *)
Theorem schemaless_der_reencode_choice_default : forall cd T v e tl,
  cprunable DER true 0 T v = true ->
  sl_frag true (fst (cprune T v)) = true -> sl_val DER cd (fst (cprune T v)) (snd (cprune T v)) = true ->
  encode DER true 0 T v = Ok e -> N.of_nat (length e) <= index_max ->
  exists T0 v0, decode cd None (e ++ tl) = Ok (DV T0 v0, tl)
    /\ encode DER true 0 T0 v0 = Ok e
    /\ tagset_of T0 = tagset_of (fst (cprune T v))
    /\ sk_sim (skel (fst (cprune T v)) (snd (cprune T v))) (skel T0 v0)
    /\ Permutation (leaves (fst (cprune T v)) (snd (cprune T v))) (leaves T0 v0).
Proof.
  intros cd T v e tl Hp Hfr Hv He Hmax.
  rewrite <- (cprune_enc DER true 0 T v stable_der Hp) in He.
  exact (schemaless_der_reencode_sets cd _ _ e tl Hfr Hv He Hmax).
Qed.

(* ---------- non-vacuity ---------- *)

(* SEQUENCE { c CHOICE { INTEGER, OCTET STRING, [3] EXPLICIT OCTET STRING },
              n [0] EXPLICIT INTEGER DEFAULT 7, o OCTET STRING DEFAULT '01'H,
              l SEQUENCE OF CHOICE { NULL, SEQUENCE { INTEGER OPTIONAL, CHOICE { BOOLEAN, UTF8String } } },
              s SET { CHOICE { INTEGER, OCTET STRING }, REAL OPTIONAL, BOOLEAN } } *)
Definition ex4_ty : ty :=
  TSeq [ (Req, TChoice [TInt; TOcts; TExp (mkTag Ctx false 3) TOcts]);
         (Def (VInt 7), TExp (mkTag Ctx false 0) TInt);
         (Def (VOcts [1]), TOcts);
         (Req, TSeqOf (TChoice [TNull; TSeq [(Opt, TInt); (Req, TChoice [TBool; TStr 12])]]));
         (Req, TSet [(Req, TChoice [TInt; TOcts]); (Opt, TReal); (Req, TBool)]) ].
Definition ex4_val : val :=
  VRec [ Some (VChoice 2 (VOcts [5; 6; 7])); Some (VInt 7); Some (VOcts [2]);
         Some (VList [VChoice 0 VNull; VChoice 1 (VRec [None; Some (VChoice 1 (VOcts [104]))])]);
         Some (VRec [Some (VChoice 1 (VOcts [9])); None; Some (VBool false)]) ].

Example schemaless_roundtrip_choice_default_nonvacuous :
  cprunable BER false 2 ex4_ty ex4_val = true /\ cprunable DER true 0 ex4_ty ex4_val = true
  /\ cprune ex4_ty ex4_val
     = (TSeq [ (Req, TExp (mkTag Ctx false 3) TOcts); (Req, TOcts);
               (Req, TSeq [(Req, TNull); (Req, TSeq [(Req, TStr 12)])]);
               (Req, TSet [(Req, TOcts); (Req, TBool)]) ],
        VRec [ Some (VOcts [5; 6; 7]); Some (VOcts [2]);
               Some (VRec [Some VNull; Some (VRec [Some (VOcts [104])])]);
               Some (VRec [Some (VOcts [9]); Some (VBool false)]) ])
  /\ sl_frag true (fst (cprune ex4_ty ex4_val)) = true /\ no_f01 (fst (cprune ex4_ty ex4_val)) = true
  /\ sl_val BER CER (fst (cprune ex4_ty ex4_val)) (snd (cprune ex4_ty ex4_val)) = true
  /\ exists b, encode BER false 2 ex4_ty ex4_val = Ok b /\ N.of_nat (length b) <= index_max
       /\ exists T0 v0, decode CER None (b ++ [1]) = Ok (DV T0 v0, [1])
            /\ length (leaves T0 v0) = 6%nat
            /\ encode DER true 0 T0 v0 = encode DER true 0 ex4_ty ex4_val
            /\ encode DER true 0 ex4_ty ex4_val
               = Ok [48; 27; 163; 5; 4; 3; 5; 6; 7; 4; 1; 2; 48; 7; 5; 0; 48; 3; 12; 1; 104; 49; 6; 1; 1; 0; 4; 1; 9].
Proof.
  split; [vm_compute; reflexivity|]. split; [vm_compute; reflexivity|]. split; [vm_compute; reflexivity|].
  split; [vm_compute; reflexivity|]. split; [vm_compute; reflexivity|]. split; [vm_compute; reflexivity|].
  eexists. split; [vm_compute; reflexivity|]. split; [vm_compute; discriminate|].
  eexists; eexists. split; [vm_compute; reflexivity|]. split; [vm_compute; reflexivity|]. split; vm_compute; reflexivity.
Qed.

(* the DER encoding read back and reproduced; the CER encoder too *)
Example schemaless_der_reencode_choice_default_nonvacuous :
  sl_val DER DER (fst (cprune ex4_ty ex4_val)) (snd (cprune ex4_ty ex4_val)) = true
  /\ cprunable CER false 1000 ex4_ty ex4_val = false     (* CER: a CHOICE directly in a SET is sorted by a static key *)
  /\ exists e, encode DER true 0 ex4_ty ex4_val = Ok e
       /\ exists T0 v0, decode DER None e = Ok (DV T0 v0, []) /\ encode DER true 0 T0 v0 = Ok e.
Proof.
  split; [vm_compute; reflexivity|]. split; [vm_compute; reflexivity|].
  eexists. split; [vm_compute; reflexivity|]. eexists; eexists. split; [vm_compute; reflexivity | vm_compute; reflexivity].
Qed.

(* why a CHOICE directly inside a SET is excluded under CER: CER orders the components of a SET by the
   smallest tag ANY alternative could have, not by the tag of the alternative chosen, so what it
   writes is not what it writes for the pruned value *)
Example cer_set_choice_differs :
  let T := TSet [(Req, TChoice [TInt; TStr 12]); (Req, TOcts)] in
  let v := VRec [Some (VChoice 1 (VOcts [104])); Some (VOcts [9])] in
  cprune T v = (TSet [(Req, TStr 12); (Req, TOcts)], VRec [Some (VOcts [104]); Some (VOcts [9])])
  /\ encode CER true 0 T v = Ok [49; 128; 12; 1; 104; 4; 1; 9; 0; 0]
  /\ encode CER true 0 (fst (cprune T v)) (snd (cprune T v)) = Ok [49; 128; 4; 1; 9; 12; 1; 104; 0; 0]
  /\ encode DER true 0 T v = Ok [49; 6; 4; 1; 9; 12; 1; 104].
Proof. cbv zeta. repeat split; vm_compute; reflexivity. Qed.

Print Assumptions schemaless_roundtrip_choice_default.
Print Assumptions schemaless_roundtrip_choice_default_cer.
Print Assumptions schemaless_der_reencode_choice_default.
Print Assumptions cprune_enc.
Print Assumptions schemaless_roundtrip_choice_default_nonvacuous.

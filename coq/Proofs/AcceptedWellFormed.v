(* C10: whatever a decoder accepts - for EVERY input, not only encoder outputs - is a well-formed
   value of the guiding type.  Inversion of the decoder model: induction on the decoder's fuel,
   [resume (pbind ..)] inverted at every step. *)
From Coq Require Import Lia.
From PV Require Import Base.Bytes Model.Tag Model.TableTypes Model.Types Model.Proc Model.Enc Model.Dec Gen.Tables
     Proofs.ProcBind.
Local Open Scope N_scope.

(* ------------------------------------------------------------------------------------------ *)
(* well-formed values of a type: shape only                                                   *)
(* ------------------------------------------------------------------------------------------ *)

(* an OBJECT IDENTIFIER value has at least two arcs, the first 0, 1 or 2, the second below 40 unless
   the first is 2 (X.680 32, X.690 8.19.4) *)
Definition oid_wf (arcs: list N) : bool :=
  match arcs with
  | first :: second :: _ =>
      N.eqb first 2 || (N.leb second 39 && (N.eqb first 0 || N.eqb first 1))
  | _ => false
  end.

(* a REAL value of the model proper (RFloat stands for values that went through a Python float) *)
Definition real_wf (r: real) : bool := match r with RFloat => false | _ => true end.

(* v is a well-formed value of T: right constructor at every level, one slot per declared
   component, every mandatory component present, a CHOICE holds exactly one of its alternatives,
   list elements are values of the element type *)
Fixpoint val_of (T: ty) (v: val) {struct T} : bool :=
  match T with
  | TBool => match v with VBool _ => true | _ => false end
  | TInt | TEnum => match v with VInt _ => true | _ => false end
  | TBits => match v with VBits _ => true | _ => false end
  | TOcts => match v with VOcts _ => true | _ => false end
  | TStr _ => match v with VOcts _ | VChars _ => true | _ => false end
  | TNull => match v with VNull => true | _ => false end
  | TOid => match v with VOid a => oid_wf a | _ => false end
  | TReal => match v with VReal r => real_wf r | _ => false end
  | TAny => match v with VAny _ | VOcts _ => true | _ => false end
  | TSeq fs | TSet fs =>
      match v with
      | VRec vs =>
          (fix go (fs: list (presence * ty)) (vs: list (option val)) : bool :=
             match fs, vs with
             | [], [] => true
             | (p, t) :: fs', ov :: vs' =>
                 (match ov with
                  | Some x => val_of t x
                  | None => match p with Req => false | _ => true end
                  end) && go fs' vs'
             | _, _ => false
             end) fs vs
      | _ => false
      end
  | TSeqOf t | TSetOf t =>
      match v with VList xs => forallb (val_of t) xs | _ => false end
  | TChoice alts =>
      match v with
      | VChoice i x =>
          (fix go (alts: list ty) (k: nat) : bool :=
             match alts, k with
             | a :: _, O => val_of a x
             | _ :: r, S k' => go r k'
             | [], _ => false
             end) alts i
      | _ => false
      end
  | TImp _ x | TExp _ x => val_of x v
  end.

(* the same, presented with list functions *)
Definition fields_ok (P: ty -> val -> bool) : list (presence * ty) -> list (option val) -> bool :=
  fix go (fs: list (presence * ty)) (vs: list (option val)) : bool :=
    match fs, vs with
    | [], [] => true
    | (p, t) :: fs', ov :: vs' =>
        (match ov with
         | Some x => P t x
         | None => match p with Req => false | _ => true end
         end) && go fs' vs'
    | _, _ => false
    end.

Lemma val_of_seq fs vs : val_of (TSeq fs) (VRec vs) = fields_ok val_of fs vs.
Proof. reflexivity. Qed.
Lemma val_of_set fs vs : val_of (TSet fs) (VRec vs) = fields_ok val_of fs vs.
Proof. reflexivity. Qed.

Definition is_wrapped (T: ty) : bool := match T with TImp _ _ | TExp _ _ => true | _ => false end.

Lemma val_of_base : forall T v, val_of T v = val_of (base_of T) v.
Proof. induction T using ty_ind'; intros v; cbn [base_of]; try reflexivity; cbn [val_of]; apply IHT. Qed.

Fixpoint cdepth (v: val) : nat := match v with VChoice _ x => S (cdepth x) | _ => O end.

(* ------------------------------------------------------------------------------------------ *)
(* the stream is only ever read: the input and its closedness never change                    *)
(* ------------------------------------------------------------------------------------------ *)

Lemma attempt_arrived s n a s' : attempt s n = (a, s') -> arrived s' = arrived s /\ closed s' = closed s.
Proof.
  unfold attempt. destruct (Nat.eqb n 0); [intros H; inversion H; subst; auto|].
  destruct (Nat.ltb (length (avail s)) n); intros H; inversion H; subst; auto.
Qed.

Lemma resume_arrived {A} (p: proc A) : forall s r s',
  resume p s = inr (r, s') -> arrived s' = arrived s /\ closed s' = closed s.
Proof.
  induction p as [a0|e0|n k IH|k IH|d k IH|k IH|k IH|k IH|k IH]; intros s r s' H; cbn [resume] in H.
  - inversion H; subst; auto.
  - inversion H; subst; auto.
  - destruct (attempt s n) as [[c| |] sm] eqn:E; try discriminate.
    + destruct (attempt_arrived _ _ _ _ E) as [E1 E2]. destruct (IH _ _ _ _ H) as [H1 H2]. split; congruence.
    + inversion H; subst. apply (attempt_arrived _ _ _ _ E).
  - apply (IH _ _ _ _ H).
  - destruct (IH _ _ _ H) as [H1 H2]. auto.
  - destruct (IH _ _ _ H) as [H1 H2]. auto.
  - apply (IH _ _ _ _ H).
  - destruct (Nat.eqb (length (avail s)) 0).
    + destruct (closed s) eqn:Ec; [|discriminate]. destruct (IH _ _ _ _ H) as [H1 H2]. split; congruence.
    + apply (IH _ _ _ _ H).
  - destruct (Nat.eqb (length (avail s)) 0).
    + destruct (closed s) eqn:Ec; [inversion H; subst; auto|discriminate].
    + destruct (IH _ _ _ _ H) as [H1 H2]. auto.
Qed.

(* the unread tail handed back by decode is a suffix of the input *)
Lemma decode_with_suffix c fuel sp b d tl :
  decode_with c fuel sp b = Ok (d, tl) -> exists used, b = used ++ tl.
Proof.
  unfold decode_with, run_complete. intros H.
  destruct (resume (dec_item c fuel sp) (mkStream b 0 true 0)) as [[p s]|[[d0|e] s]] eqn:E; try discriminate.
  inversion H; subst. destruct (resume_arrived _ _ _ _ E) as [Ha _]. cbn [arrived] in Ha.
  exists (firstn (pos s) b). unfold avail. rewrite Ha. symmetry. apply firstn_skipn.
Qed.

(* ------------------------------------------------------------------------------------------ *)
(* the dispatch tables hand every type a value decoder of its own kind                        *)
(* ------------------------------------------------------------------------------------------ *)

Definition compat (k: tkey) (cd: dec_codec) : bool :=
  match k, cd with
  | KBool, (DcBoolBer | DcBoolCer) | (KInt | KEnum), DcInt | KBits, DcBits | KOcts, DcOcts
  | KStr _, (DcStr | DcOcts) | KNull, DcNull | KOid, DcOid | KReal, DcReal
  | KSeq, DcSeq | KSet, DcSet | KSeqOf, DcSeqOf | KSetOf, DcSetOf | KChoice, DcChoice | KAny, DcAny => true
  | _, _ => false
  end.

Lemma tkey_eqb_eq a b : tkey_eqb a b = true -> a = b.
Proof. destruct a, b; cbn; intros H; try discriminate; try reflexivity. apply N.eqb_eq in H. subst. reflexivity. Qed.

Lemma lookup3_In {B C} k (l: list (tkey * B * C)) b c : lookup3 k l = Some (b, c) -> In (k, b, c) l.
Proof.
  unfold lookup3. induction l as [|[[k0 b0] c0] l IH]; cbn [map assoc fst snd]; [discriminate|].
  destruct (tkey_eqb k k0) eqn:E.
  - intros H. inversion H; subst. apply tkey_eqb_eq in E. subst. left. reflexivity.
  - intros H. right. apply IH. exact H.
Qed.

Lemma table_compat (l: list (tkey * dec_codec * dec_flags)) k cd fl :
  forallb (fun e => compat (fst (fst e)) (snd (fst e))) l = true -> lookup3 k l = Some (cd, fl) -> compat k cd = true.
Proof.
  intros Hall H. apply lookup3_In in H. rewrite forallb_forall in Hall. apply (Hall _ H).
Qed.

Lemma by_type_compat c T cd fl : by_type c T = Some (cd, fl) -> compat (key_of T) cd = true.
Proof.
  unfold by_type. destruct (lookup3 (key_of T) (dec_type_map c)) as [[cd0 fl0]|] eqn:E1.
  - intros H. inversion H; subst. apply (table_compat (dec_type_map c) _ _ fl); [|exact E1].
    destruct c; vm_compute; reflexivity.
  - unfold tag_fallback_key. intros H.
    destruct (key_of T) eqn:EK;
      try (destruct c; vm_compute in E1; discriminate).
    all: try (destruct c; vm_compute in H; inversion H; reflexivity).
Qed.

(* ------------------------------------------------------------------------------------------ *)
(* the fragment of types                                                                      *)
(* ------------------------------------------------------------------------------------------ *)

(* a member of a tag map (SET members, CHOICE alternatives, a run of OPTIONAL members) that is an
   untagged CHOICE must not reach an untagged ANY: the catch-all entry of the map would hand out the
   ANY alternative itself in place of the CHOICE (see [any_in_choice_member_misplaced] below) *)
Definition map_member_ok (T: ty) : bool :=
  match T with
  | TChoice _ => match tm_default (tagmap_of T) with None => true | Some _ => false end
  | _ => true
  end.

Definition all_req (fs: list (presence * ty)) : bool := forallb (fun f => is_req (fst f)) fs.

Fixpoint frag (T: ty) : bool :=
  match T with
  | TSeq fs => forallb (fun f => frag (snd f)) fs && (all_req fs || forallb (fun f => map_member_ok (snd f)) fs)
  | TSet fs => forallb (fun f => frag (snd f)) fs && forallb (fun f => map_member_ok (snd f)) fs
  | TSeqOf t | TSetOf t => frag t
  | TChoice alts => forallb frag alts && forallb map_member_ok alts
  | TImp _ x | TExp _ x => frag x
  | _ => true
  end.

Lemma frag_base : forall T, frag T = frag (base_of T).
Proof. induction T using ty_ind'; cbn [frag base_of]; auto. Qed.

(* ------------------------------------------------------------------------------------------ *)
(* what a (recursive) decoder call may return                                                 *)
(* ------------------------------------------------------------------------------------------ *)

Definition in_tmap (m: tmap) (T: ty) : Prop :=
  (exists k, In (k, T) (tm_present m)) \/ tm_default m = Some T.

(* a character-string value holds octets its type's text codec accepts (Model/Dec.v str_octets_ok) *)
Definition str_ok (T: ty) (v: val) : Prop :=
  match base_of T with
  | TStr n => match v with VOcts b => str_octets_ok n b = Some true | _ => False end
  | _ => True
  end.

Section Good.
  Variable c : codec.

  Definition dv_ok (n: nat) (T: ty) (v: val) : Prop :=
    (cdepth v <= n)%nat /\ (frag T = true -> val_of T v = true) /\ str_ok T v.

  Definition gd (n: nat) (P: ty -> Prop) (ae sfun: bool) (d: dval) : Prop :=
    match d with
    | DEoo => ae = true
    | DRaw _ => sfun = true
    | DNoValue | DNone => False
    | DV T v => P T /\ dv_ok n T v
    end.

  (* nothing is claimed about what is decoded without a guiding type *)
  Definition good (n: nat) (sp: spec) (ae sfun: bool) (d: dval) : Prop :=
    match sp with
    | SNone => True
    | STy T0 => gd n (fun T => T = T0) ae sfun d
    | SMap m => gd n (in_tmap m) ae sfun d
    end.

  Lemma dv_ok_mono n m T v : (n <= m)%nat -> dv_ok n T v -> dv_ok m T v.
  Proof. intros Hle [H1 H2]. split; [lia|exact H2]. Qed.

  Lemma gd_mono n m P ae sfun d : (n <= m)%nat -> gd n P ae sfun d -> gd m P ae sfun d.
  Proof.
    intros Hle. destruct d as [T v| |b| |]; cbn [gd]; auto.
    intros [H1 H2]. split; [exact H1|exact (dv_ok_mono _ _ _ _ Hle H2)].
  Qed.

  Lemma good_mono n m sp ae sfun d : (n <= m)%nat -> good n sp ae sfun d -> good m sp ae sfun d.
  Proof. intros Hle. destruct sp as [|T0|mp]; cbn [good gd]; auto; apply gd_mono; exact Hle. Qed.

  (* apart from the end-of-octets marker, the verdict does not depend on the caller's flags *)
  Lemma good_flags n sp ae ae' sfun' d : d <> DEoo -> good n sp ae false d -> good n sp ae' sfun' d.
  Proof.
    intros Hd. destruct sp as [|T0|mp]; cbn [good gd]; auto; destruct d; cbn [gd]; auto; try discriminate; contradiction.
  Qed.

  (* the precondition of a call: a resumed call carries the tags already read, and resumes in the
     indefinite form only where the codec supports it *)
  Definition pre (ts: tagset) (rs: option (option N)) : Prop :=
    (rs = None \/ ts <> []) /\ (rs = Some None -> support_indef c = true).

  Definition rec_good (n: nat) (rec: spec -> tagset -> option (option N) -> bool -> bool -> proc dval) : Prop :=
    forall sp ts rs ae sfun s d s', pre ts rs ->
      resume (rec sp ts rs ae sfun) s = inr (Ok d, s') -> good n sp ae sfun d.

  (* ---------------- scalars ---------------- *)

  Lemma create_inv T proto ts v s d s' :
    resume (create (Some T) proto ts v) s = inr (Ok d, s') ->
    d = DV T (match base_of T, v with TBool, VInt z => VBool (negb (Z.eqb z 0)) | _, _ => v end).
  Proof.
    unfold create.
    destruct (base_of T) eqn:EB; destruct v; cbn [resume]; intros H; try (inversion H; subst; reflexivity).
    destruct (str_octets_ok n b) as [[|]|]; cbn [resume] in H; try discriminate. inversion H; subst; reflexivity.
  Qed.

  (* a scalar value whose constructor fits the base type *)
  Definition scalar_fits (T: ty) (v: val) : bool :=
    match base_of T, v with
    | TBool, (VBool _ | VInt _) | (TInt | TEnum), VInt _ | TBits, VBits _ | (TOcts | TStr _), VOcts _
    | TNull, VNull | TAny, VAny _ => true
    | TOid, VOid a => oid_wf a
    | TReal, VReal r => real_wf r
    | _, _ => false
    end.

  Lemma create_str T proto ts v s d s' : scalar_fits T v = true ->
    resume (create (Some T) proto ts v) s = inr (Ok d, s') ->
    str_ok T (match base_of T, v with TBool, VInt z => VBool (negb (Z.eqb z 0)) | _, _ => v end).
  Proof.
    unfold create, str_ok, scalar_fits.
    destruct (base_of T) eqn:EB; try (intros; exact I).
    destruct v; cbn [resume]; intros Hf H; try discriminate Hf.
    destruct (str_octets_ok n b) as [[|]|] eqn:E; cbn [resume] in H; try discriminate. reflexivity.
  Qed.

  Lemma create_good n T proto ts v s d s' ae sfun :
    scalar_fits T v = true ->
    resume (create (Some T) proto ts v) s = inr (Ok d, s') -> good n (STy T) ae sfun d.
  Proof.
    intros Hf H. pose proof (create_str _ _ _ _ _ _ _ Hf H) as Hs.
    apply create_inv in H. subst d. cbn [good gd]. split; [reflexivity|].
    unfold scalar_fits in Hf. split; [|split].
    - destruct (base_of T); destruct v; cbn [cdepth]; try lia; discriminate.
    - intros _. rewrite val_of_base.
      destruct (base_of T); destruct v; try discriminate; try reflexivity; exact Hf.
    - exact Hs.
  Qed.
End Good.

Ltac binv H := let a := fresh "a" in let s1 := fresh "s" in let Ha := fresh "Ha" in
  apply resume_pbind_inv in H; destruct H as (a & s1 & Ha & H).

Ltac dead H := solve [cbn [resume] in H; discriminate H].

Lemma lift_inv {A} (r: res A) s a s' : resume (lift r) s = inr (Ok a, s') -> r = Ok a.
Proof. destruct r; cbn [lift resume]; intros H; inversion H; subst; reflexivity. Qed.

Section Scalars.
  Variable c : codec.
  Variable rec : spec -> tagset -> option (option N) -> bool -> bool -> proc dval.
  Variable lf : nat.

  Lemma integer_good n T proto ts l s d s' ae sfun : (forall z, scalar_fits T (VInt z) = true) ->
    resume (dec_integer lf (Some T) proto ts l) s = inr (Ok d, s') -> good n (STy T) ae sfun d.
  Proof.
    intros Hf H. unfold dec_integer in H. destruct (negb (tag0_simple ts)); [dead H|].
    binv H. apply (create_good n _ _ _ _ _ _ _ ae sfun (Hf _) H).
  Qed.

  Lemma match_bool_octet {A} (x: N) (r: bytes) (P Q R: A) :
    match x :: r with [255] => P | [0] => Q | _ => R end =
    match r with [] => if N.eqb x 255 then P else if N.eqb x 0 then Q else R | _ => R end.
  Proof.
    destruct r as [|y r].
    - destruct x as [|p]; [reflexivity|]. do 8 (destruct p as [p|p|]; try reflexivity).
    - destruct x as [|p]; [reflexivity|]. do 8 (destruct p as [p|p|]; try reflexivity).
  Qed.

  Lemma bool_cer_good n T ts l s d s' ae sfun : (forall z, scalar_fits T (VInt z) = true) ->
    resume (dec_bool_cer lf (Some T) ts l) s = inr (Ok d, s') -> good n (STy T) ae sfun d.
  Proof.
    intros Hf H. unfold dec_bool_cer in H. destruct (negb (N.eqb l 1)); [dead H|].
    binv H. destruct a as [|x r]; [dead H|]. rewrite match_bool_octet in H.
    destruct r; [|dead H]. destruct (N.eqb x 255); [|destruct (N.eqb x 0); [|dead H]].
    - apply (create_good n _ _ _ _ _ _ _ ae sfun (Hf _) H).
    - apply (create_good n _ _ _ _ _ _ _ ae sfun (Hf _) H).
  Qed.

  Lemma null_good n T ts l s d s' ae sfun : scalar_fits T VNull = true ->
    resume (dec_null lf (Some T) ts l) s = inr (Ok d, s') -> good n (STy T) ae sfun d.
  Proof.
    intros Hf H. unfold dec_null in H. destruct (negb (tag0_simple ts)); [dead H|].
    binv H. destruct a; [|dead H]. apply (create_good n _ _ _ _ _ _ _ ae sfun Hf H).
  Qed.

  Lemma dec_oid_wf b a : dec_oid b = Ok a -> oid_wf a = true.
  Proof.
    unfold dec_oid. destruct b as [|o b]; [discriminate|].
    destruct (oid_subids (S (length (o :: b))) (o :: b)) as [[|x r]|e]; cbn [bind]; try discriminate.
    destruct (N.leb_spec x 39) as [H1|H1].
    - intros H. inversion H; subst. cbn [oid_wf]. apply N.leb_le in H1. rewrite H1. reflexivity.
    - destruct (N.leb_spec x 79) as [H2|H2]; intros H; inversion H; subst; cbn [oid_wf]; [|reflexivity].
      assert (Hle: N.leb (x - 40) 39 = true) by (apply N.leb_le; lia). rewrite Hle. reflexivity.
  Qed.

  Lemma dec_real_wf b r : dec_real b = Ok r -> real_wf r = true.
  Proof.
    unfold dec_real. destruct b as [|fo chunk]; [intros H; inversion H; reflexivity|].
    destruct (negb (N.eqb (N.land fo 128) 0)).
    - destruct chunk as [|c0 crest]; [discriminate|].
      destruct (N.eqb (N.land fo 3 + 1) 4).
      + destruct (firstn (N.to_nat c0) crest); [discriminate|]. destruct (skipn (N.to_nat c0) crest); [discriminate|].
        destruct (N.ltb 2 (N.land (N.shiftr fo 4) 3)); [discriminate|]. intros H; inversion H; reflexivity.
      + destruct (firstn (N.to_nat (N.land fo 3 + 1)) (c0 :: crest)); [discriminate|].
        destruct (skipn (N.to_nat (N.land fo 3 + 1)) (c0 :: crest)); [discriminate|].
        destruct (N.ltb 2 (N.land (N.shiftr fo 4) 3)); [discriminate|]. intros H; inversion H; reflexivity.
    - destruct (negb (N.eqb (N.land fo 64) 0)).
      + intros H; inversion H. destruct (N.eqb (N.land fo 1) 0); reflexivity.
      + destruct chunk; discriminate.
  Qed.

  Lemma oid_good n T ts l s d s' ae sfun : (forall a, oid_wf a = true -> scalar_fits T (VOid a) = true) ->
    resume (dec_oid_v lf (Some T) ts l) s = inr (Ok d, s') -> good n (STy T) ae sfun d.
  Proof.
    intros Hf H. unfold dec_oid_v in H. destruct (negb (tag0_simple ts)); [dead H|].
    binv H. binv H. apply lift_inv in Ha0. apply (create_good n _ _ _ _ _ _ _ ae sfun (Hf _ (dec_oid_wf _ _ Ha0)) H).
  Qed.

  Lemma real_good n T ts l s d s' ae sfun : (forall a, real_wf a = true -> scalar_fits T (VReal a) = true) ->
    resume (dec_real_v lf (Some T) ts l) s = inr (Ok d, s') -> good n (STy T) ae sfun d.
  Proof.
    intros Hf H. unfold dec_real_v in H. destruct (negb (tag0_simple ts)); [dead H|].
    binv H. binv H. apply lift_inv in Ha0. apply (create_good n _ _ _ _ _ _ _ ae sfun (Hf _ (dec_real_wf _ _ Ha0)) H).
  Qed.

  Lemma collector_good n sp len s d s' ae :
    resume (collector lf len) s = inr (Ok d, s') -> good n sp ae true d.
  Proof.
    unfold collector. destruct len as [l|]; intros H; binv H; cbn [resume] in H; inversion H; subst; destruct sp; reflexivity.
  Qed.

  (* ---------------- strings ---------------- *)

  Lemma octets_loop_good n T proto ts len start ae sfun : (forall b, scalar_fits T (VOcts b) = true) ->
    forall k acc s d s',
    resume (octets_loop rec proto (Some T) ts len start k acc) s = inr (Ok d, s') -> good n (STy T) ae sfun d.
  Proof.
    intros Hf. induction k as [|k IH]; intros acc s d s' H; cbn [octets_loop] in H; [dead H|].
    binv H. destruct (N.ltb (N.of_nat (a - start)) len).
    - binv H. destruct a0 as [T0 v0| |b0| |]; try dead H.
      + destruct v0; try dead H. apply (IH _ _ _ _ H).
      + apply (IH _ _ _ _ H).
    - apply (create_good n _ _ _ _ _ _ _ ae sfun (Hf _) H).
  Qed.

  Lemma octets_indef_loop_good n T proto ts ae sfun : (forall b, scalar_fits T (VOcts b) = true) ->
    forall k acc s d s',
    resume (octets_indef_loop rec proto (Some T) ts k acc) s = inr (Ok d, s') -> good n (STy T) ae sfun d.
  Proof.
    intros Hf. induction k as [|k IH]; intros acc s d s' H; cbn [octets_indef_loop] in H; [dead H|].
    binv H. destruct a as [T0 v0| |b0| |]; try dead H.
    - destruct v0; try dead H. apply (IH _ _ _ _ H).
    - apply (create_good n _ _ _ _ _ _ _ ae sfun (Hf _) H).
    - apply (IH _ _ _ _ H).
  Qed.

  Lemma octets_good n T proto fl ts l sfun0 s d s' ae sfun : (forall b, scalar_fits T (VOcts b) = true) ->
    resume (dec_octets rec lf proto fl (Some T) ts l sfun0) s = inr (Ok d, s') -> good n (STy T) ae sfun d.
  Proof.
    intros Hf H. unfold dec_octets in H. destruct (tag0_simple ts).
    - binv H. apply (create_good n _ _ _ _ _ _ _ ae sfun (Hf _) H).
    - destruct (negb (df_constructed fl)); [dead H|]. binv H.
      apply (octets_loop_good n _ _ _ _ _ ae sfun Hf _ _ _ _ _ H).
  Qed.

  Lemma bits_loop_good n T ts len start ae sfun : (forall b, scalar_fits T (VBits b) = true) ->
    forall k acc s d s',
    resume (bits_loop rec (Some T) ts len start k acc) s = inr (Ok d, s') -> good n (STy T) ae sfun d.
  Proof.
    intros Hf. induction k as [|k IH]; intros acc s d s' H; cbn [bits_loop] in H; [dead H|].
    binv H. destruct (N.ltb (N.of_nat (a - start)) len).
    - binv H. binv H. apply (IH _ _ _ _ H).
    - apply (create_good n _ _ _ _ _ _ _ ae sfun (Hf _) H).
  Qed.

  Lemma bits_indef_loop_good n T ts ae sfun : (forall b, scalar_fits T (VBits b) = true) ->
    forall k acc s d s',
    resume (bits_indef_loop rec (Some T) ts k acc) s = inr (Ok d, s') -> good n (STy T) ae sfun d.
  Proof.
    intros Hf. induction k as [|k IH]; intros acc s d s' H; cbn [bits_indef_loop] in H; [dead H|].
    binv H. destruct a as [T0 v0| |b0| |].
    - binv H. apply (IH _ _ _ _ H).
    - apply (create_good n _ _ _ _ _ _ _ ae sfun (Hf _) H).
    - binv H. apply (IH _ _ _ _ H).
    - binv H. apply (IH _ _ _ _ H).
    - binv H. apply (IH _ _ _ _ H).
  Qed.

  Lemma bits_good n T fl ts l sfun s d s' ae : (forall b, scalar_fits T (VBits b) = true) ->
    resume (dec_bits rec lf fl (Some T) ts l sfun) s = inr (Ok d, s') -> good n (STy T) ae sfun d.
  Proof.
    intros Hf H. unfold dec_bits in H. destruct sfun.
    - apply (collector_good n _ _ _ _ _ ae H).
    - destruct (tag0_simple ts).
      + destruct (N.eqb l 0); [dead H|].
        binv H. destruct (N.ltb 7 a); [dead H|]. binv H. binv H.
        apply (create_good n _ _ _ _ _ _ _ ae false (Hf _) H).
      + destruct (negb (df_constructed fl)); [dead H|]. binv H.
        apply (bits_loop_good n _ _ _ _ ae false Hf _ _ _ _ _ H).
  Qed.

  Lemma bits_indef_good n T ts sfun s d s' ae : (forall b, scalar_fits T (VBits b) = true) ->
    resume (dec_bits_indef rec lf (Some T) ts sfun) s = inr (Ok d, s') -> good n (STy T) ae sfun d.
  Proof.
    intros Hf H. unfold dec_bits_indef in H. destruct sfun.
    - apply (collector_good n _ _ _ _ _ ae H).
    - apply (bits_indef_loop_good n _ _ ae false Hf _ _ _ _ _ H).
  Qed.

  (* ---------------- ANY ---------------- *)

  Lemma any_good n T ts l sfun s d s' ae : (forall b, scalar_fits T (VAny b) = true) ->
    resume (dec_any lf (Some T) ts l sfun) s = inr (Ok d, s') -> good n (STy T) ae sfun d.
  Proof.
    intros Hf H. unfold dec_any in H. cbv zeta in H. binv H. binv H. destruct sfun.
    - cbn [resume] in H. inversion H; subst. reflexivity.
    - apply (create_good n _ _ _ _ _ _ _ ae false (Hf _) H).
  Qed.

  Lemma any_indef_loop_good n T ts sfun tagged ae : (forall b, scalar_fits T (VAny b) = true) ->
    forall k acc s d s',
    resume (any_indef_loop rec (Some T) ts sfun tagged k acc) s = inr (Ok d, s') -> good n (STy T) ae sfun d.
  Proof.
    intros Hf. induction k as [|k IH]; intros acc s d s' H; cbn [any_indef_loop] in H; [dead H|].
    binv H. destruct a as [T0 v0| |b0| |]; try dead H.
    - destruct v0; try dead H. apply (IH _ _ _ _ H).
    - cbv zeta in H. destruct sfun.
      + cbn [resume] in H. inversion H; subst. reflexivity.
      + apply (create_good n _ _ _ _ _ _ _ ae false (Hf _) H).
    - apply (IH _ _ _ _ H).
  Qed.

  Lemma any_indef_good n T ts sfun s d s' ae : (forall b, scalar_fits T (VAny b) = true) ->
    resume (dec_any_indef rec lf (Some T) ts sfun) s = inr (Ok d, s') -> good n (STy T) ae sfun d.
  Proof.
    intros Hf H. unfold dec_any_indef in H. cbv zeta in H. binv H.
    apply (any_indef_loop_good n _ _ _ _ ae Hf _ _ _ _ _ H).
  Qed.
End Scalars.

(* ------------------------------------------------------------------------------------------ *)
(* SEQUENCE OF / SET OF                                                                       *)
(* ------------------------------------------------------------------------------------------ *)

Lemma forallb_snoc {A} (f: A -> bool) l x : forallb f (l ++ [x]) = forallb f l && f x.
Proof. rewrite forallb_app. cbn [forallb]. rewrite Bool.andb_true_r. reflexivity. Qed.

Lemma pre_none c ts : pre c ts None.
Proof. split; [left; reflexivity|discriminate]. Qed.

Section ListOf.
  Variable c : codec.
  Variable rec : spec -> tagset -> option (option N) -> bool -> bool -> proc dval.
  Variable lf : nat.
  Hypothesis Hrec : rec_good c lf rec.

  Lemma listof_loop_good m T t len start ae sfun : (base_of T = TSeqOf t \/ base_of T = TSetOf t) ->
    forall k acc s d s', (frag t = true -> forallb (val_of t) acc = true) ->
    resume (listof_loop rec T t len start k acc) s = inr (Ok d, s') -> good m (STy T) ae sfun d.
  Proof.
    intros HB. 
    assert (Hfin: forall acc, (frag t = true -> forallb (val_of t) acc = true) -> good m (STy T) ae sfun (DV T (VList acc))).
    { intros acc Hacc. cbn [good gd]. split; [reflexivity|]. split; [cbn [cdepth]; lia|].
      split; [|unfold str_ok; destruct HB as [HB|HB]; rewrite HB; exact I].
      intros HF. rewrite frag_base in HF. rewrite val_of_base.
      destruct HB as [HB|HB]; rewrite HB in *; cbn [frag] in HF; cbn [val_of]; apply (Hacc HF). }
    induction k as [|k IH]; intros acc s d s' Hacc H; cbn [listof_loop] in H; [dead H|].
    binv H. cbv zeta in H.
    destruct (negb match len with Some l => N.of_nat (a - start) <? l | None => true end).
    - cbn [resume] in H. inversion H; subst. apply Hfin. exact Hacc.
    - binv H. pose proof (Hrec _ _ _ _ _ _ _ _ (pre_none c []) Ha0) as Hg.
      destruct a0 as [Tc vc| |b| |]; try dead H.
      + cbn [good gd] in Hg. destruct Hg as [-> [_ [Hv _]]].
        apply (IH _ _ _ _ (fun HF => eq_trans (forallb_snoc _ _ _) (andb_true_intro (conj (Hacc HF) (Hv HF)))) H).
      + cbn [resume] in H. inversion H; subst. apply Hfin. exact Hacc.
      + cbn [good gd] in Hg. discriminate.
  Qed.

  Lemma listof_good m T t len ae sfun s d s' : (base_of T = TSeqOf t \/ base_of T = TSetOf t) ->
    resume (dec_listof rec lf T t len) s = inr (Ok d, s') -> good m (STy T) ae sfun d.
  Proof.
    intros HB H. unfold dec_listof in H. binv H.
    apply (listof_loop_good m _ _ _ _ ae sfun HB _ [] _ _ _ (fun _ => eq_refl) H).
  Qed.
End ListOf.

(* ------------------------------------------------------------------------------------------ *)
(* tag maps                                                                                   *)
(* ------------------------------------------------------------------------------------------ *)

Lemma cls_eqb_eq a b : cls_eqb a b = true -> a = b.
Proof. destruct a, b; cbn; intros H; try discriminate; reflexivity. Qed.

Lemma tag_eqb_refl a : tag_eqb a a = true.
Proof. unfold tag_eqb. rewrite N.eqb_refl. destruct (tcls a); reflexivity. Qed.
Lemma tag_eqb_sym a b : tag_eqb a b = tag_eqb b a.
Proof. unfold tag_eqb. rewrite (N.eqb_sym (tnum a)). destruct (tcls a), (tcls b); reflexivity. Qed.
Lemma tag_eqb_trans a b d : tag_eqb a b = true -> tag_eqb b d = true -> tag_eqb a d = true.
Proof.
  unfold tag_eqb. intros H1 H2. apply andb_prop in H1. apply andb_prop in H2. destruct H1 as [A1 B1]. destruct H2 as [A2 B2].
  apply cls_eqb_eq in A1. apply cls_eqb_eq in A2. apply N.eqb_eq in B1. apply N.eqb_eq in B2.
  rewrite A1, A2, B1, B2, N.eqb_refl. destruct (tcls d); reflexivity.
Qed.

Lemma tseq_refl : forall a, tagset_eqb a a = true.
Proof. induction a as [|x a IH]; [reflexivity|]. unfold tagset_eqb in *. cbn [list_eqb]. rewrite tag_eqb_refl, IH. reflexivity. Qed.
Lemma tseq_sym : forall a b, tagset_eqb a b = tagset_eqb b a.
Proof.
  induction a as [|x a IH]; intros [|y b]; try reflexivity. unfold tagset_eqb in *. cbn [list_eqb].
  rewrite tag_eqb_sym, IH. reflexivity.
Qed.
Lemma tseq_trans : forall a b d, tagset_eqb a b = true -> tagset_eqb b d = true -> tagset_eqb a d = true.
Proof.
  induction a as [|x a IH]; intros [|y b] [|z d] H1 H2; try discriminate; try reflexivity.
  unfold tagset_eqb in *. cbn [list_eqb] in *. apply andb_prop in H1. apply andb_prop in H2.
  destruct H1 as [A1 B1]. destruct H2 as [A2 B2]. rewrite (tag_eqb_trans _ _ _ A1 A2), (IH _ _ B1 B2). reflexivity.
Qed.
Lemma tseq_false_l a b d : tagset_eqb a b = true -> tagset_eqb a d = false -> tagset_eqb b d = false.
Proof.
  intros H1 H2. destruct (tagset_eqb b d) eqn:E; [|reflexivity]. rewrite (tseq_trans _ _ _ H1 E) in H2. discriminate.
Qed.

Section Assoc.
  Context {B: Type}.
  Definition hask (k: tagset) (l: list (tagset * B)) : bool :=
    match assoc tagset_eqb k l with Some _ => true | None => false end.

  Lemma assoc_app k (a b: list (tagset * B)) :
    assoc tagset_eqb k (a ++ b) = match assoc tagset_eqb k a with Some x => Some x | None => assoc tagset_eqb k b end.
  Proof. induction a as [|[k0 v0] a IH]; [reflexivity|]. cbn [app assoc]. destruct (tagset_eqb k k0); [reflexivity|exact IH]. Qed.

  Lemma assoc_compat k k' (l: list (tagset * B)) : tagset_eqb k k' = true -> assoc tagset_eqb k l = assoc tagset_eqb k' l.
  Proof.
    intros E. induction l as [|[k0 v0] l IH]; [reflexivity|]. cbn [assoc]. rewrite IH.
    destruct (tagset_eqb k k0) eqn:E1.
    - rewrite tseq_sym in E. rewrite (tseq_trans _ _ _ E E1). reflexivity.
    - rewrite (tseq_false_l _ _ _ E E1). reflexivity.
  Qed.

  Lemma hask_app k (a b: list (tagset * B)) : hask k (a ++ b) = hask k a || hask k b.
  Proof. unfold hask. rewrite assoc_app. destruct (assoc tagset_eqb k a); reflexivity. Qed.

  Lemma hask_compat k k' (l: list (tagset * B)) : tagset_eqb k k' = true -> hask k l = hask k' l.
  Proof. intros E. unfold hask. rewrite (assoc_compat _ _ _ E). reflexivity. Qed.

  Lemma assoc_In k (l: list (tagset * B)) v : assoc tagset_eqb k l = Some v -> exists k', In (k', v) l.
  Proof.
    induction l as [|[k0 v0] l IH]; cbn [assoc]; [discriminate|]. destruct (tagset_eqb k k0).
    - intros H. inversion H; subst. exists k0. left. reflexivity.
    - intros H. destruct (IH H) as [k' Hk]. exists k'. right. exact Hk.
  Qed.

  (* removing entries whose key is not k does not change the lookup of k *)
  Lemma assoc_filter k k1 (l: list (tagset * B)) : tagset_eqb k k1 = false ->
    assoc tagset_eqb k (filter (fun e => negb (tagset_eqb (fst e) k1)) l) = assoc tagset_eqb k l.
  Proof.
    intros E. induction l as [|[k0 v0] l IH]; [reflexivity|]. cbn [filter fst].
    destruct (tagset_eqb k0 k1) eqn:E0; cbn [negb].
    - cbn [assoc]. destruct (tagset_eqb k k0) eqn:E2; [|exact IH].
      rewrite (tseq_trans _ _ _ E2 E0) in E. discriminate.
    - cbn [assoc]. rewrite IH. reflexivity.
  Qed.

  Lemma hask_existsb k (l: list (tagset * B)) : hask k l = existsb (fun e => tagset_eqb k (fst e)) l.
  Proof.
    unfold hask. induction l as [|[k0 v0] l IH]; [reflexivity|]. cbn [assoc existsb fst].
    destruct (tagset_eqb k k0); [reflexivity|exact IH].
  Qed.
End Assoc.

(* one entry of a member's map entered into the combined map *)
Definition enter (T: ty) (p: list (tagset * ty)) (kt: tagset * ty) : list (tagset * ty) :=
  filter (fun e => negb (tagset_eqb (fst e) (fst kt))) p ++ [(fst kt, T)].

Lemma enter_hask k T p kt : hask k (enter T p kt) = hask k p || tagset_eqb k (fst kt).
Proof.
  unfold enter. rewrite hask_app. unfold hask at 2. cbn [assoc].
  destruct (tagset_eqb k (fst kt)) eqn:E.
  - rewrite !Bool.orb_true_r. reflexivity.
  - rewrite !Bool.orb_false_r. unfold hask. rewrite (assoc_filter _ _ _ E). reflexivity.
Qed.

Lemma enter_In T p kt k' T' : In (k', T') (enter T p kt) -> In (k', T') p \/ T' = T.
Proof.
  unfold enter. intros H. apply in_app_or in H. destruct H as [H|H].
  - apply filter_In in H. left. apply H.
  - destruct H as [H|[]]. inversion H; subst. right. reflexivity.
Qed.

Lemma enter_fold_hask k T : forall l p, hask k (fold_left (enter T) l p) = hask k p || hask k l.
Proof.
  induction l as [|kt l IH]; intros p; cbn [fold_left].
  - unfold hask at 3. cbn [assoc]. rewrite Bool.orb_false_r. reflexivity.
  - rewrite IH, enter_hask. rewrite (hask_existsb k (kt :: l)). cbn [existsb]. rewrite <- hask_existsb.
    rewrite Bool.orb_assoc. reflexivity.
Qed.

Lemma enter_fold_In T k' T' : forall l p, In (k', T') (fold_left (enter T) l p) -> In (k', T') p \/ T' = T.
Proof.
  induction l as [|kt l IH]; intros p H; cbn [fold_left] in H; [left; exact H|].
  destruct (IH _ H) as [H1|H1]; [|right; exact H1]. apply (enter_In _ _ _ _ _ H1).
Qed.

Lemma combine_maps_step u m T r acc :
  combine_maps u ((m, T) :: r) acc =
  combine_maps u r
    (mkTmap (fold_left (enter T) (tm_present m) (tm_present acc)) (tm_skip acc ++ tm_skip m)
            (match tm_default acc with Some d => Some d | None => tm_default m end)
            (tm_postponed acc || tm_postponed m
             || (u && existsb (fun kt => match tm_find (fst kt) (tm_present acc) with Some _ => true | None => false end) (tm_present m))
             || match tm_default acc, tm_default m with Some _, Some _ => true | _, _ => false end)).
Proof. reflexivity. Qed.

Lemma combine_hask k u : forall l acc,
  hask k (tm_present (combine_maps u l acc)) = hask k (tm_present acc) || existsb (fun mt => hask k (tm_present (fst mt))) l.
Proof.
  induction l as [|[m T] l IH]; intros acc.
  - cbn [combine_maps existsb]. rewrite Bool.orb_false_r. reflexivity.
  - rewrite combine_maps_step, IH. cbn [tm_present existsb fst]. rewrite enter_fold_hask, Bool.orb_assoc. reflexivity.
Qed.

Lemma combine_In k T u : forall l acc,
  In (k, T) (tm_present (combine_maps u l acc)) -> In (k, T) (tm_present acc) \/ In T (map snd l).
Proof.
  induction l as [|[m T0] l IH]; intros acc H.
  - left. exact H.
  - rewrite combine_maps_step in H. destruct (IH _ H) as [H1|H1].
    + cbn [tm_present] in H1. destruct (enter_fold_In _ _ _ _ _ H1) as [H2|H2]; [left; exact H2|].
      right. left. cbn [snd]. symmetry. exact H2.
    + right. right. exact H1.
Qed.

Lemma combine_default d u : forall l acc,
  tm_default (combine_maps u l acc) = Some d ->
  tm_default acc = Some d \/ exists mt, In mt l /\ tm_default (fst mt) = Some d.
Proof.
  induction l as [|[m T0] l IH]; intros acc H.
  - left. exact H.
  - rewrite combine_maps_step in H. destruct (IH _ H) as [H1|(mt & Hin & Hd)].
    + cbn [tm_default] in H1. destruct (tm_default acc) as [d0|].
      * left. exact H1.
      * right. exists (m, T0). split; [left; reflexivity|exact H1].
    + right. exists mt. split; [right; exact Hin|exact Hd].
Qed.

Lemma tagmap_choice alts : tagmap_of (TChoice alts) = fields_tagmap true alts.
Proof.
  reflexivity.
Qed.

(* whatever a map built from member types hands out is one of the members *)
Lemma fields_tagmap_member u L T :
  forallb map_member_ok L = true -> in_tmap (fields_tagmap u L) T -> In T L.
Proof.
  intros Hok [[k Hin]|Hd]; unfold fields_tagmap in *.
  - apply combine_In in Hin. destruct Hin as [[]|Hin]. rewrite map_map in Hin. cbn [snd] in Hin. rewrite map_id in Hin. exact Hin.
  - apply combine_default in Hd. destruct Hd as [Hd|(mt & Hin & Hd)]; [discriminate|].
    apply in_map_iff in Hin. destruct Hin as (T0 & <- & Hin). cbn [fst] in Hd.
    rewrite forallb_forall in Hok. specialize (Hok _ Hin).
    destruct T0; cbn [tagmap_of tm_default] in Hd; try discriminate.
    + unfold map_member_ok in Hok. cbn [tagmap_of] in Hok. rewrite Hd in Hok. discriminate.
    + inversion Hd; subst. exact Hin.
Qed.

(* a well-formed CHOICE value names one of the alternatives and holds a value of it *)
Lemma choice_go_inv (x: val) : forall alts i,
  val_of (TChoice alts) (VChoice i x) = true ->
  exists a, nth_error alts i = Some a /\ val_of a x = true.
Proof.
  cbn [val_of]. induction alts as [|a r IH]; intros [|i] H; try discriminate.
  - exists a. split; [reflexivity|exact H].
  - apply (IH i H).
Qed.

Lemma choice_go_intro (x: val) a : forall alts i, nth_error alts i = Some a -> val_of a x = true ->
  val_of (TChoice alts) (VChoice i x) = true.
Proof.
  cbn [val_of]. induction alts as [|a0 r IH]; intros [|i] Hn Hv; try discriminate.
  - cbn [nth_error] in Hn. inversion Hn; subst. exact Hv.
  - apply (IH i Hn Hv).
Qed.

Lemma nth_error_nth {A} (l: list A) i a d : nth_error l i = Some a -> nth i l d = a.
Proof. revert i. induction l as [|x l IH]; intros [|i] H; try discriminate; cbn in *; [inversion H; reflexivity|apply IH; exact H]. Qed.

(* the effective tag set of a well-formed value is one of the keys of its type's tag map *)
Lemma ets_key : forall fuel T v, (cdepth v < fuel)%nat -> val_of T v = true ->
  hask (effective_tagset fuel T v) (tm_present (tagmap_of T)) = true.
Proof.
  induction fuel as [|f IH]; intros T v Hd Hv; [lia|].
  assert (Hplain: forall T', tagmap_of T' = mkTmap [(tagset_of' T', T')] [] None false ->
                             hask (tagset_of' T') (tm_present (tagmap_of T')) = true).
  { intros T' ->. cbn [tm_present]. unfold hask. cbn [assoc]. rewrite tseq_refl. reflexivity. }
  destruct T; try (cbn [effective_tagset]; apply Hplain; reflexivity).
  - (* CHOICE *)
    destruct v; try discriminate Hv. cbn [effective_tagset].
    apply choice_go_inv in Hv. destruct Hv as (a & Hn & Hv).
    rewrite (nth_error_nth _ _ _ TNull Hn).
    cbn [cdepth] in Hd. assert (Hd': (cdepth v < f)%nat) by lia.
    pose proof (IH a v Hd' Hv) as Hk.
    rewrite tagmap_choice. unfold fields_tagmap. rewrite combine_hask.
    cbn [tm_present empty_tmap]. unfold hask at 1. cbn [assoc orb].
    apply existsb_exists. exists (tagmap_of a, a). split; [|exact Hk].
    apply in_map_iff. exists a. split; [reflexivity|]. apply (nth_error_In _ _ Hn).
  - (* ANY *)
    destruct v; reflexivity.
Qed.

Lemma ttp_mono ets : forall fs i acc m k, tag_to_pos fs i acc = Some m ->
  assoc tagset_eqb ets acc = Some k -> assoc tagset_eqb ets m = Some k.
Proof.
  induction fs as [|T0 r IH]; intros i acc m k H Ha; cbn [tag_to_pos] in H.
  - inversion H; subst. exact Ha.
  - cbv zeta in H. destruct (tm_postponed (tagmap_of T0)); [discriminate|].
    match type of H with (if ?b then _ else _) = _ => destruct b; [discriminate|] end.
    apply (IH _ _ _ _ H). rewrite assoc_app, Ha. reflexivity.
Qed.

Lemma assoc_keys_const ets (i: nat) : forall keys, existsb (tagset_eqb ets) keys = true ->
  assoc tagset_eqb ets (map (fun k => (k, i)) keys) = Some i.
Proof.
  induction keys as [|k0 r IH]; cbn [existsb map assoc]; [discriminate|].
  destruct (tagset_eqb ets k0); [reflexivity|]. cbn [orb]. exact IH.
Qed.

Lemma ttp_pos ets : forall fs i acc m, tag_to_pos fs i acc = Some m ->
  forall j T, nth_error fs j = Some T -> hask ets (tm_present (tagmap_of T)) = true ->
  assoc tagset_eqb ets acc = None /\ assoc tagset_eqb ets m = Some (i + j)%nat.
Proof.
  induction fs as [|T0 r IH]; intros i acc m H j T Hn Hk; [destruct j; discriminate|].
  cbn [tag_to_pos] in H. cbv zeta in H. destruct (tm_postponed (tagmap_of T0)); [discriminate|].
  match type of H with (if ?b then _ else _) = _ => destruct b eqn:Edup; [discriminate|] end.
  destruct j as [|j].
  - cbn [nth_error] in Hn. inversion Hn; subst T0. clear Hn.
    rewrite hask_existsb in Hk. apply existsb_exists in Hk. destruct Hk as ([k0 T1] & Hin & Heq). cbn [fst] in Heq.
    assert (Hk0: In k0 (map fst (tm_present (tagmap_of T)))) by (apply in_map_iff; exists (k0, T1); auto).
    assert (Hacc: assoc tagset_eqb ets acc = None).
    { rewrite (assoc_compat _ _ _ Heq).
      destruct (assoc tagset_eqb k0 acc) eqn:E; [|reflexivity].
      assert (Hx: existsb (fun k => match assoc tagset_eqb k acc with Some _ => true | None => false end)
                          (map fst (tm_present (tagmap_of T))) = true).
      { apply existsb_exists. exists k0. split; [exact Hk0|]. rewrite E. reflexivity. }
      rewrite Hx in Edup. discriminate. }
    split; [exact Hacc|]. rewrite Nat.add_0_r. apply (ttp_mono _ _ _ _ _ _ H).
    rewrite assoc_app, Hacc. apply assoc_keys_const. apply existsb_exists. exists k0. auto.
  - cbn [nth_error] in Hn. destruct (IH _ _ _ H _ _ Hn Hk) as [Hacc' Hm].
    rewrite assoc_app in Hacc'. split.
    + destruct (assoc tagset_eqb ets acc); [discriminate|reflexivity].
    + rewrite Hm. f_equal. lia.
Qed.

(* where a decoded member is put: at the member whose type it was decoded with *)
Lemma place_sound lf u L Tc vc k :
  forallb frag L = true -> forallb map_member_ok L = true ->
  in_tmap (fields_tagmap u L) Tc -> (cdepth vc <= lf)%nat -> (frag Tc = true -> val_of Tc vc = true) ->
  position_by_type L (effective_tagset (S lf) Tc vc) = Ok k -> nth_error L k = Some Tc /\ val_of Tc vc = true.
Proof.
  intros Hfr Hok Hin Hd Hv Hp.
  pose proof (fields_tagmap_member _ _ _ Hok Hin) as HIn.
  rewrite forallb_forall in Hfr. specialize (Hv (Hfr _ HIn)).
  destruct (In_nth_error _ _ HIn) as [j Hj].
  assert (Hk: hask (effective_tagset (S lf) Tc vc) (tm_present (tagmap_of Tc)) = true) by (apply ets_key; [lia|exact Hv]).
  unfold position_by_type in Hp. destruct (tag_to_pos L 0 []) as [m|] eqn:Em; [|discriminate].
  destruct (ttp_pos _ _ _ _ _ Em _ _ Hj Hk) as [_ Hm]. rewrite Hm in Hp. inversion Hp; subst. cbn [Nat.add]. auto.
Qed.

(* ------------------------------------------------------------------------------------------ *)
(* SEQUENCE / SET                                                                             *)
(* ------------------------------------------------------------------------------------------ *)

(* the component slots while the loop runs: one per declared member, filled ones well-formed *)
Definition slots_ok (P: ty -> val -> bool) : list (presence * ty) -> list (option val) -> bool :=
  fix go (fs: list (presence * ty)) (vs: list (option val)) : bool :=
    match fs, vs with
    | [], [] => true
    | (p, t) :: fs', ov :: vs' => (match ov with Some x => P t x | None => true end) && go fs' vs'
    | _, _ => false
    end.

Lemma slots_init P : forall fs, slots_ok P fs (map (fun _ => None) fs) = true.
Proof. induction fs as [|[p t] fs IH]; [reflexivity|]. cbn [map slots_ok andb]. exact IH. Qed.

Lemma slots_set P : forall fs vs i p t x, slots_ok P fs vs = true -> nth_error fs i = Some (p, t) -> P t x = true ->
  slots_ok P fs (set_nth i (Some x) vs) = true.
Proof.
  induction fs as [|[p0 t0] fs IH]; intros vs i p t x Hs Hn Hx; [destruct i; discriminate|].
  destruct vs as [|ov vs]; [discriminate|]. cbn [slots_ok] in Hs. apply andb_prop in Hs. destruct Hs as [H1 H2].
  destruct i as [|i]; cbn [nth_error] in Hn; cbn [set_nth slots_ok].
  - inversion Hn; subst. rewrite Hx, H2. reflexivity.
  - rewrite H1, (IH _ _ _ _ _ H2 Hn Hx). reflexivity.
Qed.

Lemma slots_finish P : forall fs vs, slots_ok P fs vs = true -> required_seen fs vs = true -> fields_ok P fs vs = true.
Proof.
  unfold required_seen.
  induction fs as [|[p t] fs IH]; intros [|ov vs] Hs Hr; try discriminate; [reflexivity|].
  cbn [slots_ok] in Hs. apply andb_prop in Hs. destruct Hs as [H1 H2].
  cbn [combine forallb fst snd] in Hr. apply andb_prop in Hr. destruct Hr as [R1 R2].
  cbn [fields_ok]. rewrite (IH _ H2 R2), Bool.andb_true_r.
  destruct ov; [exact H1|]. destruct p; [discriminate| |]; reflexivity.
Qed.

Lemma ambiguous_run_prefix : forall fs k t, nth_error (ambiguous_run fs) k = Some t ->
  exists p, nth_error fs k = Some (p, t).
Proof.
  induction fs as [|[p0 t0] fs IH]; intros k t H; [destruct k; discriminate|].
  destruct p0.
  - cbn [ambiguous_run] in H. destruct k as [|k]; [|destruct k; discriminate]. inversion H; subst. exists Req. reflexivity.
  - cbn [ambiguous_run] in H. destruct k as [|k]; [inversion H; subst; exists Opt; reflexivity|]. apply (IH _ _ H).
  - cbn [ambiguous_run] in H. destruct k as [|k]; [inversion H; subst; exists (Def d); reflexivity|]. apply (IH _ _ H).
Qed.

Lemma nth_error_skipn {A} : forall i (l: list A) k, nth_error (skipn i l) k = nth_error l (i + k).
Proof. induction i as [|i IH]; intros [|x l] k; try reflexivity; [destruct k; reflexivity|apply IH]. Qed.

Lemma forallb_skipn {A} (f: A -> bool) : forall i l, forallb f l = true -> forallb f (skipn i l) = true.
Proof. induction i as [|i IH]; intros [|x l] H; try assumption. cbn in H. apply andb_prop in H. apply IH, H. Qed.

Lemma ambiguous_run_forall (f: ty -> bool) : forall fs, forallb (fun x => f (snd x)) fs = true -> forallb f (ambiguous_run fs) = true.
Proof.
  induction fs as [|[p0 t0] fs IH]; intros H; [reflexivity|]. cbn [forallb snd] in H. apply andb_prop in H. destruct H as [H1 H2].
  destruct p0; cbn [ambiguous_run forallb]; rewrite H1; [reflexivity| |]; apply (IH H2).
Qed.

Lemma forallb_map' {A B} (f: B -> bool) (g: A -> B) : forall l, forallb f (map g l) = forallb (fun x => f (g x)) l.
Proof. induction l as [|x l IH]; [reflexivity|]. cbn [map forallb]. rewrite IH. reflexivity. Qed.

Section Record.
  Variable c : codec.
  Variable rec : spec -> tagset -> option (option N) -> bool -> bool -> proc dval.
  Variable lf : nat.
  Hypothesis Hrec : rec_good c lf rec.

  Lemma finish_good m T fs (is_set: bool) vs ae sfun s d s' :
    base_of T = (if is_set then TSet fs else TSeq fs) ->
    (frag T = true -> slots_ok val_of fs vs = true) ->
    resume (if match fs with [] => true | _ => false end then Ret (DV T (VRec []))
            else if required_seen fs vs then Ret (DV T (VRec vs)) else Raise EMalformed) s = inr (Ok d, s') ->
    good m (STy T) ae sfun d.
  Proof.
    intros HB Hs H.
    assert (Hv: forall vs', (frag T = true -> fields_ok val_of fs vs' = true) -> good m (STy T) ae sfun (DV T (VRec vs'))).
    { intros vs' Hf. cbn [good gd]. split; [reflexivity|]. split; [cbn [cdepth]; lia|].
      split; [|unfold str_ok; rewrite HB; destruct is_set; exact I]. intros HF.
      rewrite val_of_base, HB. destruct is_set; [rewrite val_of_set|rewrite val_of_seq]; apply (Hf HF). }
    destruct fs as [|f fs'].
    - cbn [resume] in H. inversion H; subst. apply Hv. reflexivity.
    - destruct (required_seen (f :: fs') vs) eqn:E; [|dead H]. cbn [resume] in H. inversion H; subst.
      apply Hv. intros HF. apply slots_finish; [apply (Hs HF)|exact E].
  Qed.

  (* the member a decoded component is stored at is the member it was decoded as *)
  Lemma component_placed fs (is_set: bool) idx sp' ae' Tc vc i :
    forallb (fun f => frag (snd f)) fs = true ->
    (is_set || negb (all_req fs) = true -> forallb (fun f => map_member_ok (snd f)) fs = true) ->
    (if is_set then Some (SMap (fields_tagmap true (map snd fs)))
     else seq_component_spec fs (negb is_set && forallb (fun f => is_req (fst f)) fs) idx) = Some sp' ->
    good lf sp' ae' false (DV Tc vc) ->
    seq_position lf fs is_set (negb is_set && forallb (fun f => is_req (fst f)) fs) idx Tc vc = Ok i ->
    exists p t, nth_error fs i = Some (p, t) /\ val_of t vc = true.
  Proof.
    intros Hfr Hmap Hsp Hg Hpos. unfold seq_position in Hpos.
    destruct is_set; cbn [negb andb orb] in *.
    - (* SET *)
      inversion Hsp; subst sp'. cbn [good gd] in Hg. destruct Hg as [Hin [Hd [Hv _]]].
      assert (HfrL: forallb frag (map snd fs) = true) by (rewrite forallb_map'; exact Hfr).
      assert (HmapL: forallb map_member_ok (map snd fs) = true) by (rewrite forallb_map'; apply Hmap; reflexivity).
      destruct (place_sound _ _ _ _ _ _ HfrL HmapL Hin Hd Hv Hpos) as [Hn Hvo].
      rewrite nth_error_map in Hn. destruct (nth_error fs i) as [[p t]|] eqn:En; [|discriminate].
      cbn [option_map snd] in Hn. inversion Hn; subst. exists p, Tc. auto.
    - (* SEQUENCE *)
      unfold seq_component_spec in Hsp. fold (all_req fs) in *.
      destruct (nth_error fs idx) as [[p t]|] eqn:En; [|discriminate].
      destruct (all_req fs) eqn:Eall; cbn [orb negb] in *.
      + inversion Hsp; subst sp'. inversion Hpos; subst i. cbn [good gd] in Hg. destruct Hg as [-> [_ [Hv _]]].
        exists p, t. split; [exact En|]. apply Hv.
        rewrite forallb_forall in Hfr. apply (Hfr (p, t)). apply (nth_error_In _ _ En).
      + destruct (is_req p) eqn:Ep.
        * inversion Hsp; subst sp'. inversion Hpos; subst i. cbn [good gd] in Hg. destruct Hg as [-> [_ [Hv _]]].
          exists p, t. split; [exact En|]. apply Hv.
          rewrite forallb_forall in Hfr. apply (Hfr (p, t)). apply (nth_error_In _ _ En).
        * inversion Hsp; subst sp'. cbn [good gd] in Hg. destruct Hg as [Hin [Hd [Hv _]]].
          destruct (position_by_type (ambiguous_run (skipn idx fs)) (effective_tagset (S lf) Tc vc)) as [k|] eqn:Ek; [|discriminate].
          cbn [bind] in Hpos. inversion Hpos; subst i.
          assert (HfrL: forallb frag (ambiguous_run (skipn idx fs)) = true) by (apply ambiguous_run_forall, forallb_skipn, Hfr).
          assert (HmapL: forallb map_member_ok (ambiguous_run (skipn idx fs)) = true)
            by (apply ambiguous_run_forall, forallb_skipn, Hmap; reflexivity).
          destruct (place_sound _ _ _ _ _ _ HfrL HmapL Hin Hd Hv Ek) as [Hn Hvo].
          apply ambiguous_run_prefix in Hn. destruct Hn as [p' Hn]. rewrite nth_error_skipn in Hn.
          exists p', Tc. auto.
  Qed.

  Lemma frag_record T fs (is_set: bool) : base_of T = (if is_set then TSet fs else TSeq fs) -> frag T = true ->
    forallb (fun f => frag (snd f)) fs = true
    /\ (is_set || negb (all_req fs) = true -> forallb (fun f => map_member_ok (snd f)) fs = true).
  Proof.
    intros HB HF. rewrite frag_base, HB in HF. destruct is_set; cbn [frag] in HF; apply andb_prop in HF; destruct HF as [H1 H2].
    - split; [exact H1|intros _; exact H2].
    - split; [exact H1|]. cbn [orb]. intros Hn. destruct (all_req fs); [discriminate|exact H2].
  Qed.

  Lemma record_loop_good m T fs (is_set: bool) len start ae sfun :
    base_of T = (if is_set then TSet fs else TSeq fs) ->
    forall k idx vs extra s d s',
    (frag T = true -> slots_ok val_of fs vs = true) ->
    resume (record_loop rec lf T fs is_set len start k idx vs extra) s = inr (Ok d, s') -> good m (STy T) ae sfun d.
  Proof.
    intros HB. induction k as [|k IH]; intros idx vs extra s d s' Hs H; cbn [record_loop] in H; [dead H|].
    cbv zeta in H. binv H.
    destruct (negb match len with Some l => N.of_nat (a - start) <? l | None => true end).
    { apply (finish_good m _ _ _ _ ae sfun _ _ _ HB Hs H). }
    destruct fs as [|f fs'].
    { (* no members *)
      destruct len; binv H; (destruct a0; try dead H; apply (finish_good m _ _ _ _ ae sfun _ _ _ HB Hs H)). }
    destruct (negb is_set && Nat.leb (length (f :: fs')) idx) eqn:Eex.
    { (* past the last member of a SEQUENCE *)
      assert (Hnth: nth_error (f :: fs') idx = None).
      { apply nth_error_None. apply andb_prop in Eex. destruct Eex as [_ E]. apply Nat.leb_le in E. exact E. }
      assert (His: is_set = false) by (destruct is_set; [discriminate|reflexivity]). subst is_set.
      cbn [negb andb] in H. unfold seq_component_spec in H. rewrite Hnth in H.
      destruct len; [dead H|]. binv H.
      destruct a0; try dead H.
      - apply (finish_good m T (f :: fs') false vs ae sfun _ _ _ HB Hs H).
      - destruct (forallb (fun f0 => is_req (fst f0)) (f :: fs')); cbn [orb] in H; dead H. }
    (* a declared member *)
    match type of H with resume (match ?e with _ => _ end) _ = _ =>
      assert (Hsp: e = (if is_set then Some (SMap (fields_tagmap true (map snd (f :: fs'))))
                        else seq_component_spec (f :: fs') (negb is_set && forallb (fun f => is_req (fst f)) (f :: fs')) idx))
    end.
    { destruct len; reflexivity. }
    rewrite Hsp in H. clear Hsp.
    match type of H with resume (match ?e with _ => _ end) _ = _ => destruct e as [sp'|] eqn:Esp; [|dead H] end.
    binv H. pose proof (Hrec _ _ _ _ _ _ _ _ (pre_none c []) Ha0) as Hg.
    destruct a0 as [Tc vc| |b| |]; try dead H.
    - binv H. apply lift_inv in Ha1.
      destruct (Nat.leb (length (f :: fs')) a0) eqn:Ele; [dead H|].
      refine (IH _ _ _ _ _ _ _ H). intros HF.
      destruct (frag_record _ _ _ HB HF) as [Hfr Hmap].
      destruct (component_placed _ _ _ _ _ _ _ _ Hfr Hmap Esp Hg Ha1) as (p & t & Hn & Hv).
      apply (slots_set _ _ _ _ _ _ _ (Hs HF) Hn Hv).
    - apply (finish_good m _ _ _ _ ae sfun _ _ _ HB Hs H).
    - assert (Hk: (exists t, sp' = STy t) \/ (exists mp, sp' = SMap mp)).
      { clear - Esp. destruct is_set; [inversion Esp; eauto|]. unfold seq_component_spec in Esp.
        destruct (nth_error (f :: fs') idx) as [[p t]|]; [|discriminate].
        match type of Esp with (if ?b then _ else _) = _ => destruct b end; inversion Esp; eauto. }
      destruct Hk as [[t ->]|[mp ->]]; cbn [good gd] in Hg; discriminate.
  Qed.

  Lemma record_good m T fs (is_set: bool) len ae sfun s d s' :
    base_of T = (if is_set then TSet fs else TSeq fs) ->
    resume (dec_record rec lf T fs is_set len) s = inr (Ok d, s') -> good m (STy T) ae sfun d.
  Proof.
    intros HB H. unfold dec_record in H. cbv zeta in H. binv H.
    apply (record_loop_good m _ _ _ _ _ ae sfun HB _ _ _ _ _ _ _ (fun _ => slots_init _ _) H).
  Qed.
End Record.

(* ------------------------------------------------------------------------------------------ *)
(* CHOICE                                                                                     *)
(* ------------------------------------------------------------------------------------------ *)

Section Choice.
  Variable c : codec.
  Variable rec : spec -> tagset -> option (option N) -> bool -> bool -> proc dval.
  Variable lf : nat.
  Hypothesis Hrec : rec_good c lf rec.

  Lemma choice_place_good T alts ae' d0 ae sfun s d s' :
    base_of T = TChoice alts ->
    good lf (SMap (fields_tagmap true alts)) ae' false d0 ->
    resume (choice_place lf T alts d0) s = inr (Ok d, s') -> good (S lf) (STy T) ae sfun d.
  Proof.
    intros HB Hg H. unfold choice_place in H. destruct d0 as [Tc vc| |b| |]; try dead H.
    binv H. apply lift_inv in Ha. cbn [resume] in H. inversion H; subst. clear H.
    cbn [good gd] in Hg. destruct Hg as [Hin [Hd [Hv _]]].
    cbn [good gd]. split; [reflexivity|]. split; [cbn [cdepth]; lia|]. split; [|unfold str_ok; rewrite HB; exact I].
    intros HF. rewrite frag_base, HB in HF. cbn [frag] in HF. apply andb_prop in HF. destruct HF as [Hfr Hmap].
    destruct (place_sound _ _ _ _ _ _ Hfr Hmap Hin Hd Hv Ha) as [Hn Hvo].
    rewrite val_of_base, HB. apply (choice_go_intro _ _ _ _ Hn Hvo).
  Qed.

  Lemma choice_loop_good T alts ts (tagged: bool) ae sfun :
    base_of T = TChoice alts -> ts <> [] -> support_indef c = true ->
    forall k cur s d s',
    (match cur with None => True | Some x => good (S lf) (STy T) ae sfun x end) ->
    resume (choice_loop rec lf T alts ts tagged k cur) s = inr (Ok d, s') -> good (S lf) (STy T) ae sfun d.
  Proof.
    intros HB Hts Hind. induction k as [|k IH]; intros cur s d s' Hcur H; cbn [choice_loop] in H; [dead H|].
    cbv zeta in H. binv H.
    assert (Hg: good lf (SMap (fields_tagmap true alts)) tagged false a).
    { destruct tagged.
      - apply (Hrec _ _ _ _ _ _ _ _ (pre_none c []) Ha).
      - refine (Hrec _ _ _ _ _ _ _ _ _ Ha). split; [right; exact Hts|intros _; exact Hind]. }
    destruct a as [Tc vc| |b| |].
    - binv H. pose proof (choice_place_good _ _ _ _ ae sfun _ _ _ HB Hg Ha0) as Hx.
      destruct tagged; [apply (IH (Some _) _ _ _ Hx H)|]. cbn [resume] in H. inversion H; subst. exact Hx.
    - destruct cur as [x|]; [|dead H]. cbn [resume] in H. inversion H; subst. exact Hcur.
    - cbn [good gd] in Hg. discriminate.
    - cbn [good gd] in Hg. contradiction.
    - cbn [good gd] in Hg. contradiction.
  Qed.

  Lemma choice_good T alts ts len ae sfun s d s' :
    base_of T = TChoice alts -> ts <> [] -> (len = None -> support_indef c = true) ->
    resume (dec_choice rec lf T alts ts len) s = inr (Ok d, s') -> good (S lf) (STy T) ae sfun d.
  Proof.
    intros HB Hts Hind H. unfold dec_choice in H. cbv zeta in H. destruct len as [l|].
    - binv H.
      assert (Hg: good lf (SMap (fields_tagmap true alts)) false false a).
      { destruct (tagset_eqb (tagset_of' T) ts).
        - apply (Hrec _ _ _ _ _ _ _ _ (pre_none c []) Ha).
        - refine (Hrec _ _ _ _ _ _ _ _ _ Ha). split; [right; exact Hts|discriminate]. }
      apply (choice_place_good _ _ _ _ ae sfun _ _ _ HB Hg H).
    - apply (choice_loop_good _ _ _ _ ae sfun HB Hts (Hind eq_refl) _ None _ _ _ I H).
  Qed.
End Choice.

(* ------------------------------------------------------------------------------------------ *)
(* explicit tags, the value decoders together, the dispatcher, the recursive entry point      *)
(* ------------------------------------------------------------------------------------------ *)

Lemma base_of_not_wrapped : forall T, is_wrapped (base_of T) = false.
Proof. induction T using ty_ind'; cbn [base_of is_wrapped]; auto. Qed.

Lemma resume_seekback {A} d (k: proc A) s : resume (SeekBack d k) s = resume k (setpos s (pos s - d)).
Proof. reflexivity. Qed.

Section Call.
  Variable c : codec.
  Variable rec : spec -> tagset -> option (option N) -> bool -> bool -> proc dval.
  Variable lf : nat.
  Hypothesis Hrec : rec_good c lf rec.

  Lemma raw_loop_good sp ts ae sfun : forall k last s d s',
    (last = DNoValue \/ (last <> DEoo /\ good lf sp true false last)) ->
    resume (raw_loop rec sp ts k last) s = inr (Ok d, s') -> good lf sp ae sfun d.
  Proof.
    induction k as [|k IH]; intros last s d s' Hl H; cbn [raw_loop] in H; [dead H|].
    binv H. pose proof (Hrec _ _ _ _ _ _ _ _ (pre_none c ts) Ha) as Hg.
    assert (Hnext: a <> DEoo -> resume (raw_loop rec sp ts k a) s0 = inr (Ok d, s') -> good lf sp ae sfun d).
    { intros Hne H'. apply (IH a s0 d s'); [right; split; [exact Hne|exact Hg]|exact H']. }
    destruct a as [Tc vc| |b| |]; try (apply Hnext; [discriminate|exact H]).
    destruct Hl as [->|[Hne Hgl]]; [dead H|].
    assert (Hd: d = last) by (destruct last; cbn [resume] in H; inversion H; reflexivity). subst d.
    apply (good_flags _ _ _ _ _ _ Hne Hgl).
  Qed.

  Lemma good_noeoo n sp ae sfun d : good n sp false false d -> good n sp ae sfun d.
  Proof.
    destruct sp as [|T0|mp]; cbn [good]; auto; destruct d; cbn [gd]; auto; discriminate.
  Qed.

  Lemma raw_good sp ts len ae sfun s d s' :
    resume (dec_raw rec lf sp ts len sfun) s = inr (Ok d, s') -> good lf sp ae sfun d.
  Proof.
    intros H. unfold dec_raw in H. destruct sfun; [apply (collector_good lf lf _ _ _ _ _ ae H)|].
    destruct len as [l|].
    - apply good_noeoo. apply (Hrec _ _ _ _ _ _ _ _ (pre_none c ts) H).
    - apply (raw_loop_good _ _ ae false _ _ _ _ _ (or_introl eq_refl) H).
  Qed.

  Lemma dec_value_good cd fl T ts len ae sfun s d s' :
    compat (key_of T) cd = true -> ts <> [] -> (len = None -> support_indef c = true) ->
    resume (dec_value rec lf cd fl (Some T) ts len sfun) s = inr (Ok d, s') -> good (S lf) (STy T) ae sfun d.
  Proof.
    intros Hc Hts Hind H. unfold key_of in Hc.
    pose proof (base_of_not_wrapped T) as Hnw.
    destruct (base_of T) eqn:HB; try discriminate Hnw; destruct cd; try discriminate Hc;
      unfold dec_value in H; cbv beta iota zeta in H; rewrite ?HB in H; destruct len as [l|]; try dead H.
    all: try (destruct (negb (tag0_cons ts)); [dead H|]; destruct sfun; [apply (collector_good lf (S lf) _ _ _ _ _ ae H)|]).
    all: try (destruct sfun; [apply (collector_good lf (S lf) _ _ _ _ _ ae H)|]).
    all: try solve [eapply integer_good; [|exact H]; intros; unfold scalar_fits; rewrite HB; reflexivity].
    all: try solve [eapply bool_cer_good; [|exact H]; intros; unfold scalar_fits; rewrite HB; reflexivity].
    all: try solve [eapply null_good; [|exact H]; intros; unfold scalar_fits; rewrite HB; reflexivity].
    all: try solve [eapply oid_good; [|exact H]; intros; unfold scalar_fits; rewrite HB; assumption].
    all: try solve [eapply real_good; [|exact H]; intros; unfold scalar_fits; rewrite HB; assumption].
    all: try solve [eapply octets_good; [|exact H]; intros; unfold scalar_fits; rewrite HB; reflexivity].
    all: try solve [unfold dec_octets_indef in H; eapply octets_indef_loop_good; [|exact H]; intros; unfold scalar_fits; rewrite HB; reflexivity].
    all: try solve [eapply bits_good; [|exact H]; intros; unfold scalar_fits; rewrite HB; reflexivity].
    all: try solve [eapply bits_indef_good; [|exact H]; intros; unfold scalar_fits; rewrite HB; reflexivity].
    all: try solve [eapply any_good; [|exact H]; intros; unfold scalar_fits; rewrite HB; reflexivity].
    all: try solve [eapply any_indef_good; [|exact H]; intros; unfold scalar_fits; rewrite HB; reflexivity].
    all: try solve [apply (listof_good c rec lf Hrec (S lf) T _ _ ae false _ _ _ (or_introl HB) H)].
    all: try solve [apply (listof_good c rec lf Hrec (S lf) T _ _ ae false _ _ _ (or_intror HB) H)].
    all: try solve [apply (record_good c rec lf Hrec (S lf) T _ false _ ae false _ _ _ HB H)].
    all: try solve [apply (record_good c rec lf Hrec (S lf) T _ true _ ae false _ _ _ HB H)].
    all: try solve [apply (choice_good c rec lf Hrec T _ ts _ ae false _ _ _ HB Hts Hind H)].
  Qed.

  Lemma run_value_any (k: proc dval) len s d s' :
    resume (match len with
            | None => k
            | Some l => let! p0 := tell in let! v := k in let! p1 := tell in
                        if N.eqb (N.of_nat (p1 - p0)) l then Ret v else Raise EMalformed
            end) s = inr (Ok d, s') -> exists s0 s1, resume k s0 = inr (Ok d, s1).
  Proof.
    destruct len as [l|]; intros H; [|eauto].
    binv H. binv H. binv H. destruct (N.eqb (N.of_nat (a1 - a)) l); [|dead H].
    cbn [resume] in H. inversion H; subst. eauto.
  Qed.

  Lemma good_sty_smap n mp T ae sfun d : in_tmap mp T -> good n (STy T) ae sfun d -> good n (SMap mp) ae sfun d.
  Proof. intros Hin. cbn [good]. destruct d; cbn [gd]; auto. intros [-> Hd]. auto. Qed.

  Lemma tm_get_in mp ts T : tm_get mp ts = Ok (Some T) -> in_tmap mp T.
  Proof.
    unfold tm_get. destruct (tm_postponed mp); [discriminate|].
    destruct (tm_find ts (tm_present mp)) as [t|] eqn:E.
    - intros H. inversion H; subst. left. apply (assoc_In _ _ _ E).
    - destruct (tm_default mp) as [d0|] eqn:Ed; [|discriminate]. destruct (tm_mem ts (tm_skip mp)); [discriminate|].
      intros H. inversion H; subst. right. exact Ed.
  Qed.

  Lemma dispatch_good sp ts len ae sfun s d s' :
    ts <> [] -> (len = None -> support_indef c = true) ->
    resume (dispatch c rec lf sp ts len sfun) s = inr (Ok d, s') -> good (S lf) sp ae sfun d.
  Proof.
    intros Hts Hind H. unfold dispatch in H. cbv zeta in H.
    assert (Hfail: forall s d s',
      resume (match match ts with
                    | t :: _ => if tcon t && negb (cls_eqb (tcls t) Univ) then Some (dec_raw rec lf sp ts len sfun) else None
                    | [] => None end with
              | Some k => match len with
                          | None => k
                          | Some l => let! p0 := tell in let! v := k in let! p1 := tell in
                                      if N.eqb (N.of_nat (p1 - p0)) l then Ret v else Raise EMalformed
                          end
              | None => Raise EMalformed end) s = inr (Ok d, s') -> good (S lf) sp ae sfun d).
    { clear H. intros s1 d1 s1' H.
      destruct ts as [|t r]; [dead H|]. destruct (tcon t && negb (cls_eqb (tcls t) Univ)); [|dead H].
      apply run_value_any in H. destruct H as (s2 & s3 & H).
      apply (good_mono lf (S lf)); [lia|]. apply (raw_good _ _ _ ae sfun _ _ _ H). }
    destruct sp as [|T|mp].
    - exact I.
    - destruct (tagset_eqb ts (tagset_of' T) || tm_contains (tagmap_of T) ts); [|apply (Hfail _ _ _ H)].
      destruct (tm_postponed (tagmap_of T)); [dead H|].
      destruct (by_type c T) as [[cd fl]|] eqn:Eby; [|apply (Hfail _ _ _ H)].
      apply run_value_any in H. destruct H as (s2 & s3 & H).
      apply (dec_value_good _ _ _ _ _ ae sfun _ _ _ (by_type_compat _ _ _ _ Eby) Hts Hind H).
    - binv H. apply lift_inv in Ha. destruct a as [T|]; [|apply (Hfail _ _ _ H)].
      destruct (by_type c T) as [[cd fl]|] eqn:Eby; [|apply (Hfail _ _ _ H)].
      apply run_value_any in H. destruct H as (s2 & s3 & H).
      apply (good_sty_smap _ _ _ _ _ _ (tm_get_in _ _ _ Ha)).
      apply (dec_value_good _ _ _ _ _ ae sfun _ _ _ (by_type_compat _ _ _ _ Eby) Hts Hind H).
  Qed.

  Lemma read_length_indef s o s' : resume (read_length c) s = inr (Ok o, s') -> o = None -> support_indef c = true.
  Proof.
    unfold read_length. intros H Ho. binv H. destruct (N.ltb a 128); [cbn [resume] in H; inversion H; subst; discriminate|].
    destruct (N.eqb a 128).
    - destruct (support_indef c); [reflexivity|dead H].
    - binv H. cbn [resume] in H. inversion H; subst. discriminate.
  Qed.

  Lemma body_good sp ts rs ae sfun s d s' : pre c ts rs ->
    resume (dec_body c rec lf sp ts rs ae sfun) s = inr (Ok d, s') -> good (S lf) sp ae sfun d.
  Proof.
    intros [Hp1 Hp2] H. unfold dec_body in H. cbv zeta in H.
    assert (Hmain: forall s d s',
      resume (match rs with
              | Some len => dispatch c rec lf sp ts len sfun
              | None => Mark (let! t := read_tag lf in let! len := read_length c in dispatch c rec lf sp (t :: ts) len sfun)
              end) s = inr (Ok d, s') -> good (S lf) sp ae sfun d).
    { clear H. intros s1 d1 s1' H. destruct rs as [len|].
      - destruct Hp1 as [Hp1|Hp1]; [discriminate|].
        apply (dispatch_good _ _ _ ae sfun _ _ _ Hp1 (fun E => Hp2 (f_equal Some E)) H).
      - cbn [resume] in H. binv H. binv H.
        assert (Hne: a :: ts <> []) by discriminate.
        apply (dispatch_good _ _ _ ae sfun _ _ _ Hne (read_length_indef _ _ _ Ha0) H). }
    destruct (ae && support_indef c) eqn:Eae; [|apply (Hmain _ _ _ H)].
    binv H. 
    assert (Hae: ae = true) by (destruct ae; [reflexivity|discriminate]).
    destruct a as [|x a]; try (rewrite resume_seekback in H; apply (Hmain _ _ _ H)).
    destruct x; try (rewrite resume_seekback in H; apply (Hmain _ _ _ H)).
    destruct a as [|y a]; try (rewrite resume_seekback in H; apply (Hmain _ _ _ H)).
    destruct y; try (rewrite resume_seekback in H; apply (Hmain _ _ _ H)).
    destruct a; try (rewrite resume_seekback in H; apply (Hmain _ _ _ H)).
    cbn [resume] in H. inversion H; subst. destruct sp; cbn [good gd]; auto.
  Qed.
End Call.

Theorem call_good c : forall fuel, rec_good c fuel (dec_call c fuel).
Proof.
  induction fuel as [|f IH]; intros sp ts rs ae sfun s d s' Hpre H.
  - cbn [dec_call resume] in H. discriminate.
  - cbn [dec_call] in H. apply (body_good c _ f IH _ _ _ ae sfun _ _ _ Hpre H).
Qed.


(* ------------------------------------------------------------------------------------------ *)
(* main theorems: well-formedness                                                             *)
(* ------------------------------------------------------------------------------------------ *)

(* whatever input is accepted under a guiding type T yields a value object of exactly that type, and
   the unread tail is a suffix of the input; for T in the fragment the value is well-formed *)
Theorem accepted_is_well_formed_gen : forall c fuel T b d tl,
  decode_with c fuel (Some T) b = Ok (d, tl) ->
  exists v, d = DV T v
            /\ (frag T = true -> val_of T v = true)
            /\ exists used, b = used ++ tl.
Proof.
  intros c fuel T b d tl H. pose proof (decode_with_suffix _ _ _ _ _ _ H) as Hsuf.
  unfold decode_with, run_complete in H.
  destruct (resume (dec_item c fuel (Some T)) (mkStream b 0 true 0)) as [[p s]|[[d0|e] s]] eqn:E; try discriminate.
  inversion H; subst. clear H. unfold dec_item in E.
  pose proof (call_good c fuel _ _ _ _ _ _ _ _ (pre_none c []) E) as Hg.
  cbn [good] in Hg. destruct d as [T' v| |r| |]; cbn [gd] in Hg; try discriminate; try contradiction.
  destruct Hg as [-> [_ [Hv _]]]. exists v. auto.
Qed.

(* whatever input is accepted under a character-string type (under any stack of tags, in primitive
   or segmented form) yields octets that the type's text codec accepts *)
Theorem accepted_string_codec_ok : forall c fuel T n b d tl,
  base_of T = TStr n -> decode_with c fuel (Some T) b = Ok (d, tl) ->
  exists bs, d = DV T (VOcts bs) /\ str_octets_ok n bs = Some true.
Proof.
  intros c fuel T n b d tl HB H.
  unfold decode_with, run_complete in H.
  destruct (resume (dec_item c fuel (Some T)) (mkStream b 0 true 0)) as [[p s]|[[d0|e] s]] eqn:E; try discriminate.
  inversion H; subst. clear H. unfold dec_item in E.
  pose proof (call_good c fuel _ _ _ _ _ _ _ _ (pre_none c []) E) as Hg.
  cbn [good] in Hg. destruct d as [T' v| |r| |]; cbn [gd] in Hg; try discriminate; try contradiction.
  destruct Hg as [-> [_ [_ Hs]]]. unfold str_ok in Hs. rewrite HB in Hs.
  destruct v; try contradiction. eexists. split; [reflexivity|exact Hs].
Qed.

(* every codec, every type of the fragment (tagged CHOICE included) *)
Theorem accepted_is_well_formed : forall c fuel T b d tl,
  frag T = true -> decode_with c fuel (Some T) b = Ok (d, tl) ->
  exists v, d = DV T v /\ val_of T v = true /\ exists used, b = used ++ tl.
Proof.
  intros c fuel T b d tl HF H.
  destruct (accepted_is_well_formed_gen _ _ _ _ _ _ H) as (v & -> & Hv & Hsuf).
  exists v. split; [reflexivity|]. split; [exact (Hv HF)|exact Hsuf].
Qed.

(* the same for the one-shot entry point with its own choice of fuel *)
Corollary accepted_is_well_formed_decode : forall c T b d tl,
  frag T = true -> decode c (Some T) b = Ok (d, tl) ->
  exists v, d = DV T v /\ val_of T v = true /\ exists used, b = used ++ tl.
Proof. intros c T b d tl HF H. apply (accepted_is_well_formed c (dec_fuel (Some T) b) T b d tl HF H). Qed.

(* ---------------- the stages, each a closed theorem ---------------- *)

(* stage 1: simple types (and ANY) under any stack of tags *)
Definition stage1_frag (T: ty) : bool :=
  match base_of T with TSeq _ | TSet _ | TSeqOf _ | TSetOf _ | TChoice _ => false | _ => true end.

(* stage 2: + SEQUENCE OF / SET OF, nested and tagged at will *)
Fixpoint stage2_frag (T: ty) : bool :=
  match T with
  | TSeq _ | TSet _ | TChoice _ => false
  | TSeqOf t | TSetOf t => stage2_frag t
  | TImp _ x | TExp _ x => stage2_frag x
  | _ => true
  end.

(* stage 3: + SEQUENCE with mandatory, OPTIONAL and DEFAULT members *)
Fixpoint stage3_frag (T: ty) : bool :=
  match T with
  | TSet _ | TChoice _ => false
  | TSeq fs => forallb (fun f => stage3_frag (snd f)) fs
  | TSeqOf t | TSetOf t => stage3_frag t
  | TImp _ x | TExp _ x => stage3_frag x
  | _ => true
  end.

Lemma stage3_frag_frag : forall T, stage3_frag T = true -> frag T = true.
Proof.
  intros T H. assert (HH: frag T = true /\ map_member_ok T = true).
  { induction T using ty_ind'; try discriminate H; cbn [stage3_frag frag map_member_ok] in *; auto;
      try (destruct (IHT H) as [A _]; auto).
    assert (Hall: forallb (fun f => frag (snd f)) fs = true /\ forallb (fun f => map_member_ok (snd f)) fs = true).
    { induction H0 as [|f fs Hf Hfs IH]; [auto|]. cbn [forallb] in *. apply andb_prop in H. destruct H as [H1 H2].
      destruct (Hf H1) as (A & C). destruct (IH H2) as (A' & C'). rewrite A, C, A', C'. auto. }
    destruct Hall as (A & C). rewrite A, C, Bool.orb_true_r. auto. }
  apply HH.
Qed.

Lemma stage2_stage3 : forall T, stage2_frag T = true -> stage3_frag T = true.
Proof. induction T using ty_ind'; cbn [stage2_frag stage3_frag]; auto; discriminate. Qed.

Lemma stage1_stage2 : forall T, stage1_frag T = true -> stage2_frag T = true.
Proof.
  unfold stage1_frag. induction T using ty_ind'; cbn [stage2_frag base_of]; auto; discriminate.
Qed.

Theorem accepted_is_well_formed_stage3 : forall c fuel T b d tl,
  stage3_frag T = true -> decode_with c fuel (Some T) b = Ok (d, tl) ->
  exists v, d = DV T v /\ val_of T v = true /\ exists used, b = used ++ tl.
Proof. intros c fuel T b d tl HF. apply accepted_is_well_formed. apply stage3_frag_frag. exact HF. Qed.

Theorem accepted_is_well_formed_stage2 : forall c fuel T b d tl,
  stage2_frag T = true -> decode_with c fuel (Some T) b = Ok (d, tl) ->
  exists v, d = DV T v /\ val_of T v = true /\ exists used, b = used ++ tl.
Proof. intros c fuel T b d tl HF. apply accepted_is_well_formed_stage3. apply stage2_stage3. exact HF. Qed.

Theorem accepted_is_well_formed_stage1 : forall c fuel T b d tl,
  stage1_frag T = true -> decode_with c fuel (Some T) b = Ok (d, tl) ->
  exists v, d = DV T v /\ val_of T v = true /\ exists used, b = used ++ tl.
Proof. intros c fuel T b d tl HF. apply accepted_is_well_formed_stage2. apply stage1_stage2. exact HF. Qed.

Print Assumptions accepted_is_well_formed_gen.
Print Assumptions accepted_is_well_formed.
Print Assumptions accepted_is_well_formed_stage1.

(* ---------------- the hypotheses are satisfiable on inputs no encoder writes ---------------- *)

Definition awf_ctx (n: N) : tag := mkTag Ctx false n.
Definition awf_T : ty :=
  TSeq [(Req, TInt); (Opt, TExp (awf_ctx 0) (TChoice [TBool; TOcts])); (Def (VInt 3), TImp (awf_ctx 1) TInt);
        (Opt, TChoice [TNull; TImp (awf_ctx 5) TOid]); (Req, TSetOf (TStr 12))].
(* BER: indefinite outer length, a padded INTEGER, long-form lengths, a segmented OCTET STRING as the
   CHOICE alternative, an absent DEFAULT member, trailing octets *)
Definition awf_ber : bytes :=
  [48;128; 2;2;0;5; 160;129;11; 36;128; 4;1;7; 4;2;8;9; 0;0; 133;2;42;3; 49;129;4; 12;2;104;105; 0;0; 99].
Definition awf_der : bytes := [48;20; 2;2;0;5; 160;3;1;1;255; 129;1;7; 5;0; 49;4;12;2;104;105].

Example accepted_is_well_formed_witness :
  frag awf_T = true
  /\ decode BER (Some awf_T) awf_ber
     = Ok (DV awf_T (VRec [Some (VInt 5); Some (VChoice 1 (VOcts [7; 8; 9])); None;
                           Some (VChoice 1 (VOid [1; 2; 3])); Some (VList [VOcts [104; 105]])]), [99])
  /\ decode DER (Some awf_T) awf_der
     = Ok (DV awf_T (VRec [Some (VInt 5); Some (VChoice 0 (VBool true)); Some (VInt 7);
                           Some (VChoice 0 VNull); Some (VList [VOcts [104; 105]])]), [])
  /\ val_of awf_T (VRec [Some (VInt 5); Some (VChoice 1 (VOcts [7; 8; 9])); None;
                         Some (VChoice 1 (VOid [1; 2; 3])); Some (VList [VOcts [104; 105]])]) = true.
Proof. repeat split; vm_compute; reflexivity. Qed.

Example accepted_stage_witness :
  stage1_frag (TExp (awf_ctx 2) (TImp (mkTag Appl false 70) TBits)) = true
  /\ decode BER (Some (TExp (awf_ctx 2) (TImp (mkTag Appl false 70) TBits))) [162;128; 127;70;128; 3;2;4;160; 3;1;0; 0;0; 0;0]
     = Ok (DV (TExp (awf_ctx 2) (TImp (mkTag Appl false 70) TBits)) (VBits [true; false; true; false]), [])
  /\ stage2_frag (TSeqOf (TImp (awf_ctx 0) (TSetOf TInt))) = true
  /\ decode CER (Some (TSeqOf (TImp (awf_ctx 0) (TSetOf TInt)))) [48;128; 160;6;2;1;2;2;1;1; 160;128;0;0; 0;0]
     = Ok (DV (TSeqOf (TImp (awf_ctx 0) (TSetOf TInt))) (VList [VList [VInt 2; VInt 1]; VList []]), [])
  /\ stage3_frag (TSeq [(Opt, TInt); (Def (VBool false), TBool); (Req, TOcts)]) = true
  /\ decode DER (Some (TSeq [(Opt, TInt); (Def (VBool false), TBool); (Req, TOcts)])) [48;5; 1;1;0; 4;0]
     = Ok (DV (TSeq [(Opt, TInt); (Def (VBool false), TBool); (Req, TOcts)]) (VRec [None; Some (VBool false); Some (VOcts [])]), []).
Proof. repeat split; vm_compute; reflexivity. Qed.

(* ---------------- what lies outside the fragment, and why: accepted, yet ill-formed ---------------- *)

(* D1 (repaired in the library, and the model follows): a tagged CHOICE in the indefinite form with
   nothing inside (a0 80 00 00) used to be accepted as a CHOICE object without a value, which the
   encoder refuses; it is now refused by every decoder ('No alternative of CHOICE') *)
Example valueless_tagged_choice_refused :
  let T := TExp (awf_ctx 0) (TChoice [TInt; TOcts]) in
  frag T = true
  /\ decode BER (Some T) [160;128;0;0] = Err EMalformed
  /\ decode CER (Some T) [160;128;0;0] = Err EMalformed
  /\ decode DER (Some T) [160;128;0;0] = Err EMalformed
  /\ val_of T (VChoice 2 VNull) = false
  /\ decode BER (Some T) [160;128; 4;1;7; 0;0] = Ok (DV T (VChoice 1 (VOcts [7])), []).
Proof. repeat split; vm_compute; reflexivity. Qed.

(* D2. a tagged CHOICE in the indefinite form holding two alternatives is accepted; the last one wins *)
Example two_alternatives_accepted :
  let T := TExp (awf_ctx 0) (TChoice [TInt; TOcts]) in
  decode BER (Some T) [160;128; 2;1;5; 4;1;7; 0;0] = Ok (DV T (VChoice 1 (VOcts [7])), []).
Proof. vm_compute; reflexivity. Qed.

(* D3. an untagged CHOICE reaching an untagged ANY, as an OPTIONAL member, a SET member or a nested
   alternative: the tag map's catch-all entry hands out the ANY type, so the member holds an ANY value
   where a CHOICE value belongs *)
Example any_in_choice_member_misplaced :
  let T := TSeq [(Opt, TChoice [TAny]); (Req, TInt)] in
  let U := TSet [(Req, TChoice [TAny]); (Req, TInt)] in
  frag T = false /\ frag U = false
  /\ decode BER (Some T) [48;6; 4;1;9; 2;1;5] = Ok (DV T (VRec [Some (VAny [4;1;9]); Some (VInt 5)]), [])
  /\ val_of T (VRec [Some (VAny [4;1;9]); Some (VInt 5)]) = false
  /\ decode DER (Some U) [49;6; 4;1;9; 2;1;5] = Ok (DV U (VRec [Some (VAny [4;1;9]); Some (VInt 5)]), [])
  /\ val_of U (VRec [Some (VAny [4;1;9]); Some (VInt 5)]) = false.
Proof. repeat split; vm_compute; reflexivity. Qed.

(* a definite-length constructed BIT STRING with no segments (23 00) is the empty bit string under BER *)
Example empty_constructed_bits_accepted :
  decode BER (Some TBits) [35;0] = Ok (DV TBits (VBits []), []) /\ val_of TBits (VBits []) = true
  /\ decode BER (Some TBits) [3;0] = Err EMalformed.
Proof. repeat split; vm_compute; reflexivity. Qed.

(* an untagged ANY as the alternative of an untagged CHOICE holds the whole TLV (the element-start mark is
   no longer moved on re-entry past the header): inside the fragment, and well-formed *)
Example any_alternative_keeps_header :
  frag (TChoice [TAny]) = true
  /\ decode BER (Some (TChoice [TAny])) [4;1;9] = Ok (DV (TChoice [TAny]) (VChoice 0 (VAny [4;1;9])), [])
  /\ decode DER (Some (TChoice [TInt; TAny])) [4;1;9; 7] = Ok (DV (TChoice [TInt; TAny]) (VChoice 1 (VAny [4;1;9])), [7])
  /\ val_of (TChoice [TAny]) (VChoice 0 (VAny [4;1;9])) = true
  /\ encode BER true 0 (TChoice [TAny]) (VChoice 0 (VAny [4;1;9])) = Ok [4;1;9].
Proof. repeat split; vm_compute; reflexivity. Qed.

(* C03, the model's side for the reader theorems: what the encoders of all three codecs write for
   the simple types, in every mode (defMode, maxChunkSize), and that the independent reader reads
   it back as the same abstract value. *)
From Coq Require Import Lia.
From PV Require Import Base.Bytes Model.Tag Model.TableTypes Model.Types Model.Enc Gen.Tables Spec.X690
     Proofs.Bits Proofs.SpecOctets Proofs.LeafInt Proofs.LeafOidBits Proofs.LeafReal Proofs.TagAlgebra
     Proofs.DerReference Proofs.ReaderParse Proofs.ReaderInterp Proofs.ReaderLeafOidBits Proofs.ReaderLeafReal
     Proofs.ReaderSound Proofs.ReaderFrame Proofs.ReaderCerSegments.
Local Open Scope N_scope.

(* ====================================================================== *)
(* 1. the encoder of the character and useful string types, any codec       *)
(* ====================================================================== *)

Ltac string_enc_cases Hin Hk :=
  repeat (destruct Hin as [Hin|Hin];
          [injection Hin as <- <- <-;
           first [discriminate Hk
                 | split; [first [left; reflexivity | right; left; reflexivity | right; right; reflexivity]|reflexivity]]|]);
  contradiction.

Lemma string_encoder c n cd fl : concrete_encoder c (TStr n) = Ok (cd, fl) ->
  (cd = EcOcts \/ cd = EcUtcTime \/ cd = EcGenTime) /\ ef_indef fl = true.
Proof.
  unfold concrete_encoder. cbn [key_of base_of tag_fallback_key].
  destruct c; cbn [enc_type_map enc_tag_map].
  - destruct (lookup3 (KStr n) ber_enc_type_map) as [[cd' fl']|] eqn:E.
    + intros H. injection H as <- <-. destruct (lookup3_in _ _ _ _ E) as (k' & Hk & Hin).
      unfold ber_enc_type_map in Hin. cbn [In] in Hin. string_enc_cases Hin Hk.
    + assert (Ek: lookup3 KOcts ber_enc_tag_map = Some (EcOcts, mkEncFlags true false false None 0 0)) by (vm_compute; reflexivity).
      rewrite Ek. intros H. injection H as <- <-. split; [left; reflexivity|reflexivity].
  - destruct (lookup3 (KStr n) cer_enc_type_map) as [[cd' fl']|] eqn:E.
    + intros H. injection H as <- <-. destruct (lookup3_in _ _ _ _ E) as (k' & Hk & Hin).
      unfold cer_enc_type_map in Hin. cbn [In] in Hin. string_enc_cases Hin Hk.
    + assert (Ek: lookup3 KOcts cer_enc_tag_map = Some (EcOcts, mkEncFlags true false false None 0 0)) by (vm_compute; reflexivity).
      rewrite Ek. intros H. injection H as <- <-. split; [left; reflexivity|reflexivity].
  - destruct (lookup3 (KStr n) der_enc_type_map) as [[cd' fl']|] eqn:E.
    + intros H. injection H as <- <-. destruct (lookup3_in _ _ _ _ E) as (k' & Hk & Hin).
      unfold der_enc_type_map in Hin. cbn [In] in Hin. string_enc_cases Hin Hk.
    + assert (Ek: lookup3 KOcts der_enc_tag_map = Some (EcOcts, mkEncFlags true false false None 0 0)) by (vm_compute; reflexivity).
      rewrite Ek. intros H. injection H as <- <-. split; [left; reflexivity|reflexivity].
Qed.

(* ====================================================================== *)
(* 2. shape of string contents: one primitive, or a run of primitive pieces *)
(* ====================================================================== *)

Lemma enc_octets_like_shape o v b s ic : octets_of v = Some b -> enc_octets_like o v = Ok (s, ic) ->
  (ic = false /\ s = b /\ (o_chunk o = 0 \/ (length b <= N.to_nat (o_chunk o))%nat)) \/
  (ic = true /\ o_chunk o <> 0 /\
   s = concat (map (tlv Univ false 4) (segs (S (length b)) (N.to_nat (o_chunk o)) b)) /\
   (N.to_nat (o_chunk o) < length b)%nat).
Proof.
  intros Ho H. unfold enc_octets_like in H. rewrite Ho in H.
  destruct (N.eqb_spec (o_chunk o) 0) as [Ez|Ez]; cbn [orb] in H.
  - left. injection H as <- <-. auto.
  - destruct (Nat.leb_spec (length b) (N.to_nat (o_chunk o))) as [Hle|Hgt].
    + left. injection H as <- <-. auto.
    + right. destruct (enc_string_chunked v (N.to_nat (o_chunk o))) as [s1|] eqn:E; cbn [bind] in H; [|discriminate H].
      injection H as <- <-. split; [reflexivity|split; [exact Ez|split; [|exact Hgt]]].
      apply (string_chunked_is_segs v b _ s1 Ho E).
Qed.

Lemma enc_bits_shape o bs s ic : enc_bits o bs = Ok (s, ic) ->
  (ic = false /\ s = enc_bits_prim bs /\
   (o_chunk o = 0 \/ (length bs + pad_of (length bs) <= N.to_nat (o_chunk o) * 8)%nat)) \/
  (ic = true /\ o_chunk o <> 0 /\
   s = concat (map (tlv Univ false 3) (map enc_bits_prim (chunks (S (length bs)) (N.to_nat (o_chunk o) * 8) bs))) /\
   (N.to_nat (o_chunk o) * 8 < length bs + pad_of (length bs))%nat).
Proof.
  intros H. unfold enc_bits in H. cbv zeta in H.
  destruct (N.eqb_spec (o_chunk o) 0) as [Ez|Ez]; cbn [orb] in H.
  - left. injection H as <- <-. auto.
  - destruct (Nat.leb_spec (length bs + pad_of (length bs)) (N.to_nat (o_chunk o) * 8)) as [Hle|Hgt].
    + left. injection H as <- <-. auto.
    + right. match type of H with bind ?F _ = _ => destruct F as [s1|e1] eqn:E end; cbn [bind] in H; [|discriminate H].
      injection H as <- <-. split; [reflexivity|split; [exact Ez|split; [|exact Hgt]]].
      apply (fold_pieces_ok 3 enc_bits_prim) in E. cbn [app] in E. subst s1. rewrite map_map. reflexivity.
Qed.

Lemma segs_in_len : forall f k (b p: bytes), In p (segs f k b) -> (length p <= k)%nat /\ (length p <= length b)%nat.
Proof.
  induction f as [|f IH]; intros k b p H; [contradiction|].
  cbn [segs] in H. destruct b as [|x b']; [contradiction|].
  destruct H as [<-|H].
  - split; [apply firstn_le_length|]. rewrite firstn_length. lia.
  - destruct (IH k _ p H) as [H1 H2]. split; [exact H1|]. rewrite skipn_length in H2. lia.
Qed.

Lemma chunks_in_len {A} : forall f k (b p: list A), In p (chunks f k b) -> (length p <= k)%nat /\ (length p <= length b)%nat.
Proof.
  induction f as [|f IH]; intros k b p H; [contradiction|].
  cbn [chunks] in H. destruct b as [|x b']; [contradiction|].
  destruct H as [<-|H].
  - split; [apply firstn_le_length|]. rewrite firstn_length. lia.
  - destruct (IH k _ p H) as [H1 H2]. split; [exact H1|]. rewrite skipn_length in H2. lia.
Qed.

Lemma concat_segs : forall f k (b: bytes), (0 < k)%nat -> (length b < f)%nat -> concat (segs f k b) = b.
Proof.
  induction f as [|f IH]; intros k b Hk Hf; [lia|].
  cbn [segs]. destruct b as [|x b']; [reflexivity|].
  cbn [concat]. rewrite IH; [apply firstn_skipn|exact Hk|].
  rewrite skipn_length. cbn [length] in *. lia.
Qed.

(* ---------- a segmented BIT STRING joins back ---------- *)

Lemma bit_piece_prim p :
  bit_piece (enc_bits_prim p) = Some (p ++ repeat false (pad_of (length p)), N.of_nat (pad_of (length p))).
Proof.
  unfold enc_bits_prim, bit_piece. pose proof (pad_of_lt (length p)) as Hp.
  destruct (N.ltb_spec 7 (N.of_nat (pad_of (length p)))) as [Hc|_]; [lia|].
  rewrite bits_of_octets_spec_bits_octets. reflexivity.
Qed.

Lemma join_single p : join_bit_segments [(p ++ repeat false (pad_of (length p)), N.of_nat (pad_of (length p)))] = Some p.
Proof.
  cbn [join_bit_segments]. rewrite Nat2N.id, app_length, repeat_length.
  destruct (Nat.ltb_spec (length p + pad_of (length p)) (pad_of (length p))) as [Hc|_]; [lia|].
  replace (length p + pad_of (length p) - pad_of (length p))%nat with (length p) by lia.
  rewrite firstn_app, Nat.sub_diag, firstn_all, firstn_O, app_nil_r. reflexivity.
Qed.

Lemma join_cons_aligned p x l : join_bit_segments ((p, 0) :: x :: l) = opt_bind (join_bit_segments (x :: l)) (fun y => Some (p ++ y)).
Proof. destruct x as [q u]. reflexivity. Qed.

Lemma bit_pieces_join k : (0 < k)%nat -> (k mod 8 = 0)%nat -> forall f bs, (length bs < f)%nat -> bs <> [] ->
  exists x l, opt_all (map bit_piece (map enc_bits_prim (chunks f k bs))) = Some (x :: l) /\
              join_bit_segments (x :: l) = Some bs.
Proof.
  intros Hk H8. induction f as [|f IH]; intros bs Hf Hne; [lia|].
  rewrite (chunks_cons f k bs Hne). cbn [map opt_all]. rewrite bit_piece_prim.
  destruct (skipn k bs) as [|y rest] eqn:Es.
  - (* the last piece *)
    rewrite chunks_nil. cbn [map opt_all opt_bind].
    assert (Hall: firstn k bs = bs).
    { rewrite <- (firstn_skipn k bs) at 2. rewrite Es, app_nil_r. reflexivity. }
    rewrite Hall. eexists. exists []. split; [reflexivity|]. apply join_single.
  - (* a full piece, more to come *)
    assert (Hlen: (k < length bs)%nat).
    { destruct (Nat.lt_ge_cases k (length bs)) as [H|H]; [exact H|].
      rewrite skipn_all2 in Es by exact H. discriminate Es. }
    assert (Hfl: length (firstn k bs) = k) by (rewrite firstn_length; lia).
    destruct (IH (y :: rest)) as (x & l & Ho & Hj).
    { rewrite <- Es, skipn_length. lia. }
    { discriminate. }
    rewrite Ho. cbn [opt_bind]. rewrite Hfl, (pad_of_0 k H8). cbn [repeat]. rewrite app_nil_r.
    eexists. eexists. split; [reflexivity|].
    change (N.of_nat 0) with 0. rewrite join_cons_aligned, Hj. cbn [opt_bind].
    rewrite <- Es, firstn_skipn. reflexivity.
Qed.

(* ====================================================================== *)
(* 3. the encoder call, unfolded once                                       *)
(* ====================================================================== *)

Lemma enc_unfold c T o v :
  enc c T o v =
  (do ce <- concrete_encoder c T;
   do ts <- tagset_of T;
   do cc <- enc_content c T (fst ce) (snd ce) (mkOpts (o_def (fix_opts c o)) (o_chunk (fix_opts c o)) false) v;
   frame ts (fst cc) (snd cc) (fix_opts c o) (ef_indef (snd ce))).
Proof.
  unfold enc, enc_with.
  destruct (concrete_encoder c T) as [[cd fl]|]; cbn [bind fst snd]; [|reflexivity].
  destruct (tagset_of T) as [ts|]; cbn [bind]; [|reflexivity].
  destruct (enc_content c T cd fl _ v) as [[content ic]|]; reflexivity.
Qed.

(* ====================================================================== *)
(* 4. contents of the simple types, any codec, any options, read back        *)
(* ====================================================================== *)

(* the encoders of these types support the indefinite form (the others do not: finding F01) *)
Definition indef_base (B: ty) : bool :=
  match B with TBool | TInt | TEnum | TNull | TOid | TReal => false | _ => true end.

(* identifier with the base tag, then what follows it: definite or indefinite *)
Definition base_enc (B: ty) (ic indef: bool) (content: bytes) : bytes :=
  ident Univ ic (tnum (base_tag B)) ++
  (if ic && indef then [128] ++ content ++ [0; 0] else length_octets (N.of_nat (length content)) ++ content).

Lemma base_enc_prim B content indef : base_enc B false indef content = tlv Univ false (tnum (base_tag B)) content.
Proof. reflexivity. Qed.
Lemma base_enc_cons B content indef : base_enc B true indef content = ctlv indef Univ (tnum (base_tag B)) content.
Proof. destruct indef; reflexivity. Qed.

Lemma pieces_bound (n: N) (ps: list bytes) :
  N.of_nat (length (concat (map (tlv Univ false n) ps))) < max_len ->
  Forall (fun p => N.of_nat (length p) < max_len) ps.
Proof.
  intros H. apply Forall_forall. intros p Hp.
  assert (Hin: In (tlv Univ false n p) (map (tlv Univ false n) ps)) by (apply in_map; exact Hp).
  apply concat_in_length in Hin. pose proof (tlv_length Univ false n p). lia.
Qed.

Lemma octets_like_reads (B: ty) (u: N) o v b content ic :
  (forall p, N.of_nat (length p) < max_len -> reads_as B (AOcts p) (tlv Univ false u p)) ->
  (forall indef ps, Forall (fun p => N.of_nat (length p) < max_len) ps ->
     (indef = false -> N.of_nat (length (concat (map (tlv Univ false 4) ps))) < max_len) ->
     reads_as B (AOcts (concat ps)) (ctlv indef Univ u (concat (map (tlv Univ false 4) ps)))) ->
  tnum (base_tag B) = u ->
  octets_of v = Some b -> enc_octets_like o v = Ok (content, ic) ->
  N.of_nat (length content) < max_len ->
  reads_as B (AOcts b) (base_enc B ic (negb (o_def o)) content).
Proof.
  intros Hprim Hcons Hu Ho He Hl.
  destruct (enc_octets_like_shape o v b content ic Ho He) as [(-> & -> & _)|(-> & Hk & -> & _)].
  - rewrite base_enc_prim, Hu. apply Hprim. exact Hl.
  - rewrite base_enc_cons, Hu.
    assert (Hc: concat (segs (S (length b)) (N.to_nat (o_chunk o)) b) = b) by (apply concat_segs; lia).
    rewrite <- Hc at 1. apply Hcons; [apply (pieces_bound 4); exact Hl|intros _; exact Hl].
Qed.

Ltac encoder_is' Hce :=
  match type of Hce with
  | ?lhs = Ok _ => let r := fresh "r" in let Er := fresh "Er" in
                   remember lhs as r eqn:Er; vm_compute in Er; subst r; injection Hce as <- <-
  end.

Theorem leaf_reads c B v cd fl oc content ic :
  der_ref_base B v = true -> concrete_encoder c B = Ok (cd, fl) ->
  enc_content c B cd fl oc v = Ok (content, ic) ->
  ef_indef fl = indef_base B /\ (ic = true -> indef_base B = true) /\
  (N.of_nat (length content) < max_len ->
   reads_as B (abs B v) (base_enc B ic (negb (o_def oc)) content)).
Proof.
  intros Hd Hce He.
  destruct B; try discriminate Hd; destruct v as [bb|z|bs|bo|cs| |arcs|r|vfs|xs|i x|ab]; try discriminate Hd.
  - (* BOOLEAN *)
    destruct c; encoder_is' Hce; cbn [enc_content] in He; injection He as <- <-;
      (split; [reflexivity|split; [discriminate|]]); intros _; rewrite base_enc_prim; cbn [abs base_tag tnum utag];
      destruct bb; first [exact (reads_bool 1)|exact (reads_bool 0)|exact (reads_bool 255)].
  - (* INTEGER *)
    destruct c; encoder_is' Hce; cbn [enc_content ef_compact_zero] in He; injection He as <- <-;
      (split; [reflexivity|split; [discriminate|]]); intros Hl; rewrite base_enc_prim; cbn [abs base_tag tnum utag];
      rewrite <- int_contents_is_enc_integer in *;
      destruct (int_contents_cons z) as (o1 & c1 & E); pose proof (signed_value_int_contents z) as Hsv; rewrite E in *;
      (replace (AInt z) with (AInt (signed_value (o1 :: c1))) by (rewrite Hsv; reflexivity)); apply reads_int; exact Hl.
  - (* ENUMERATED *)
    destruct c; encoder_is' Hce; cbn [enc_content ef_compact_zero] in He; injection He as <- <-;
      (split; [reflexivity|split; [discriminate|]]); intros Hl; rewrite base_enc_prim; cbn [abs base_tag tnum utag];
      rewrite <- int_contents_is_enc_integer in *;
      destruct (int_contents_cons z) as (o1 & c1 & E); pose proof (signed_value_int_contents z) as Hsv; rewrite E in *;
      (replace (AInt z) with (AInt (signed_value (o1 :: c1))) by (rewrite Hsv; reflexivity)); apply reads_enum; exact Hl.
  - (* BIT STRING *)
    assert (Hb: ef_indef fl = true /\ exists o', o_def o' = o_def oc /\ enc_bits o' bs = Ok (content, ic)).
    { destruct c; encoder_is' Hce; cbn [enc_content] in He; (split; [reflexivity|]);
        (eexists; split; [|exact He]); try reflexivity; destruct (N.ltb 1 (o_chunk oc)); reflexivity. }
    destruct Hb as (Hfl & o' & Hdo & Hb). split; [exact Hfl|split; [reflexivity|]]. intros Hl.
    rewrite <- Hdo. cbn [abs].
    destruct (enc_bits_shape o' bs content ic Hb) as [(-> & -> & _)|(-> & Hk & -> & _)].
    + rewrite base_enc_prim. cbn [base_tag tnum utag].
      rewrite <- bitstring_contents_is_enc_bits_prim in *.
      destruct (bits_join_single bs) as (u & c1 & E & Hu & Hj). rewrite E in *.
      apply reads_bits_prim; assumption.
    + rewrite base_enc_cons. cbn [base_tag tnum utag].
      destruct bs as [|b0 bs'].
      * (* an empty bit string is never segmented *)
        exfalso. unfold enc_bits in Hb. cbn [length pad_of] in Hb.
        destruct (N.eqb (o_chunk o') 0); cbn [orb] in Hb; [discriminate Hb|].
        change (Nat.leb (0 + (8 - 0 mod 8) mod 8) (N.to_nat (o_chunk o') * 8)) with true in Hb. discriminate Hb.
      * destruct (bit_pieces_join (N.to_nat (o_chunk o') * 8)%nat) with (f := S (length (b0 :: bs'))) (bs := b0 :: bs')
          as (x & l & Ho & Hj); [lia|apply Nat.mod_mul; lia|lia|discriminate|].
        apply (reads_bits_cons _ _ (x :: l)); [exact Ho|exact Hj|apply (pieces_bound 3); exact Hl|intros _; exact Hl].
  - (* OCTET STRING *)
    assert (Hfl: ef_indef fl = true /\ cd = EcOcts) by (destruct c; encoder_is' Hce; split; reflexivity).
    destruct Hfl as [Hfl ->]. split; [exact Hfl|split; [reflexivity|]]. intros Hl.
    cbn [enc_content] in He. cbn [abs].
    apply (octets_like_reads TOcts 4 oc (VOcts bo) bo content ic); try assumption; try reflexivity.
    + intros p Hp. apply reads_octs_prim. exact Hp.
    + intros indef ps H1 H2. apply reads_octs_cons; assumption.
  - (* NULL *)
    destruct c; encoder_is' Hce; cbn [enc_content] in He; injection He as <- <-;
      (split; [reflexivity|split; [discriminate|]]); intros _; exact reads_null.
  - (* OBJECT IDENTIFIER *)
    assert (Hfl: ef_indef fl = false /\ cd = EcOid) by (destruct c; encoder_is' Hce; split; reflexivity).
    destruct Hfl as [Hfl ->]. cbn [enc_content] in He.
    pose proof (oid_contents_is_enc_oid arcs) as Ho.
    destruct (enc_oid arcs) as [c1|] eqn:Eo; cbn [bind] in He; [|discriminate He]. injection He as <- <-.
    split; [exact Hfl|split; [discriminate|]]. intros Hl. rewrite base_enc_prim. cbn [abs base_tag tnum utag].
    apply reads_oid; [apply oid_value_oid_contents; exact Ho|exact Hl].
  - (* REAL *)
    assert (Hfl: ef_indef fl = false /\ (cd = EcRealBer \/ cd = EcRealCer))
      by (destruct c; encoder_is' Hce; split; auto).
    destruct Hfl as [Hfl Hcd].
    assert (He': (do b <- enc_real r; Ok (b, false)) = Ok (content, ic)) by (destruct Hcd as [-> | ->]; exact He).
    destruct (enc_real r) as [c1|] eqn:Er; cbn [bind] in He'; [|discriminate He']. injection He' as <- <-.
    split; [exact Hfl|split; [discriminate|]]. intros Hl. rewrite base_enc_prim. cbn [abs base_tag tnum utag].
    apply reads_real; [|exact Hl]. apply real_value_real_contents.
    destruct r as [| |m e|m e|].
    + cbn [enc_real] in Er. injection Er as <-. reflexivity.
    + cbn [enc_real] in Er. injection Er as <-. reflexivity.
    + assert (Hfit: real_exp_fits m e = true) by (apply enc_real_bin_ok_iff; exists c1; exact Er).
      rewrite (real_contents_is_enc_real_partial m e Hfit), Er. reflexivity.
    + cbn [der_ref_base] in Hd. cbn [enc_real real_contents] in *. rewrite Hd in *. injection Er as <-. reflexivity.
    + discriminate Er.
  - (* strings as octets *)
    destruct (string_encoder c n cd fl Hce) as [Hcd Hfl]. split; [exact Hfl|split; [reflexivity|]]. intros Hl.
    cbn [abs].
    assert (Hx: exists o', o_def o' = o_def oc /\ enc_octets_like o' (VOcts bo) = Ok (content, ic)).
    { destruct Hcd as [->|[->| ->]]; cbn [enc_content octets_of] in He.
      - exists oc. auto.
      - destruct (time_guard fl bo) as [[]|]; cbn [bind] in He; [|discriminate He]. eexists. split; [|exact He]. reflexivity.
      - destruct (time_guard fl bo) as [[]|]; cbn [bind] in He; [|discriminate He]. eexists. split; [|exact He]. reflexivity. }
    destruct Hx as (o' & Hdo & Hx). rewrite <- Hdo.
    apply (octets_like_reads (TStr n) n o' (VOcts bo) bo content ic); try assumption; try reflexivity.
    + intros p Hp. apply reads_str_prim. exact Hp.
    + intros indef ps H1 H2. apply reads_str_cons; assumption.
  - (* strings as characters *)
    destruct (string_encoder c n cd fl Hce) as [Hcd Hfl]. split; [exact Hfl|split; [reflexivity|]]. intros Hl.
    cbn [abs].
    assert (Hx: exists o', o_def o' = o_def oc /\ enc_octets_like o' (VChars cs) = Ok (content, ic)).
    { destruct Hcd as [->|[->| ->]]; cbn [enc_content octets_of] in He.
      - exists oc. auto.
      - destruct (time_guard fl (concat cs)) as [[]|]; cbn [bind] in He; [|discriminate He]. eexists. split; [|exact He]. reflexivity.
      - destruct (time_guard fl (concat cs)) as [[]|]; cbn [bind] in He; [|discriminate He]. eexists. split; [|exact He]. reflexivity. }
    destruct Hx as (o' & Hdo & Hx). rewrite <- Hdo.
    apply (octets_like_reads (TStr n) n o' (VChars cs) (concat cs) content ic); try assumption; try reflexivity.
    + intros p Hp. apply reads_str_prim. exact Hp.
    + intros indef ps H1 H2. apply reads_str_cons; assumption.
Qed.

(* ====================================================================== *)
(* 5. side conditions on the type                                           *)
(* ====================================================================== *)

(* no EXPLICIT tag in the stack of tags *)
Fixpoint no_exp (T: ty) : bool :=
  match T with TExp _ _ => false | TImp _ x => no_exp x | _ => true end.

(* outside finding F01: an EXPLICIT tag over a type whose encoder has no indefinite form *)
Definition no_f01 (T: ty) : bool := indef_base (base_of T) || no_exp T.

Lemma no_exp_single : forall T tb, tagset_of (base_of T) = Ok [tb] -> no_exp T = true ->
  forall ts, tagset_of T = Ok ts -> exists t, ts = [t].
Proof.
  induction T as [| | | | | | | | n|fs IH|fs IH|t IH|t IH|alts IH| |tg x IH|tg x IH] using ty_ind';
    intros tb Hb Hn ts Hts;
    try (cbn [base_of] in Hb; rewrite Hb in Hts; injection Hts as <-; exists tb; reflexivity).
  - cbn [tagset_of] in Hts. destruct (tagset_of x) as [ts'|] eqn:Ex; cbn [bind] in Hts; [|discriminate].
    injection Hts as <-. destruct (IH tb Hb Hn ts' eq_refl) as (t' & ->). eexists. reflexivity.
  - discriminate Hn.
Qed.

(* the innermost encoding under an indefinite wrapper does not carry the identifier 00 *)
Definition eoc_safe (T: ty) : bool :=
  match tagset_of T with
  | Ok (t0 :: _ :: _) => negb (cls_eqb (tcls t0) Univ && N.eqb (tnum t0) 0)
  | _ => true
  end.

Lemma eoc_safe_free T ts pc : eoc_safe T = true -> tagset_of T = Ok ts -> eoc_free ts pc.
Proof.
  unfold eoc_safe. intros H Hts. rewrite Hts in H. destruct ts as [|t0 [|t1 r]]; cbn [eoc_free]; auto.
  right. destruct (tcls t0) eqn:Ec; try (left; discriminate). right.
  cbn [cls_eqb andb] in H. destruct (N.eqb_spec (tnum t0) 0) as [E|E]; [discriminate H|exact E].
Qed.

Lemma wrap_step_length indef acc t : (length acc <= length (wrap_step indef acc t))%nat.
Proof.
  unfold wrap_step, ctlv. destruct indef.
  - rewrite !app_length. lia.
  - pose proof (tlv_length (tcls t) true (tnum t) acc). lia.
Qed.

Lemma fold_wrap_length indef : forall r inner, (length inner <= length (fold_left (wrap_step indef) r inner))%nat.
Proof.
  induction r as [|t r IH]; intros inner; [cbn; lia|].
  cbn [fold_left]. pose proof (IH (wrap_step indef inner t)). pose proof (wrap_step_length indef inner t). lia.
Qed.

Lemma base_enc_length B ic indef content : (length content <= length (base_enc B ic indef content))%nat.
Proof. unfold base_enc. destruct (ic && indef)%bool; rewrite !app_length; lia. Qed.

Lemma base_tag_univ B : tcls (base_tag B) = Univ.
Proof. destruct B; reflexivity. Qed.

(* ====================================================================== *)
(* 6. CER segmentation: full 1000-octet pieces and a last, non-empty one     *)
(* ====================================================================== *)

Lemma seg_ok_chunks {A} (g: list A -> bytes) (k: nat) : (0 < k)%nat ->
  (forall p, length p = k -> length (g p) = 1000%nat) ->
  (forall p, p <> [] -> (length p <= k)%nat -> (1 <= length (g p) <= 1000)%nat) ->
  forall f l, l <> [] -> (length l < f)%nat -> seg_ok (map g (chunks f k l)) = true.
Proof.
  intros Hk Hfull Hlast. induction f as [|f IH]; intros l Hne Hf; [lia|].
  rewrite (chunks_cons f k l Hne). cbn [map].
  destruct (skipn k l) as [|y rest] eqn:Es.
  - rewrite chunks_nil. cbn [map seg_ok].
    assert (Hall: firstn k l = l).
    { rewrite <- (firstn_skipn k l) at 2. rewrite Es, app_nil_r. reflexivity. }
    rewrite Hall.
    assert (Hle: (length l <= k)%nat).
    { destruct (Nat.le_gt_cases (length l) k) as [H|H]; [exact H|].
      assert (length (skipn k l) = length l - k)%nat by apply skipn_length. rewrite Es in H0. cbn [length] in H0. lia. }
    destruct (Hlast l Hne Hle) as [H1 H2].
    apply andb_true_iff. split; apply Nat.leb_le; assumption.
  - assert (Hlen: (k < length l)%nat).
    { destruct (Nat.lt_ge_cases k (length l)) as [H|H]; [exact H|].
      rewrite skipn_all2 in Es by exact H. discriminate Es. }
    assert (Hfl: length (firstn k l) = k) by (rewrite firstn_length; lia).
    assert (Hrec: seg_ok (map g (chunks f k (y :: rest))) = true).
    { apply IH; [discriminate|]. rewrite <- Es, skipn_length. lia. }
    destruct f as [|f']; [cbn [length] in Hf; lia|].
    rewrite (chunks_cons f' k (y :: rest)) in * by discriminate. cbn [map] in *.
    change (seg_ok (g (firstn k l) :: g (firstn k (y :: rest)) :: map g (chunks f' k (skipn k (y :: rest)))))
      with (Nat.eqb (length (g (firstn k l))) 1000 && seg_ok (g (firstn k (y :: rest)) :: map g (chunks f' k (skipn k (y :: rest)))))%bool.
    rewrite Hrec, (Hfull _ Hfl), Nat.eqb_refl. reflexivity.
Qed.

Print Assumptions string_encoder.
Print Assumptions leaf_reads.

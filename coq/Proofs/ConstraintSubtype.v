(* C14, the clauses about derived types and about value-producing operations:
   - a type derived by adding constraints admits a subset of its parent's values;
   - (with fixes/F14.diff) every ancestor recognises it as a subtype, so its values can be assigned
     where the ancestor is expected; before the repair this fails (concrete witness);
   - every value-producing operation of the scalar model returns an error or a value the result
     type's constraints accept. *)
From Coq Require Import Lia.
From PV Require Import Model.Constraint Spec.SetTheory Proofs.ConstraintInd Proofs.ConstraintDenote.
Local Open Scope Z_scope.

(* ---------- subset ---------- *)

Lemma denote_spec_add s new idx x :
  denote (sp_constr (sp_add s new)) idx x <-> denote (sp_constr s) idx x /\ denote new idx x.
Proof.
  unfold sp_constr, sp_add. cbn [sp_ops]. rewrite !denote_and, Forall_app. split.
  - intros [Ha Hn]. inversion Hn; subst. tauto.
  - intros [Ha Hn]. split; [exact Ha|constructor; [exact Hn|constructor]].
Qed.

Lemma subtype_step_spec T tg new T' :
  subtype_step T tg new = Ok T' ->
  st_spec T' = match new with Some c => sp_add (st_spec T) c | None => st_spec T end.
Proof.
  unfold subtype_step. destruct tg as [|t|t]; cbn [bind].
  - intros H; inversion H; reflexivity.
  - destruct (tag_explicitly (st_tags T) t); cbn [bind]; intros H; inversion H; reflexivity.
  - intros H; inversion H; reflexivity.
Qed.

Theorem step_subset T tg new T' x :
  subtype_step T tg new = Ok T' -> admits T' x -> admits T x.
Proof.
  intros Hs. unfold admits. rewrite (subtype_step_spec _ _ _ _ Hs).
  destruct new as [c|]; [|tauto]. rewrite denote_spec_add. tauto.
Qed.

Theorem derived_subset parent child :
  derives_any parent child -> forall x, admits child x -> admits parent x.
Proof.
  induction 1 as [T|T T1 T2 tg new Hd IH Hs]; intros x Hx; [exact Hx|].
  apply IH. eapply step_subset; eassumption.
Qed.

(* the same at the level of the evaluator, with no applicability hypothesis: whatever the derived
   type's constraints let through, the parent's let through *)
Lemma and_v_app_pass (a b: list verdict) : and_v (a ++ b) = Pass -> and_v a = Pass.
Proof.
  induction a as [|v a IH]; [reflexivity|]. cbn [app and_v]. destruct v; [exact IH|discriminate..].
Qed.

Lemma ceval_spec_nil idx x : ceval (CAnd []) idx x = Pass.
Proof. reflexivity. Qed.

Theorem step_accepts_subset s new idx x :
  ceval (sp_constr (sp_add s new)) idx x = Pass -> ceval (sp_constr s) idx x = Pass.
Proof.
  unfold sp_constr, sp_add. cbn [sp_ops]. destruct (sp_ops s) as [|c0 cs]; [reflexivity|].
  cbn [app]. rewrite !ceval_and. change (c0 :: cs ++ [new]) with ((c0 :: cs) ++ [new]).
  rewrite map_app. apply and_v_app_pass.
Qed.

(* ---------- recognised ---------- *)

Lemma shape_eqb_refl : forall a, shape_eqb a a = true.
Proof.
  induction a using shape_nested_ind; [apply sval_eqb_refl|].
  cbn [shape_eqb]. induction H as [|x l Hx Hl IH]; [reflexivity|].
  rewrite Hx. exact IH.
Qed.

Lemma in_vmap_In c vm : In c vm -> in_vmap c vm = true.
Proof.
  intros H. unfold in_vmap. apply existsb_exists. exists c. split; [exact H|apply shape_eqb_refl].
Qed.

Lemma tag_eqb_refl t : tag_eqb t t = true.
Proof. unfold tag_eqb. rewrite N.eqb_refl. destruct (tcls t); reflexivity. Qed.

Lemma is_prefix_refl ts : is_prefix_tags ts ts = true.
Proof. induction ts as [|t ts IH]; [reflexivity|]. cbn. rewrite tag_eqb_refl. exact IH. Qed.

Lemma is_prefix_app a b c : is_prefix_tags a b = true -> is_prefix_tags a (b ++ c) = true.
Proof.
  revert b. induction a as [|x a IH]; intros b H; [reflexivity|].
  destruct b as [|y b]; [discriminate|]. cbn in *. apply Bool.andb_true_iff in H.
  destruct H as [H1 H2]. rewrite H1. apply IH. exact H2.
Qed.

(* what a chain of derivations maintains about the constraints *)
Definition recorded (p c: cspec) : Prop :=
  c = p \/ truthy (sp_constr p) = false
  \/ (truthy (sp_constr c) = true /\ In (sp_constr p) (sp_vmap c)).

Lemma recorded_super p c : recorded p c -> spec_is_super p c = true.
Proof.
  unfold spec_is_super. intros [->|[H|[_ H]]].
  - unfold constr_py_eq. rewrite shape_eqb_refl. reflexivity.
  - rewrite H. cbn [negb]. rewrite Bool.orb_true_r. reflexivity.
  - rewrite (in_vmap_In _ _ H). apply Bool.orb_true_r.
Qed.

Lemma truthy_add s new : truthy (sp_constr (sp_add s new)) = true.
Proof. unfold sp_constr, sp_add. cbn [sp_ops truthy]. destruct (sp_ops s); reflexivity. Qed.

Lemma recorded_add p c new : recorded p c -> recorded p (sp_add c new).
Proof.
  intros [->|[H|[Ht H]]].
  - destruct (truthy (sp_constr p)) eqn:E; [|right; left; exact E].
    right; right. split; [apply truthy_add|].
    unfold sp_vmap at 1. apply in_or_app. right. unfold sp_add. cbn [sp_hist]. rewrite E.
    left. reflexivity.
  - right; left; exact H.
  - right; right. split; [apply truthy_add|].
    unfold sp_vmap at 1. apply in_or_app. right. unfold sp_add. cbn [sp_hist]. rewrite Ht.
    right. exact H.
Qed.

Lemma subtype_step_tags T tg new T' :
  subtype_step T tg new = Ok T' -> (tg = NoTag \/ exists t, tg = ExplicitTag t) ->
  exists ext, st_tags T' = st_tags T ++ ext.
Proof.
  unfold subtype_step. intros H [->|[t ->]]; cbn [bind] in H.
  - inversion H. exists []. cbn. rewrite app_nil_r. reflexivity.
  - unfold tag_explicitly in H. destruct (tcls t); cbn [bind] in H; inversion H; eexists; reflexivity.
Qed.

Theorem derived_recognised parent child :
  derives parent child -> type_is_super true true parent child = true.
Proof.
  intros Hd.
  assert (H: is_prefix_tags (st_tags parent) (st_tags child) = true
             /\ recorded (st_spec parent) (st_spec child)).
  { induction Hd as [T|T T1 T2 tg new Hd [IHt IHr] Htg Hs].
    - split; [apply is_prefix_refl|left; reflexivity].
    - split.
      + destruct (subtype_step_tags _ _ _ _ Hs Htg) as [ext ->]. apply is_prefix_app. exact IHt.
      + rewrite (subtype_step_spec _ _ _ _ Hs). destruct new as [c|]; [|exact IHr].
        apply recorded_add. exact IHr. }
  destruct H as [Ht Hr]. unfold type_is_super, is_super_tagset. cbn [negb orb].
  rewrite Ht, (recorded_super _ _ Hr). reflexivity.
Qed.

Corollary derived_assignable parent child : derives parent child -> assignable parent child = true.
Proof. exact (derived_recognised parent child). Qed.

(* before the repair: INTEGER (0..100) does not recognise INTEGER (0..100)(10..50) *)
Theorem unrepaired_not_recognised :
  exists p new, truthy (sp_constr p) = true /\ wf new = true
                /\ spec_is_super p (sp_add_unrepaired p new) = false
                /\ spec_is_super p (sp_add p new) = true.
Proof.
  exists (spec_of [CRange 0 100]), (CRange 10 50). vm_compute. repeat split.
Qed.

(* ---------- no way round the constructor ---------- *)

Theorem construct_checked T x v :
  construct T x = Ok v -> v = x /\ ceval (sp_constr (st_spec T)) None (VS v) = Pass.
Proof.
  unfold construct. destruct (ceval (sp_constr (st_spec T)) None (VS x)) eqn:E; intros H;
    inversion H; subst. split; [reflexivity|exact E].
Qed.

Theorem produce_checked T payload v :
  produce T payload = Ok v -> ceval (sp_constr (st_spec T)) None (VS v) = Pass.
Proof.
  unfold produce. destruct payload as [p|]; [|discriminate]. intros H.
  apply construct_checked in H. tauto.
Qed.

(* the result of an operation: an error, or a value that passed the result type's constraints *)
Definition checked_by (T: stype) (r: res sval) : Prop :=
  match r with Ok v => ceval (sp_constr (st_spec T)) None (VS v) = Pass | Err _ => True end.

Lemma checked_construct T x : checked_by T (construct T x).
Proof. unfold checked_by. destruct (construct T x) eqn:E; [apply construct_checked in E; tauto|exact I]. Qed.
Lemma checked_produce T p : checked_by T (produce T p).
Proof. destruct p; [apply checked_construct|exact I]. Qed.

Theorem operations_checked :
  (forall T v, checked_by T (op_clone T v))
  /\ (forall T s v, checked_by (mkSType (st_tags T) s) (op_clone_spec T s v))
  /\ (forall T tg new v,
        match subtype_step T tg new with
        | Ok T' => checked_by T' (op_subtype T tg new v) /\ checked_by T (op_subtype T tg new v)
        | Err _ => exists e, op_subtype T tg new v = Err e
        end)
  /\ (forall T op refl a b, checked_by T (op_int T op refl a b))
  /\ (forall T op a, checked_by T (op_int_unary T op a))
  /\ (forall T op s, checked_by T (op_seq T op s))
  /\ (forall T op s, checked_by T (op_bits T op s)).
Proof.
  repeat split.
  - intros. apply checked_construct.
  - intros. apply checked_construct.
  - intros T tg new v. unfold op_subtype. destruct (subtype_step T tg new) as [T'|e] eqn:Es; cbn [bind].
    + split; [apply checked_construct|].
      pose proof (checked_construct T' v) as Hc. unfold checked_by in *.
      destruct (construct T' v) as [v'|]; [|exact I].
      rewrite (subtype_step_spec _ _ _ _ Es) in Hc. destruct new as [c|]; [|exact Hc].
      apply (step_accepts_subset _ c). exact Hc.
    + exists e. reflexivity.
  - intros. apply checked_produce.
  - intros. apply checked_construct.
  - intros T op s. unfold op_seq. destruct s; try exact I; apply checked_produce.
  - intros T op s. unfold op_bits. destruct s; try exact I; apply checked_produce.
Qed.

(* combined with the denotation theorem: the payload of every value object an operation returns
   lies in the set its type's constraints denote *)
Theorem produced_in_denotation T payload v :
  wf (sp_constr (st_spec T)) = true -> typed (sp_constr (st_spec T)) None (VS v) = true ->
  produce T payload = Ok v -> admits T (VS v).
Proof.
  intros Hw Ht H. apply produce_checked in H. unfold admits.
  apply (ceval_iff_denote _ _ _ Hw Ht). exact H.
Qed.

(* ---------- where the implementation leaves the denotation ---------- *)

(* an empty operand or value list is read as "no constraint", not as the empty set *)
Theorem empty_list_is_no_constraint :
  ceval (COr []) None (VS (SInt 5)) = Pass /\ ~ denote (COr []) None (VS (SInt 5))
  /\ ceval (CSingle []) None (VS (SInt 5)) = Pass /\ ~ denote (CSingle []) None (VS (SInt 5)).
Proof.
  split; [reflexivity|]. split; [intros H; exact H|]. split; [reflexivity|].
  intros [s [_ H]]. exact H.
Qed.

(* finding F14c: a ContainedSubtypeConstraint with a plain value among its operands (the class
   docstring's own example) cannot decide a value that satisfies the included constraints *)
Theorem contained_plain_value_crashes :
  exists c x, wf c = true /\ denote c None x /\ ceval c None x = Crash AttributeError.
Proof.
  exists (CContained [CSingle [SInt 1; SInt 2; SInt 3; SInt 6]] [SInt 6; SInt 9; SInt 18] []),
         (VS (SInt 6)).
  split; [reflexivity|]. split; [|reflexivity].
  apply denote_contained. repeat split.
  - constructor; [|constructor]. exists (SInt 6). split; [reflexivity|]. cbn. tauto.
  - constructor.
  - right. exists (SInt 6). split; [reflexivity|]. cbn. tauto.
Qed.

(* a value range meets a payload that is not an int (REAL keeps (mantissa, base, exponent),
   finding F14b; here an OBJECT IDENTIFIER's tuple): TypeError instead of a decision *)
Theorem range_on_tuple_crashes :
  ceval (CRange 0 10) None (VS (SOid [1%N; 3%N])) = Crash TypeError.
Proof. reflexivity. Qed.

(* ---------- reading a record does not change what its constraints see ---------- *)

Theorem mapping_read_all r : mapping (read_all r) = mapping r.
Proof.
  unfold mapping, read_all. induction r as [|[k s] r IH]; [reflexivity|].
  cbn [map flat_map fst snd]. rewrite IH. destruct s; reflexivity.
Qed.

Theorem encoder_verdict_stable spec r : encoder_admits spec (read_all r) = encoder_admits spec r.
Proof. unfold encoder_admits. rewrite mapping_read_all. reflexivity. Qed.

(* finding F14d: before the repair a read turns an absent OPTIONAL component into a present one,
   so SIZE (3) / PRESENT constraints on a record with two components are satisfied after a read *)
Theorem unrepaired_read_bypasses :
  exists spec r,
    encoder_admits_unrepaired spec r = Fail
    /\ encoder_admits_unrepaired spec (read_all r) = Pass
    /\ encoder_admits spec (read_all r) = Fail.
Proof.
  exists (spec_of [CSize 3 3; CWith [(SText [98%N], CPresent)]]),
         [(SText [97%N], Assigned (SInt 3)); (SText [98%N], Unset); (SText [99%N], Assigned (SText [100%N]))].
  vm_compute. repeat split.
Qed.

(* Soundness facts about what the decoder model returns (C10). *)
From Coq Require Import Lia.
From PV Require Import Base.Bytes Model.Types Model.Proc Model.Enc Model.Dec Proofs.ProcBind.
Local Open Scope N_scope.

Section Sound.
  Variable rec : spec -> tagset -> option (option N) -> bool -> bool -> proc dval.
  Variable fuel : nat.

  Definition complete_record (T: ty) (fs: list (presence * ty)) (d: dval) : Prop :=
    exists vs, d = DV T (VRec vs) /\ (fs = [] \/ required_seen fs vs = true).

  Lemma finish_complete T fs vs s d s' :
    resume (if match fs with [] => true | _ => false end then Ret (DV T (VRec []))
            else if required_seen fs vs then Ret (DV T (VRec vs)) else Raise EMalformed) s = inr (Ok d, s') ->
    complete_record T fs d.
  Proof.
    destruct fs as [|f fs'].
    - cbn [resume]. intros H. inversion H; subst. exists []. split; [reflexivity|left; reflexivity].
    - destruct (required_seen (f :: fs') vs) eqn:E; cbn [resume]; intros H; [|discriminate].
      inversion H; subst. exists vs. split; [reflexivity|right; exact E].
  Qed.

  (* whatever a SEQUENCE/SET decoder returns has every mandatory member filled in *)
  Lemma record_loop_complete : forall T fs is_set len start n idx vs extra s d s',
    resume (record_loop rec fuel T fs is_set len start n idx vs extra) s = inr (Ok d, s') ->
    complete_record T fs d.
  Proof.
    intros T fs is_set len start n. induction n as [|n IH]; intros idx vs extra s d s' H.
    - cbn [record_loop resume] in H. discriminate.
    - cbn [record_loop] in H. cbv zeta in H.
      apply resume_pbind_inv in H. destruct H as (p & s1 & Hp & H).
      destruct (negb match len with Some l => N.of_nat (p - start) <? l | None => true end).
      + apply (finish_complete _ _ _ _ _ _ H).
      + match type of H with resume (match ?sp with _ => _ end) _ = _ => destruct sp as [sp'|] end; [|cbn [resume] in H; discriminate].
        apply resume_pbind_inv in H. destruct H as (d0 & s2 & Hd0 & H).
        destruct d0 as [Tc vc| |b| |].
        * destruct fs as [|f fs']; [cbn [resume] in H; discriminate|].
          destruct (negb is_set && Nat.leb (length (f :: fs')) idx)%bool; [cbn [resume] in H; discriminate|].
          apply resume_pbind_inv in H. destruct H as (i & s3 & Hi & H).
          destruct (Nat.leb (length (f :: fs')) i); [cbn [resume] in H; discriminate|].
          exact (IH _ _ _ _ _ _ H).
        * apply (finish_complete _ _ _ _ _ _ H).
        * destruct fs as [|f fs']; [cbn [resume] in H; discriminate|].
          match type of H with resume (if ?c then _ else _) _ = _ => destruct c end; [|cbn [resume] in H; discriminate].
          destruct (nth_error (f :: fs') idx) as [[p0 ft]|]; [|cbn [resume] in H; discriminate].
          destruct (is_any ft); [|cbn [resume] in H; discriminate].
          exact (IH _ _ _ _ _ _ H).
        * cbn [resume] in H; discriminate.
        * cbn [resume] in H; discriminate.
  Qed.

  Theorem dec_record_complete : forall T fs is_set len s d s',
    resume (dec_record rec fuel T fs is_set len) s = inr (Ok d, s') -> complete_record T fs d.
  Proof.
    intros T fs is_set len s d s' H. unfold dec_record in H. cbv zeta in H.
    apply resume_pbind_inv in H. destruct H as (st & s1 & _ & H).
    exact (record_loop_complete _ _ _ _ _ _ _ _ _ _ _ _ H).
  Qed.
End Sound.

(* whatever the dispatcher returns for a definite-length element consumed exactly that length *)
Lemma run_value_exact : forall (k: proc dval) (l: N) s v s',
  resume (let! p0 := tell in let! v := k in let! p1 := tell in
          if N.eqb (N.of_nat (p1 - p0)) l then Ret v else Raise EMalformed) s = inr (Ok v, s') ->
  exists s1, resume k s = inr (Ok v, s1) /\ N.of_nat (pos s1 - pos s) = l /\ s' = s1.
Proof.
  intros k l s v s' H. cbn [pbind tell resume] in H.
  apply resume_pbind_inv in H. destruct H as (v0 & s1 & Hk & H).
  cbn [pbind tell resume] in H.
  destruct (N.eqb_spec (N.of_nat (pos s1 - pos s)) l) as [E|E]; cbn [resume] in H; [|discriminate].
  inversion H; subst. exists s'. auto.
Qed.

(* Stage 3 of the round trip, part (c): CHOICE, untagged and tagged. *)
From Coq Require Import Lia Permutation.
From PV Require Import Base.Bytes Model.Tag Model.TableTypes Model.Types Model.Proc Model.Enc Model.Dec Gen.Tables
     Proofs.ProcBind Proofs.RunLemmas Proofs.TagOctets Proofs.TagAlgebra Proofs.DecHeader Proofs.DecFrame Proofs.DecPrim
     Proofs.TagsetShape Proofs.Schemaless Proofs.RoundTrip1 Proofs.RoundTrip2 Proofs.TagReject
     Proofs.RoundTrip3 Proofs.RoundTrip3a Proofs.RoundTrip3b.
Local Open Scope N_scope.

(* ---------- tag set of a tagged CHOICE / ANY ---------- *)

Definition untagged_base (T: ty) : bool := match base_of T with TChoice _ | TAny => true | _ => false end.
Definition is_wrapped (T: ty) : bool := match T with TImp _ _ | TExp _ _ => true | _ => false end.

Lemma tagset_shape_u srt ce : forall T, stage3_ty srt ce T = true -> untagged_base T = true -> is_wrapped T = true ->
  exists t0 r, tagset_of T = Ok (t0 :: r) /\ tcon t0 = true /\ Forall explicit_like (t0 :: r)
    /\ (S (length r) + ty_depth (base_of T) <= ty_depth T)%nat.
Proof.
  induction T as [| | | | | | | | n|fs IH|fs IH|t IH|t IH|alts IH| |tg x IH|tg x IH] using ty_ind';
    intros Hty Hub Hwr; try discriminate Hwr.
  - (* IMPLICIT: over a wrapped type *)
    cbn [stage3_ty] in Hty. apply Bool.andb_true_iff in Hty. destruct Hty as [Hty Hpt].
    apply Bool.andb_true_iff in Hty. destruct Hty as [Hn Hx].
    assert (Hnu: tcls tg <> Univ) by (unfold non_univ in Hn; destruct (tcls tg); try discriminate; cbn in Hn; congruence).
    assert (Hwx: is_wrapped x = true).
    { unfold untagged_base in Hub. cbn [base_of] in Hub. destruct x; try reflexivity; try discriminate Hpt; cbn [base_of] in Hub; discriminate Hub. }
    destruct (IH Hx Hub Hwx) as (t0 & r & Hts & Hc0 & Hex & Hd).
    cbn [tagset_of base_of]. rewrite Hts. cbn [bind]. inversion Hex as [|? ? Hex0 Hexr]; subst.
    destruct r as [|r1 r'].
    + exists (mkTag (tcls tg) (tcon t0) (tnum tg)), []. split; [reflexivity|]. split; [exact Hc0|]. split.
      * constructor; [|constructor]. split; [exact Hc0|exact Hnu].
      * cbn [ty_depth length] in *. lia.
    + destruct (tag_implicitly_cons t0 (r1 :: r') tg) as (r2 & E & Hl & Hf); [discriminate|].
      exists t0, r2. rewrite E. split; [reflexivity|]. split; [exact Hc0|]. split.
      * constructor; [exact Hex0|]. apply Hf; [exact Hexr|exact Hnu].
      * cbn [ty_depth]. lia.
  - (* EXPLICIT *)
    cbn [stage3_ty] in Hty. apply Bool.andb_true_iff in Hty. destruct Hty as [Hn Hx].
    assert (Hnu: tcls tg <> Univ) by (unfold non_univ in Hn; destruct (tcls tg); try discriminate; cbn in Hn; congruence).
    cbn [tagset_of base_of].
    destruct (is_wrapped x) eqn:Hwx.
    + destruct (IH Hx Hub eq_refl) as (t0 & r & Hts & Hc0 & Hex & Hd).
      rewrite Hts. cbn [bind]. unfold tag_explicitly.
      exists t0, (r ++ [mkTag (tcls tg) true (tnum tg)]).
      split; [destruct (tcls tg); try reflexivity; congruence|].
      split; [exact Hc0|]. split.
      * change (t0 :: r ++ [mkTag (tcls tg) true (tnum tg)]) with ((t0 :: r) ++ [mkTag (tcls tg) true (tnum tg)]).
        apply Forall_app. split; [exact Hex|]. constructor; [|constructor]. split; [reflexivity|exact Hnu].
      * rewrite app_length. cbn [length ty_depth]. lia.
    + (* directly over the CHOICE / ANY *)
      assert (Hx0: tagset_of x = Ok [] /\ base_of x = x).
      { unfold untagged_base in Hub. cbn [base_of] in Hub. destruct x; try discriminate Hwx; try discriminate Hub; split; reflexivity. }
      destruct Hx0 as [Hts Hbx]. rewrite Hts. cbn [bind]. unfold tag_explicitly. cbn [app].
      exists (mkTag (tcls tg) true (tnum tg)), [].
      split; [destruct (tcls tg); try reflexivity; congruence|].
      split; [reflexivity|]. split.
      * constructor; [|constructor]. split; [reflexivity|exact Hnu].
      * rewrite Hbx. cbn [length ty_depth]. lia.
Qed.

(* ---------- the model's local loops over the alternatives ---------- *)

Lemma enc_content_choice ce alts fl o i x :
  enc_content ce (TChoice alts) EcChoice fl o (VChoice i x) =
  match nth_error alts i with Some a => (do p <- encw ce a o x; Ok (p, true)) | None => Err EMalformed end.
Proof.
  cbn [enc_content]. revert i. induction alts as [|a r IH]; intros [|i]; try reflexivity. cbn [nth_error]. apply IH.
Qed.

Lemma abs_choice alts i x :
  abs (TChoice alts) (VChoice i x) = match nth_error alts i with Some a => AChoice i (abs a x) | None => ABad end.
Proof.
  assert (H: forall j k, (fix go (alts: list ty) (k: nat) : aval :=
                            match alts, k with
                            | a :: _, O => AChoice j (abs a x)
                            | _ :: r, S k' => go r k'
                            | [], _ => ABad
                            end) alts k = match nth_error alts k with Some a => AChoice j (abs a x) | None => ABad end).
  { intros j. induction alts as [|a r IH]; intros [|k]; try reflexivity. cbn [nth_error]. apply IH. }
  exact (H i i).
Qed.

Lemma depth_alt alts i a : nth_error alts i = Some a -> (S (ty_depth a) <= ty_depth (TChoice alts))%nat.
Proof.
  intros En. cbn [ty_depth]. pose proof (nth_error_In _ _ En) as Hin.
  assert (Hle: (ty_depth a <= fold_right (fun a0 acc => Nat.max (ty_depth a0) acc) 0%nat alts)%nat).
  { clear - Hin. induction alts as [|y r IH]; [destruct Hin|]. cbn [fold_right]. destruct Hin as [<-|Hin]; [lia|]. specialize (IH Hin). lia. }
  lia.
Qed.

Section Stage3c.
  Variables ce cd : codec.
  Hypothesis Hce : enc_ok ce.
  Variable R : aval -> aval -> Prop.
  Variable srt : bool.
  Hypothesis HR : rel_ok R srt.

  Lemma choice_codecs T' alts : base_of T' = TChoice alts ->
    (exists fl, concrete_encoder ce T' = Ok (EcChoice, fl) /\ ef_indef fl = true)
    /\ by_type cd T' = Some (DcChoice, mkDecFlags true (Some KChoice)).
  Proof.
    intros Hb. split.
    - rewrite concrete_encoder_base, Hb. destruct Hce as [E|E]; rewrite E; eexists; (split; [vm_compute; reflexivity|reflexivity]).
    - rewrite by_type_base, Hb. destruct cd; vm_compute; reflexivity.
  Qed.

  (* putting the decoded alternative in its place *)
  Lemma choice_place_ok f T' alts i a x x' : keys_ok (flat_map ckeys alts) = true -> nth_error alts i = Some a ->
    wire_tags a x <> [] -> wire_tags a x' = wire_tags a x -> (ty_depth a <= S f)%nat ->
    choice_place f T' alts (DV a x') = Ret (DV T' (VChoice i x')).
  Proof.
    intros HK En Hne Hw Hd. unfold choice_place.
    rewrite (effective_wire (S f) a x' Hd) by (rewrite Hw; exact Hne). rewrite Hw.
    rewrite (sib_pos alts HK i a (wire_tags a x) En (tm_mem_in _ _ (wire_in_ckeys a x Hne))). reflexivity.
  Qed.

  (* the untagged CHOICE: the value decoder is entered with the tags of the alternative already read *)
  Lemma choice_val_untagged (Pv: ty -> val -> Prop) alts :
    keys_ok (flat_map ckeys alts) = true ->
    Forall (fun a => forall x, Pv a x -> val_ok ce cd R a x) alts ->
    forall i x a, nth_error alts i = Some a -> Pv a x -> val_ok ce cd R (TChoice alts) (VChoice i x).
  Proof.
    intros HK IHa i x a En HPx b He Hmax.
    destruct (choice_codecs (TChoice alts) alts eq_refl) as [(fl & Hcenc & Hsi) Hby].
    destruct (enc_with_inv_g ce Hce _ _ b He) as (ec & fl' & ts & content & cns & Hcenc' & Hts & Hcont & Hfr).
    rewrite Hcenc in Hcenc'. inversion Hcenc'; subst ec fl'; clear Hcenc'.
    cbn [tagset_of] in Hts. inversion Hts; subst ts; clear Hts.
    rewrite enc_content_choice, En in Hcont.
    destruct (encw ce a def_opts x) as [p|e] eqn:Ep; cbn [bind] in Hcont; [|discriminate].
    inversion Hcont; subst content cns; clear Hcont. cbn [frame] in Hfr. inversion Hfr; subst p; clear Hfr.
    rewrite Forall_forall in IHa. pose proof (IHa a (nth_error_In _ _ En) x HPx) as Hva.
    destruct (Hva b Ep Hmax) as (t0 & r & content & si & x' & Hw & Hex & Hrd & Hfr & Hw' & HRx & dcd & dfl & Hbya & Hc).
    pose proof (depth_alt alts i a En) as Hda.
    exists t0, r, content, si, (VChoice i x').
    split; [rewrite wire_tags_choice, En; exact Hw|]. split; [exact Hex|]. split; [lia|]. split; [exact Hfr|].
    split; [rewrite wire_tags_choice, En; exact Hw'|].
    split; [rewrite !abs_choice, En; apply (r_choice _ _ HR); exact HRx|].
    exists DcChoice, (mkDecFlags true (Some KChoice)). split; [exact Hby|].
    intros f Hf. cbn [dec_value base_of]. unfold dec_choice.
    assert (Htag: tagset_eqb (tagset_of' (TChoice alts)) (t0 :: r) = false) by reflexivity.
    rewrite Htag.
    pose proof (frame_len_r _ _ _ _ _ _ Hfr) as Hlr.
    destruct f as [|f']; [lia|].
    intros s tl Hav.
    cbn [dec_call]. unfold dec_body. cbn [andb]. cbn [pbind resume].
    set (s0 := s).
    assert (Hav0: avail s0 = content ++ tl) by exact Hav.
    assert (Hwne: wire_tags a x <> []) by (rewrite Hw; discriminate).
    (* the tag map of the alternatives resolves the tags read *)
    unfold dispatch.
    rewrite (sib_hit true alts HK i a (t0 :: r) En) by (rewrite <- Hw; apply tm_mem_in, wire_in_ckeys; exact Hwne).
    cbn [lift pbind]. rewrite Hbya.
    destruct (Hc f' ltac:(lia) s0 tl Hav0) as (s1 & Hrun & Hpos & Harr & Hcl).
    assert (Hinner: resume (let! p0 := tell in
                            let! v := dec_value (dec_call cd f') f' dcd dfl (Some a) (t0 :: r) (Some (N.of_nat (length content))) false in
                            let! p1 := tell in
                            if N.eqb (N.of_nat (p1 - p0)) (N.of_nat (length content)) then Ret v else Raise EMalformed) s0
                    = inr (Ok (DV a x'), s1)).
    { rewrite resume_tell. rewrite (resume_pbind_done _ _ _ _ _ Hrun). rewrite resume_tell.
      rewrite Hpos. rewrite (Nat.add_comm (pos s0)), Nat.add_sub. rewrite N.eqb_refl. reflexivity. }
    rewrite (resume_pbind_done _ _ _ _ _ Hinner).
    rewrite (choice_place_ok (S f') (TChoice alts) alts i a x x' HK En Hwne ltac:(congruence) ltac:(lia)).
    cbn [resume]. exists s1. split; [reflexivity|]. repeat split; assumption.
  Qed.

  (* the tagged CHOICE: the contents are one complete encoding of an alternative, resolved by the tag map *)
  Lemma choice_val_tagged (Pv: ty -> val -> Prop) srt0 T' alts :
    base_of T' = TChoice alts -> is_wrapped T' = true -> stage3_ty srt0 ce T' = true ->
    keys_ok (flat_map ckeys alts) = true ->
    Forall (fun a => forall x, Pv a x -> val_ok ce cd R a x) alts ->
    forall i x a, nth_error alts i = Some a -> Pv a x -> val_ok ce cd R T' (VChoice i x).
  Proof.
    intros Hb Hwr Hty HK IHa i x a En HPx b He Hmax.
    assert (Hub: untagged_base T' = true) by (unfold untagged_base; rewrite Hb; reflexivity).
    destruct (tagset_shape_u srt0 ce T' Hty Hub Hwr) as (t0 & r & Hts & Hc0 & Hexall & Hd).
    inversion Hexall as [|? ? _ Hex]; subst.
    assert (Hnc: match T' with TChoice _ => False | _ => True end) by (destruct T'; try exact I; discriminate Hwr).
    destruct (choice_codecs T' alts Hb) as [(fl & Hcenc & Hsi) Hby].
    destruct (enc_with_inv_g ce Hce _ _ b He) as (ec & fl' & ts & content & cns & Hcenc' & Hts' & Hcont & Hfr).
    rewrite Hcenc in Hcenc'. inversion Hcenc'; subst ec fl'; clear Hcenc'.
    rewrite Hts in Hts'. inversion Hts'; subst ts; clear Hts'.
    rewrite enc_content_base, Hb, enc_content_choice, En in Hcont.
    destruct (encw ce a def_opts x) as [p|e] eqn:Ep; cbn [bind] in Hcont; [|discriminate].
    inversion Hcont; subst content cns; clear Hcont. rewrite Hsi in Hfr.
    pose proof (frame_len_r _ _ _ _ _ _ Hfr) as Hlr.
    rewrite Forall_forall in IHa. pose proof (IHa a (nth_error_In _ _ En) x HPx) as Hva.
    destruct (item_of_val ce cd R a x p Hva Ep ltac:(lia)) as (x' & HRx & Hwx & Hwne & Hit).
    destruct (Hit _ (resolves_sib true alts i a x HK En Hwne)) as [Hpl Hcons].
    pose proof (depth_alt alts i a En) as Hda. rewrite Hb in Hd.
    exists t0, r, p, true, (VChoice i x').
    split; [rewrite (wire_tags_plain T' _ Hnc); apply tagset_of'_ok; exact Hts|].
    split; [exact Hex|]. split; [lia|]. split; [rewrite Hc0; exact Hfr|].
    split; [rewrite (wire_tags_plain T' _ Hnc); apply tagset_of'_ok; exact Hts|].
    split.
    { rewrite (abs_wrappers T' (VChoice i x')), (abs_wrappers T' (VChoice i x)), Hb, !abs_choice, En.
      apply (r_choice _ _ HR). exact HRx. }
    exists DcChoice, (mkDecFlags true (Some KChoice)). split; [exact Hby|].
    intros f Hf. cbn [dec_value]. rewrite Hb. unfold dec_choice.
    rewrite (tagset_of'_ok T' _ Hts), tagset_eqb_refl.
    intros s tl Hav.
    destruct (Hcons f ltac:(unfold fuel_ok; lia) s tl Hav) as (s1 & Hrun & Hpos & Harr & Hcl).
    rewrite (resume_pbind_done _ _ _ _ _ Hrun).
    rewrite (choice_place_ok f T' alts i a x x' HK En Hwne Hwx ltac:(lia)).
    cbn [resume]. exists s1. split; [reflexivity|]. repeat split; assumption.
  Qed.
End Stage3c.

(* ---------- the induction over the type, with SET and ANY as parameters ---------- *)

Fixpoint frag (aset aany: bool) (T: ty) : bool :=
  match T with
  | TSet fs => aset && forallb (fun f => frag aset aany (snd f)) fs
  | TAny => aany
  | TChoice alts => forallb (frag aset aany) alts
  | TSeq fs => forallb (fun f => frag aset aany (snd f)) fs
  | TSeqOf t | TSetOf t => frag aset aany t
  | TImp _ x | TExp _ x => frag aset aany x
  | _ => true
  end.

Lemma frag_base aset aany : forall T, frag aset aany T = true -> frag aset aany (base_of T) = true.
Proof.
  induction T as [| | | | | | | | n|fs IH|fs IH|t IH|t IH|alts IH| |tg x IH|tg x IH] using ty_ind'; intros H; try exact H.
  - exact (IH H).
  - exact (IH H).
Qed.

Lemma unwrapped_base T : is_wrapped T = false -> base_of T = T.
Proof. destruct T; intros H; try reflexivity; discriminate H. Qed.

Lemma keys_not_any T : keys_ok (ckeys T) = true -> T <> TAny.
Proof. intros H ->. discriminate H. Qed.

Section Master.
  Variables ce cd : codec.
  Hypothesis Hce : enc_ok ce.
  Variable R : aval -> aval -> Prop.
  Variable srt : bool.
  Hypothesis HR : rel_ok R srt.
  Variables aset aany : bool.

  Definition Pv3 (t: ty) (x: val) : Prop := stage3_val ce cd t x = true.

  Hypothesis Hset : aset = true -> forall T' fs, base_of T' = TSet fs -> wf_tags T' = true ->
    keys_ok (flat_map ckeys (map snd fs)) = true ->
    Forall (comp_ok ce cd R Pv3) fs ->
    forall vs, comp_vals ce Pv3 fs vs -> val_ok ce cd R T' (VRec vs).
  Hypothesis Hany_item : aany = true -> forall v, stage3_val ce cd TAny v = true -> item_sty ce cd R TAny v.
  Hypothesis Hany_tagged : aany = true -> forall T', base_of T' = TAny -> is_wrapped T' = true ->
    stage3_ty srt ce T' = true -> forall v, stage3_val ce cd T' v = true -> val_ok ce cd R T' v.

  (* a type that guides the decoder directly: from the invariant, or the untagged ANY *)
  Lemma direct_item T' : (T' <> TAny -> forall v, Pv3 T' v -> val_ok ce cd R T' v) ->
    frag aset aany T' = true -> direct_ok T' = true -> forall v, Pv3 T' v -> item_sty ce cd R T' v.
  Proof.
    intros Hval Hfr Hdir v Hv. unfold direct_ok in Hdir. apply Bool.orb_true_iff in Hdir. destruct Hdir as [HK|Hany].
    - apply (item_sty_of_val ce cd R); [exact (Hval (keys_not_any T' HK) v Hv)|].
      apply resolves_sty; [exact HK|exact (wire_nonempty ce cd T' v HK Hv)].
    - destruct T'; try discriminate Hany. exact (Hany_item Hfr v Hv).
  Qed.

  Theorem stage3_val_ok : forall T T', base_of T' = base_of T -> stage3_ty srt ce T' = true -> frag aset aany T' = true ->
    T' <> TAny -> forall v, stage3_val ce cd T' v = true -> val_ok ce cd R T' v.
  Proof.
    induction T as [| | | | | | | | n|fs IH|fs IH|t IH|t IH|alts IH| |tg x IH|tg x IH] using ty_ind';
      intros T' Hb Hty Hfr Hnany v Hv; cbn [base_of] in Hb;
      destruct (stage3_ty_base srt ce T' Hty) as [Hw Htb]; pose proof (frag_base aset aany T' Hfr) as Hfb;
      try (assert (Hna: base_of T' <> TAny) by (rewrite Hb; discriminate));
      try (assert (Hp: prim_base T' = true) by (unfold prim_base; rewrite Hb; reflexivity);
           apply (prim_val ce cd Hce R srt HR T' v Hp Hw); rewrite (stage1_val_base ce cd T' v), Hb;
           rewrite (stage3_val_base ce cd T' v Hna), Hb in Hv; exact Hv).
    - (* SEQUENCE *)
      rewrite Hb in Htb, Hfb. cbn [stage3_ty] in Htb. cbn [frag] in Hfb.
      apply Bool.andb_true_iff in Htb. destruct Htb as [Hfs Hwf].
      rewrite (stage3_val_base ce cd T' v Hna), Hb in Hv. destruct v; try discriminate Hv.
      rewrite (stage3_val_rec ce cd (TSeq fs) fs fs0 (or_introl eq_refl)) in Hv.
      rewrite forallb_forall in Hfs, Hfb.
      apply (record_val ce cd Hce R srt HR Pv3 T' fs Hb Hw Hwf).
      + apply Forall_forall. intros f Hin. rewrite Forall_forall in IH.
        pose proof (Hfs f Hin) as Hf1. apply Bool.andb_true_iff in Hf1. destruct Hf1 as [Hf1 _].
        apply Bool.andb_true_iff in Hf1. destruct Hf1 as [Hfty Hdir].
        split; [intros Hnr; exact (seq_wf_nonreq_keys fs Hwf f Hin Hnr)|].
        intros x Hx. split.
        * intros HKf. exact (IH f Hin (snd f) eq_refl Hfty (Hfb f Hin) (keys_not_any _ HKf) x Hx).
        * intros Hreq. rewrite Hreq in Hdir. cbn [negb orb] in Hdir.
          apply (direct_item (snd f)); [|exact (Hfb f Hin)|exact Hdir|exact Hx].
          intros Hn y Hy. exact (IH f Hin (snd f) eq_refl Hfty (Hfb f Hin) Hn y Hy).
      + apply comp_vals_of_bool; [|exact Hv]. apply forallb_forall. intros f Hin.
        specialize (Hfs f Hin). apply Bool.andb_true_iff in Hfs. exact (proj2 Hfs).
    - (* SET *)
      rewrite Hb in Htb, Hfb. cbn [stage3_ty] in Htb. cbn [frag] in Hfb.
      apply Bool.andb_true_iff in Htb. destruct Htb as [Hfs HK].
      apply Bool.andb_true_iff in Hfb. destruct Hfb as [Haset Hfb].
      rewrite (stage3_val_base ce cd T' v Hna), Hb in Hv. destruct v; try discriminate Hv.
      rewrite (stage3_val_rec ce cd (TSet fs) fs fs0 (or_intror eq_refl)) in Hv.
      rewrite forallb_forall in Hfs, Hfb.
      apply (Hset Haset T' fs Hb Hw HK).
      + apply Forall_forall. intros f Hin. rewrite Forall_forall in IH.
        pose proof (Hfs f Hin) as Hf1. apply Bool.andb_true_iff in Hf1. destruct Hf1 as [Hfty _].
        assert (HKf: keys_ok (ckeys (snd f)) = true).
        { apply (keys_ok_sub (snd f) (map snd fs)); [apply in_map; exact Hin|exact HK]. }
        split; [intros _; exact HKf|]. intros x Hx.
        pose proof (IH f Hin (snd f) eq_refl Hfty (Hfb f Hin) (keys_not_any _ HKf) x Hx) as Hval.
        split; [intros _; exact Hval|]. intros _.
        apply (item_sty_of_val ce cd R); [exact Hval|].
        apply resolves_sty; [exact HKf|exact (wire_nonempty ce cd (snd f) x HKf Hx)].
      + apply comp_vals_of_bool; [|exact Hv]. apply forallb_forall. intros f Hin.
        specialize (Hfs f Hin). apply Bool.andb_true_iff in Hfs. exact (proj2 Hfs).
    - (* SEQUENCE OF *)
      rewrite Hb in Htb, Hfb. cbn [stage3_ty] in Htb. cbn [frag] in Hfb.
      apply Bool.andb_true_iff in Htb. destruct Htb as [Hty_t Hdir].
      rewrite (stage3_val_base ce cd T' v Hna), Hb in Hv. destruct v; try discriminate Hv. cbn [stage3_val] in Hv.
      apply (listof_val ce cd Hce R srt HR T' t (or_introl Hb) Hw); [intros E; rewrite Hb in E; discriminate|].
      apply Forall_forall. intros x Hin. rewrite forallb_forall in Hv.
      apply (direct_item t); [|exact Hfb|exact Hdir|exact (Hv x Hin)].
      intros Hn y Hy. exact (IH t eq_refl Hty_t Hfb Hn y Hy).
    - (* SET OF *)
      rewrite Hb in Htb, Hfb. cbn [stage3_ty] in Htb. cbn [frag] in Hfb.
      apply Bool.andb_true_iff in Htb. destruct Htb as [Htb Hsrt].
      apply Bool.andb_true_iff in Htb. destruct Htb as [Hty_t Hdir].
      rewrite (stage3_val_base ce cd T' v Hna), Hb in Hv. destruct v; try discriminate Hv. cbn [stage3_val] in Hv.
      apply (listof_val ce cd Hce R srt HR T' t (or_intror Hb) Hw).
      { intros _ Hs. rewrite Hs in Hsrt. cbn [negb] in Hsrt. rewrite Bool.orb_false_r in Hsrt. exact Hsrt. }
      apply Forall_forall. intros x Hin. rewrite forallb_forall in Hv.
      apply (direct_item t); [|exact Hfb|exact Hdir|exact (Hv x Hin)].
      intros Hn y Hy. exact (IH t eq_refl Hty_t Hfb Hn y Hy).
    - (* CHOICE *)
      rewrite Hb in Htb, Hfb. cbn [stage3_ty] in Htb. cbn [frag] in Hfb.
      apply Bool.andb_true_iff in Htb. destruct Htb as [Halts HK].
      rewrite (stage3_val_base ce cd T' v Hna), Hb in Hv. destruct v as [bb|z|bs|bo|cs| |arcs|r|vfs|xs|i x|ab]; try discriminate Hv.
      rewrite stage3_val_choice in Hv. destruct (nth_error alts i) as [a|] eqn:En; [|discriminate Hv].
      rewrite forallb_forall in Halts, Hfb.
      assert (IHa: Forall (fun a => forall x, Pv3 a x -> val_ok ce cd R a x) alts).
      { apply Forall_forall. intros a0 Hin y Hy. rewrite Forall_forall in IH.
        exact (IH a0 Hin a0 eq_refl (Halts a0 Hin) (Hfb a0 Hin) (keys_not_any _ (keys_ok_sub a0 alts Hin HK)) y Hy). }
      destruct (is_wrapped T') eqn:Hwr.
      + exact (choice_val_tagged ce cd Hce R srt HR Pv3 srt T' alts Hb Hwr Hty HK IHa i x a En Hv).
      + rewrite (unwrapped_base T' Hwr) in Hb. subst T'.
        exact (choice_val_untagged ce cd Hce R srt HR Pv3 alts HK IHa i x a En Hv).
    - (* ANY: tagged *)
      rewrite Hb in Hfb. cbn [frag] in Hfb.
      assert (Hwr: is_wrapped T' = true).
      { destruct T'; try reflexivity; try discriminate Hb. congruence. }
      exact (Hany_tagged Hfb T' Hb Hwr Hty v Hv).
    - exact (IH T' Hb Hty Hfr Hnany v Hv).
    - exact (IH T' Hb Hty Hfr Hnany v Hv).
  Qed.

  (* the keys of a type at the outermost level *)
  Lemma top_keys T : stage3_ty srt ce T = true -> T <> TAny -> keys_ok (ckeys T) = true.
  Proof.
    intros Hty Hn. destruct (stage3_ty_base srt ce T Hty) as [Hw _].
    destruct T; try (apply plain_keys; [exact Hw|reflexivity|reflexivity]).
    - (* CHOICE *) cbn [stage3_ty] in Hty. apply Bool.andb_true_iff in Hty. rewrite ckeys_choice. exact (proj2 Hty).
    - congruence.
    - (* IMPLICIT *)
      destruct (untagged_base (TImp t T)) eqn:Hub.
      + destruct (tagset_shape_u srt ce _ Hty Hub eq_refl) as (t0 & r & Hts & _).
        cbn [ckeys]. rewrite (tagset_of'_ok _ _ Hts). reflexivity.
      + apply plain_keys; [exact Hw| |reflexivity]. unfold untagged_base, tagged_base in *. destruct (base_of (TImp t T)); try reflexivity; discriminate Hub.
    - destruct (untagged_base (TExp t T)) eqn:Hub.
      + destruct (tagset_shape_u srt ce _ Hty Hub eq_refl) as (t0 & r & Hts & _).
        cbn [ckeys]. rewrite (tagset_of'_ok _ _ Hts). reflexivity.
      + apply plain_keys; [exact Hw| |reflexivity]. unfold untagged_base, tagged_base in *. destruct (base_of (TExp t T)); try reflexivity; discriminate Hub.
  Qed.

  Theorem stage3_decode : forall T v b tl,
    stage3_ty srt ce T = true -> frag aset aany T = true -> stage3_val ce cd T v = true ->
    encode ce true 0 T v = Ok b -> N.of_nat (length b) <= index_max ->
    exists v', decode cd (Some T) (b ++ tl) = Ok (DV T v', tl) /\ R (abs T v') (abs T v).
  Proof.
    intros T v b tl Hty Hfr Hv He Hmax.
    assert (Hdir: direct_ok T = true).
    { unfold direct_ok. destruct T; try (rewrite top_keys; [reflexivity|exact Hty|discriminate]). apply Bool.orb_true_r. }
    pose proof (direct_item T (fun Hn y Hy => stage3_val_ok T T eq_refl Hty Hfr Hn y Hy) Hfr Hdir v Hv) as Hit.
    destruct (Hit b He Hmax) as (v' & HRv & _ & Hc).
    exists v'. split; [|exact HRv]. unfold decode.
    assert (Hf: fuel_ok T b (dec_fuel (Some T) (b ++ tl))).
    { unfold fuel_ok, dec_fuel. rewrite app_length. lia. }
    pose proof (consumes_decode_with cd _ (Some T) b tl (DV T v') (Hc _ Hf)) as Hdw.
    unfold decode_with in Hdw. exact Hdw.
  Qed.
End Master.

(* Round trip, stage 3 (c): as (b), plus CHOICE - untagged or tagged, nested, as component, element or
   alternative - whose alternatives have keys (complete tag sets) none of which is a suffix of another *)
Theorem roundtrip_stage3c : forall ce cd T v b tl,
  enc_ok ce -> stage3_ty false ce T = true -> frag false false T = true -> stage3_val ce cd T v = true ->
  encode ce true 0 T v = Ok b -> N.of_nat (length b) <= index_max ->
  exists v', decode cd (Some T) (b ++ tl) = Ok (DV T v', tl) /\ abs T v' = abs T v.
Proof.
  intros ce cd T v b tl Hce Hty Hfr Hv He Hmax.
  apply (stage3_decode ce cd Hce eq false rel_ok_eq false false); try assumption; intros E; discriminate E.
Qed.

Print Assumptions roundtrip_stage3c.

(* the hypotheses are met: DER encoder, BER decoder;
   SEQUENCE { CHOICE { INTEGER, [0] EXPLICIT INTEGER, CHOICE { BOOLEAN, [1] IMPLICIT OCTET STRING } },
              CHOICE { NULL, [5] EXPLICIT SEQUENCE OF INTEGER } OPTIONAL,
              [7] EXPLICIT CHOICE { INTEGER, BOOLEAN } OPTIONAL,
              SEQUENCE OF CHOICE { INTEGER, [APPLICATION 2] IMPLICIT [3] EXPLICIT CHOICE { NULL, OCTET STRING } } } *)
Definition stage3c_example_ty : ty :=
  TSeq [ (Req, TChoice [TInt; TExp (mkTag Ctx false 0) TInt; TChoice [TBool; TImp (mkTag Ctx false 1) TOcts]]);
         (Opt, TChoice [TNull; TExp (mkTag Ctx false 5) (TSeqOf TInt)]);
         (Opt, TExp (mkTag Ctx false 7) (TChoice [TInt; TBool]));
         (Req, TSeqOf (TChoice [TInt; TImp (mkTag Appl false 2) (TExp (mkTag Ctx false 3) (TChoice [TNull; TOcts]))])) ].
Definition stage3c_example_val : val :=
  VRec [ Some (VChoice 2 (VChoice 1 (VOcts [9])));
         None;
         Some (VChoice 1 (VBool false));
         Some (VList [VChoice 0 (VInt 5); VChoice 1 (VChoice 1 (VOcts [1;2]))]) ].

Example roundtrip_stage3c_nonvacuous :
  stage3_ty false DER stage3c_example_ty = true /\ frag false false stage3c_example_ty = true
  /\ stage3_val DER BER stage3c_example_ty stage3c_example_val = true
  /\ encode DER true 0 stage3c_example_ty stage3c_example_val
     = Ok [48; 19; 129; 1; 9; 167; 3; 1; 1; 0; 48; 9; 2; 1; 5; 98; 4; 4; 2; 1; 2]
  /\ N.of_nat 21 <= index_max.
Proof. vm_compute. repeat split; try reflexivity; discriminate. Qed.

(* the condition on the keys is the one the decoder needs: with [0] EXPLICIT INTEGER and [0] IMPLICIT OCTET STRING as
   alternatives the key of the second is a suffix of the key of the first, and the first alternative is not decodable:
   its outer tag is taken for the (constructed) OCTET STRING *)
Example choice_suffix_clash :
  let T := TChoice [TExp (mkTag Ctx false 0) TInt; TImp (mkTag Ctx false 0) TOcts] in
  stage3_ty false BER T = false
  /\ encode BER true 0 T (VChoice 0 (VInt 5)) = Ok [160; 3; 2; 1; 5]
  /\ decode BER (Some T) [160; 3; 2; 1; 5] = Err EMalformed.
Proof. vm_compute. repeat split; reflexivity. Qed.

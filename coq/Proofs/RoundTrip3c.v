(* Stage 3 of the round trip, part (c): CHOICE, untagged and tagged. *)
From Coq Require Import Lia Permutation.
From PV Require Import Base.Bytes Model.Tag Model.TableTypes Model.Types Model.Proc Model.Enc Model.Dec Gen.Tables
     Proofs.ProcBind Proofs.RunLemmas Proofs.TagOctets Proofs.TagAlgebra Proofs.DecHeader Proofs.DecFrame Proofs.DecPrim
     Proofs.TagsetShape Proofs.Schemaless Proofs.RoundTrip1 Proofs.RoundTrip2 Proofs.TagReject
     Proofs.RoundTrip3 Proofs.RoundTrip3a Proofs.RoundTrip3b.
Local Open Scope N_scope.

(* ---------- tag set of a tagged CHOICE / ANY ---------- *)

Definition untagged_base (T: ty) : bool := match base_of T with TChoice _ | TAny => true | _ => false end.
Definition is_wrapped (T: ty) : bool := match T with TImp _ _ | TExp _ _ => true | _ => false end.

Lemma tagset_shape_u srt ce : forall T, stage3_ty srt ce T = true -> untagged_base T = true -> is_wrapped T = true ->
  exists t0 r, tagset_of T = Ok (t0 :: r) /\ tcon t0 = true /\ Forall explicit_like (t0 :: r)
    /\ (S (length r) + ty_depth (base_of T) <= ty_depth T)%nat.
Proof.
  induction T as [| | | | | | | | n|fs IH|fs IH|t IH|t IH|alts IH| |tg x IH|tg x IH] using ty_ind';
    intros Hty Hub Hwr; try discriminate Hwr.
  - (* IMPLICIT: over a wrapped type *)
    cbn [stage3_ty] in Hty. apply Bool.andb_true_iff in Hty. destruct Hty as [Hty Hpt].
    apply Bool.andb_true_iff in Hty. destruct Hty as [Hn Hx].
    assert (Hnu: tcls tg <> Univ) by (unfold non_univ in Hn; destruct (tcls tg); try discriminate; cbn in Hn; congruence).
    assert (Hwx: is_wrapped x = true).
    { unfold untagged_base in Hub. cbn [base_of] in Hub. destruct x; try reflexivity; try discriminate Hpt; cbn [base_of] in Hub; discriminate Hub. }
    destruct (IH Hx Hub Hwx) as (t0 & r & Hts & Hc0 & Hex & Hd).
    cbn [tagset_of base_of]. rewrite Hts. cbn [bind]. inversion Hex as [|? ? Hex0 Hexr]; subst.
    destruct r as [|r1 r'].
    + exists (mkTag (tcls tg) (tcon t0) (tnum tg)), []. split; [reflexivity|]. split; [exact Hc0|]. split.
      * constructor; [|constructor]. split; [exact Hc0|exact Hnu].
      * cbn [ty_depth length] in *. lia.
    + destruct (tag_implicitly_cons t0 (r1 :: r') tg) as (r2 & E & Hl & Hf); [discriminate|].
      exists t0, r2. rewrite E. split; [reflexivity|]. split; [exact Hc0|]. split.
      * constructor; [exact Hex0|]. apply Hf; [exact Hexr|exact Hnu].
      * cbn [ty_depth]. lia.
  - (* EXPLICIT *)
    cbn [stage3_ty] in Hty. apply Bool.andb_true_iff in Hty. destruct Hty as [Hn Hx].
    assert (Hnu: tcls tg <> Univ) by (unfold non_univ in Hn; destruct (tcls tg); try discriminate; cbn in Hn; congruence).
    cbn [tagset_of base_of].
    destruct (is_wrapped x) eqn:Hwx.
    + destruct (IH Hx Hub eq_refl) as (t0 & r & Hts & Hc0 & Hex & Hd).
      rewrite Hts. cbn [bind]. unfold tag_explicitly.
      exists t0, (r ++ [mkTag (tcls tg) true (tnum tg)]).
      split; [destruct (tcls tg); try reflexivity; congruence|].
      split; [exact Hc0|]. split.
      * change (t0 :: r ++ [mkTag (tcls tg) true (tnum tg)]) with ((t0 :: r) ++ [mkTag (tcls tg) true (tnum tg)]).
        apply Forall_app. split; [exact Hex|]. constructor; [|constructor]. split; [reflexivity|exact Hnu].
      * rewrite app_length. cbn [length ty_depth]. lia.
    + (* directly over the CHOICE / ANY *)
      assert (Hx0: tagset_of x = Ok [] /\ base_of x = x).
      { unfold untagged_base in Hub. cbn [base_of] in Hub. destruct x; try discriminate Hwx; try discriminate Hub; split; reflexivity. }
      destruct Hx0 as [Hts Hbx]. rewrite Hts. cbn [bind]. unfold tag_explicitly. cbn [app].
      exists (mkTag (tcls tg) true (tnum tg)), [].
      split; [destruct (tcls tg); try reflexivity; congruence|].
      split; [reflexivity|]. split.
      * constructor; [|constructor]. split; [reflexivity|exact Hnu].
      * rewrite Hbx. cbn [length ty_depth]. lia.
Qed.

(* ---------- the model's local loops over the alternatives ---------- *)

Lemma enc_content_choice ce alts fl o i x :
  enc_content ce (TChoice alts) EcChoice fl o (VChoice i x) =
  match nth_error alts i with Some a => (do p <- encw ce a o x; Ok (p, true)) | None => Err EMalformed end.
Proof.
  cbn [enc_content]. revert i. induction alts as [|a r IH]; intros [|i]; try reflexivity. cbn [nth_error]. apply IH.
Qed.

Lemma abs_choice alts i x :
  abs (TChoice alts) (VChoice i x) = match nth_error alts i with Some a => AChoice i (abs a x) | None => ABad end.
Proof.
  assert (H: forall j k, (fix go (alts: list ty) (k: nat) : aval :=
                            match alts, k with
                            | a :: _, O => AChoice j (abs a x)
                            | _ :: r, S k' => go r k'
                            | [], _ => ABad
                            end) alts k = match nth_error alts k with Some a => AChoice j (abs a x) | None => ABad end).
  { intros j. induction alts as [|a r IH]; intros [|k]; try reflexivity. cbn [nth_error]. apply IH. }
  exact (H i i).
Qed.

Lemma depth_alt alts i a : nth_error alts i = Some a -> (S (ty_depth a) <= ty_depth (TChoice alts))%nat.
Proof.
  intros En. cbn [ty_depth]. pose proof (nth_error_In _ _ En) as Hin.
  assert (Hle: (ty_depth a <= fold_right (fun a0 acc => Nat.max (ty_depth a0) acc) 0%nat alts)%nat).
  { clear - Hin. induction alts as [|y r IH]; [destruct Hin|]. cbn [fold_right]. destruct Hin as [<-|Hin]; [lia|]. specialize (IH Hin). lia. }
  lia.
Qed.

Section Stage3c.
  Variables ce cd : codec.
  Hypothesis Hce : enc_ok ce.
  Variable R : aval -> aval -> Prop.
  Variable srt : bool.
  Hypothesis HR : rel_ok R srt.

  Lemma choice_codecs T' alts : base_of T' = TChoice alts ->
    (exists fl, concrete_encoder ce T' = Ok (EcChoice, fl) /\ ef_indef fl = true)
    /\ by_type cd T' = Some (DcChoice, mkDecFlags true (Some KChoice)).
  Proof.
    intros Hb. split.
    - rewrite concrete_encoder_base, Hb. destruct Hce as [E|E]; rewrite E; eexists; (split; [vm_compute; reflexivity|reflexivity]).
    - rewrite by_type_base, Hb. destruct cd; vm_compute; reflexivity.
  Qed.

  (* putting the decoded alternative in its place *)
  Lemma choice_place_ok f T' alts i a x x' : keys_ok (flat_map ckeys alts) = true -> nth_error alts i = Some a ->
    wire_tags a x <> [] -> wire_tags a x' = wire_tags a x -> (ty_depth a <= S f)%nat ->
    choice_place f T' alts (DV a x') = Ret (DV T' (VChoice i x')).
  Proof.
    intros HK En Hne Hw Hd. unfold choice_place.
    rewrite (effective_wire (S f) a x' Hd) by (rewrite Hw; exact Hne). rewrite Hw.
    rewrite (sib_pos alts HK i a (wire_tags a x) En (tm_mem_in _ _ (wire_in_ckeys a x Hne))). reflexivity.
  Qed.

  (* the untagged CHOICE: the value decoder is entered with the tags of the alternative already read *)
  Lemma choice_val_untagged (Pv: ty -> val -> Prop) alts :
    keys_ok (flat_map ckeys alts) = true ->
    Forall (fun a => forall x, Pv a x -> val_ok ce cd R a x) alts ->
    forall i x a, nth_error alts i = Some a -> Pv a x -> val_ok ce cd R (TChoice alts) (VChoice i x).
  Proof.
    intros HK IHa i x a En HPx b He Hmax.
    destruct (choice_codecs (TChoice alts) alts eq_refl) as [(fl & Hcenc & Hsi) Hby].
    destruct (enc_with_inv_g ce Hce _ _ b He) as (ec & fl' & ts & content & cns & Hcenc' & Hts & Hcont & Hfr).
    rewrite Hcenc in Hcenc'. inversion Hcenc'; subst ec fl'; clear Hcenc'.
    cbn [tagset_of] in Hts. inversion Hts; subst ts; clear Hts.
    rewrite enc_content_choice, En in Hcont.
    destruct (encw ce a def_opts x) as [p|e] eqn:Ep; cbn [bind] in Hcont; [|discriminate].
    inversion Hcont; subst content cns; clear Hcont. cbn [frame] in Hfr. inversion Hfr; subst p; clear Hfr.
    rewrite Forall_forall in IHa. pose proof (IHa a (nth_error_In _ _ En) x HPx) as Hva.
    destruct (Hva b Ep Hmax) as (t0 & r & content & si & x' & Hw & Hex & Hrd & Hfr & Hw' & HRx & dcd & dfl & Hbya & Hc).
    pose proof (depth_alt alts i a En) as Hda.
    exists t0, r, content, si, (VChoice i x').
    split; [rewrite wire_tags_choice, En; exact Hw|]. split; [exact Hex|]. split; [lia|]. split; [exact Hfr|].
    split; [rewrite wire_tags_choice, En; exact Hw'|].
    split; [rewrite !abs_choice, En; apply (r_choice _ _ HR); exact HRx|].
    exists DcChoice, (mkDecFlags true (Some KChoice)). split; [exact Hby|].
    intros f Hf. cbn [dec_value base_of]. unfold dec_choice.
    assert (Htag: tagset_eqb (tagset_of' (TChoice alts)) (t0 :: r) = false) by reflexivity.
    rewrite Htag.
    pose proof (frame_len_r _ _ _ _ _ _ Hfr) as Hlr.
    destruct f as [|f']; [lia|].
    intros s tl Hav.
    cbn [dec_call]. unfold dec_body. cbn [andb]. cbn [pbind resume].
    set (s0 := setmark s (pos s)).
    assert (Hav0: avail s0 = content ++ tl) by exact Hav.
    assert (Hwne: wire_tags a x <> []) by (rewrite Hw; discriminate).
    (* the tag map of the alternatives resolves the tags read *)
    unfold dispatch.
    rewrite (sib_hit true alts HK i a (t0 :: r) En) by (rewrite <- Hw; apply tm_mem_in, wire_in_ckeys; exact Hwne).
    cbn [lift pbind]. rewrite Hbya.
    destruct (Hc f' ltac:(lia) s0 tl Hav0) as (s1 & Hrun & Hpos & Harr & Hcl).
    assert (Hinner: resume (let! p0 := tell in
                            let! v := dec_value (dec_call cd f') f' dcd dfl (Some a) (t0 :: r) (Some (N.of_nat (length content))) false in
                            let! p1 := tell in
                            if N.eqb (N.of_nat (p1 - p0)) (N.of_nat (length content)) then Ret v else Raise EMalformed) s0
                    = inr (Ok (DV a x'), s1)).
    { rewrite resume_tell. rewrite (resume_pbind_done _ _ _ _ _ Hrun). rewrite resume_tell.
      rewrite Hpos. rewrite (Nat.add_comm (pos s0)), Nat.add_sub. rewrite N.eqb_refl. reflexivity. }
    rewrite (resume_pbind_done _ _ _ _ _ Hinner).
    rewrite (choice_place_ok (S f') (TChoice alts) alts i a x x' HK En Hwne ltac:(congruence) ltac:(lia)).
    cbn [resume]. exists s1. split; [reflexivity|]. repeat split; assumption.
  Qed.

  (* the tagged CHOICE: the contents are one complete encoding of an alternative, resolved by the tag map *)
  Lemma choice_val_tagged (Pv: ty -> val -> Prop) srt0 T' alts :
    base_of T' = TChoice alts -> is_wrapped T' = true -> stage3_ty srt0 ce T' = true ->
    keys_ok (flat_map ckeys alts) = true ->
    Forall (fun a => forall x, Pv a x -> val_ok ce cd R a x) alts ->
    forall i x a, nth_error alts i = Some a -> Pv a x -> val_ok ce cd R T' (VChoice i x).
  Proof.
    intros Hb Hwr Hty HK IHa i x a En HPx b He Hmax.
    assert (Hub: untagged_base T' = true) by (unfold untagged_base; rewrite Hb; reflexivity).
    destruct (tagset_shape_u srt0 ce T' Hty Hub Hwr) as (t0 & r & Hts & Hc0 & Hexall & Hd).
    inversion Hexall as [|? ? _ Hex]; subst.
    assert (Hnc: match T' with TChoice _ => False | _ => True end) by (destruct T'; try exact I; discriminate Hwr).
    destruct (choice_codecs T' alts Hb) as [(fl & Hcenc & Hsi) Hby].
    destruct (enc_with_inv_g ce Hce _ _ b He) as (ec & fl' & ts & content & cns & Hcenc' & Hts' & Hcont & Hfr).
    rewrite Hcenc in Hcenc'. inversion Hcenc'; subst ec fl'; clear Hcenc'.
    rewrite Hts in Hts'. inversion Hts'; subst ts; clear Hts'.
    rewrite enc_content_base, Hb, enc_content_choice, En in Hcont.
    destruct (encw ce a def_opts x) as [p|e] eqn:Ep; cbn [bind] in Hcont; [|discriminate].
    inversion Hcont; subst content cns; clear Hcont. rewrite Hsi in Hfr.
    pose proof (frame_len_r _ _ _ _ _ _ Hfr) as Hlr.
    rewrite Forall_forall in IHa. pose proof (IHa a (nth_error_In _ _ En) x HPx) as Hva.
    destruct (item_of_val ce cd R a x p Hva Ep ltac:(lia)) as (x' & HRx & Hwx & Hwne & Hit).
    destruct (Hit _ (resolves_sib true alts i a x HK En Hwne)) as [Hpl Hcons].
    pose proof (depth_alt alts i a En) as Hda. rewrite Hb in Hd.
    exists t0, r, p, true, (VChoice i x').
    split; [rewrite (wire_tags_plain T' _ Hnc); apply tagset_of'_ok; exact Hts|].
    split; [exact Hex|]. split; [lia|]. split; [rewrite Hc0; exact Hfr|].
    split; [rewrite (wire_tags_plain T' _ Hnc); apply tagset_of'_ok; exact Hts|].
    split.
    { rewrite (abs_wrappers T' (VChoice i x')), (abs_wrappers T' (VChoice i x)), Hb, !abs_choice, En.
      apply (r_choice _ _ HR). exact HRx. }
    exists DcChoice, (mkDecFlags true (Some KChoice)). split; [exact Hby|].
    intros f Hf. cbn [dec_value]. rewrite Hb. unfold dec_choice.
    rewrite (tagset_of'_ok T' _ Hts), tagset_eqb_refl.
    intros s tl Hav.
    destruct (Hcons f ltac:(unfold fuel_ok; lia) s tl Hav) as (s1 & Hrun & Hpos & Harr & Hcl).
    rewrite (resume_pbind_done _ _ _ _ _ Hrun).
    rewrite (choice_place_ok f T' alts i a x x' HK En Hwne Hwx ltac:(lia)).
    cbn [resume]. exists s1. split; [reflexivity|]. repeat split; assumption.
  Qed.
End Stage3c.

(* Stage 3 of the round trip, part (b): SEQUENCE with OPTIONAL and DEFAULT components. *)
From Coq Require Import Lia Permutation.
From PV Require Import Base.Bytes Model.Tag Model.TableTypes Model.Types Model.Proc Model.Enc Model.Dec Gen.Tables
     Proofs.ProcBind Proofs.RunLemmas Proofs.TagOctets Proofs.TagAlgebra Proofs.DecHeader Proofs.DecFrame Proofs.DecPrim
     Proofs.TagsetShape Proofs.Schemaless Proofs.RoundTrip1 Proofs.RoundTrip2 Proofs.TagReject Proofs.RoundTrip3 Proofs.RoundTrip3a.
Local Open Scope N_scope.

(* ---------- wire tags, keys, effective tag set ---------- *)

Lemma wire_tags_choice alts i x :
  wire_tags (TChoice alts) (VChoice i x) = match nth_error alts i with Some a => wire_tags a x | None => [] end.
Proof.
  cbn [wire_tags]. revert i. induction alts as [|a r IH]; intros [|i]; try reflexivity. cbn [nth_error]. apply IH.
Qed.

Lemma wire_in_ckeys : forall T v, wire_tags T v <> [] -> In (wire_tags T v) (ckeys T).
Proof.
  induction T as [| | | | | | | | n|fs IH|fs IH|t IH|t IH|alts IH| |tg x IH|tg x IH] using ty_ind'; intros v Hne;
    try (left; reflexivity).
  - (* CHOICE *)
    destruct v as [bb|z|bs|bo|cs| |arcs|r|vfs|xs|i x|ab]; try (exfalso; apply Hne; reflexivity).
    rewrite wire_tags_choice in *. rewrite ckeys_choice.
    destruct (nth_error alts i) as [a|] eqn:En; [|exfalso; apply Hne; reflexivity].
    apply in_flat_map. exists a. split; [eapply nth_error_In; exact En|].
    rewrite Forall_forall in IH. apply (IH a (nth_error_In _ _ En)). exact Hne.
Qed.

Lemma effective_wire : forall f T v, (ty_depth T <= f)%nat -> wire_tags T v <> [] -> effective_tagset f T v = wire_tags T v.
Proof.
  induction f as [|f IHf]; intros T v Hd Hne.
  - destruct T; cbn [ty_depth] in Hd; lia.
  - destruct T; try reflexivity.
    destruct v as [bb|z|bs|bo|cs| |arcs|r|vfs|xs|i x|ab]; try reflexivity.
    cbn [effective_tagset]. rewrite wire_tags_choice in *.
    destruct (nth_error alts i) as [a|] eqn:En; [|exfalso; apply Hne; reflexivity].
    rewrite (nth_error_nth _ _ TNull En). apply IHf; [|exact Hne].
    cbn [ty_depth] in Hd. pose proof (nth_error_In _ _ En) as Hin.
    assert (Hle: (ty_depth a <= fold_right (fun a0 acc => Nat.max (ty_depth a0) acc) 0%nat alts)%nat).
    { clear - Hin. induction alts as [|y r IH]; [destruct Hin|]. cbn [fold_right]. destruct Hin as [<-|Hin]; [lia|]. specialize (IH Hin). lia. }
    lia.
Qed.

(* ---------- how the specifications met by components resolve ---------- *)

(* a type guiding the decoder directly: every type whose keys are good (that excludes the untagged ANY) *)
Lemma resolves_sty T v : keys_ok (ckeys T) = true -> wire_tags T v <> [] -> resolves (STy T) T v.
Proof.
  intros HK Hne.
  pose proof (wire_in_ckeys T v Hne) as Hin.
  destruct (tagmap_good T HK) as (Hp & Hd & Hm).
  split.
  - cbn [sp_hit]. split; [reflexivity|]. split; [|exact Hp].
    apply Bool.orb_true_iff. right. unfold tm_contains.
    specialize (Hm (wire_tags T v)). rewrite (tm_mem_in _ _ Hin) in Hm. unfold mkeys in Hm. rewrite <- find_mem in Hm.
    unfold tm_find. destruct (assoc tagset_eqb (wire_tags T v) (tm_present (tagmap_of T))); [reflexivity|discriminate].
  - intros r1 r2 Hr Hne2. cbn [sp_miss].
    destruct (wire_tags T v) as [|t0 r] eqn:Ew; [congruence|]. cbn [tl] in Hr.
    assert (Hnk: tm_mem r2 (ckeys T) = false).
    { apply (suffix_not_key _ (t0 :: r) (t0 :: r1) r2 HK Hin); [rewrite Hr; reflexivity|discriminate|exact Hne2]. }
    split.
    + destruct (tagset_eqb r2 (tagset_of' T)) eqn:E; [|reflexivity]. exfalso.
      (* the type's own tag set is a key unless the type is an untagged CHOICE, whose tag set is empty *)
      destruct T; try (cbn [ckeys] in Hnk; unfold tm_mem in Hnk; cbn [existsb] in Hnk; rewrite E in Hnk; discriminate Hnk).
      * apply tagset_eqb_length in E. cbn in E. destruct r2; [congruence|discriminate].
      * discriminate HK.
    + unfold tm_contains. rewrite Hd.
      specialize (Hm r2). rewrite Hnk in Hm. unfold mkeys in Hm. rewrite <- find_mem in Hm.
      unfold tm_find. destruct (assoc tagset_eqb r2 (tm_present (tagmap_of T))); [discriminate|reflexivity].
Qed.

(* the tag map of a list of siblings with good keys *)
Lemma resolves_sib u l i A v : keys_ok (flat_map ckeys l) = true -> nth_error l i = Some A -> wire_tags A v <> [] ->
  resolves (SMap (fields_tagmap u l)) A v.
Proof.
  intros HK Hn Hne. pose proof (wire_in_ckeys A v Hne) as Hin. split.
  - cbn [sp_hit]. apply (sib_hit u l HK i A _ Hn). apply tm_mem_in. exact Hin.
  - intros r1 r2 Hr Hne2. cbn [sp_miss].
    destruct (wire_tags A v) as [|t0 r] eqn:Ew; [congruence|]. cbn [tl] in Hr.
    apply (sib_suffix_miss u l HK A (t0 :: r) (t0 :: r1) r2 (nth_error_In _ _ Hn) Hin); [rewrite Hr; reflexivity|discriminate|exact Hne2].
Qed.

(* ---------- well-formedness of a SEQUENCE: every run of OPTIONAL/DEFAULT components together with
   the mandatory component that ends it has good keys ---------- *)

Fixpoint seq_wf (fs: list (presence * ty)) : bool :=
  match fs with
  | [] => true
  | (p, t) :: r => (is_req p || keys_ok (flat_map ckeys (ambiguous_run fs))) && seq_wf r
  end.

Lemma seq_wf_app a : forall b, seq_wf (a ++ b) = true -> seq_wf b = true.
Proof.
  induction a as [|[p t] a IH]; intros b H; [exact H|].
  cbn [app seq_wf] in H. apply Bool.andb_true_iff in H. apply IH. exact (proj2 H).
Qed.

Lemma seq_wf_head p t r : seq_wf ((p, t) :: r) = true -> is_req p = false ->
  keys_ok (flat_map ckeys (ambiguous_run ((p, t) :: r))) = true.
Proof.
  intros H Hp. cbn [seq_wf] in H. apply Bool.andb_true_iff in H. destruct H as [H _]. rewrite Hp in H. exact H.
Qed.

Definition nonreq (f: presence * ty) : Prop := is_req (fst f) = false.

Lemma ambiguous_run_skipped sk rest : Forall nonreq sk -> ambiguous_run (sk ++ rest) = map snd sk ++ ambiguous_run rest.
Proof.
  induction 1 as [|[p t] sk Hp _ IH]; [reflexivity|]. unfold nonreq in Hp. cbn [fst] in Hp.
  cbn [app ambiguous_run map snd]. destruct p; [discriminate Hp| |]; rewrite IH; reflexivity.
Qed.

Lemma ambiguous_run_head p ft rest : exists r, ambiguous_run ((p, ft) :: rest) = ft :: r.
Proof. destruct p; eexists; reflexivity. Qed.

Lemma required_seen_app fs1 vs1 fs2 vs2 : length vs1 = length fs1 ->
  required_seen (fs1 ++ fs2) (vs1 ++ vs2) = (required_seen fs1 vs1 && required_seen fs2 vs2)%bool.
Proof.
  intros Hl. unfold required_seen.
  assert (Hc: combine (fs1 ++ fs2) (vs1 ++ vs2) = combine fs1 vs1 ++ combine fs2 vs2).
  { revert vs1 Hl. induction fs1 as [|f fs1 IH]; intros [|v vs1] Hl; try discriminate; [reflexivity|].
    cbn [app combine]. rewrite IH by (cbn [length] in Hl; lia). reflexivity. }
  rewrite Hc. apply forallb_app.
Qed.

Lemma required_seen_nonreq sk : Forall nonreq sk -> required_seen sk (map (fun _ => None) sk) = true.
Proof.
  induction 1 as [|[p t] sk Hp _ IH]; [reflexivity|]. unfold nonreq in Hp. cbn [fst] in Hp.
  unfold required_seen in *. cbn [map combine forallb fst snd]. rewrite IH. destruct p; [discriminate Hp|reflexivity|reflexivity].
Qed.

Lemma skipn_app_length {X} (a b: list X) : skipn (length a) (a ++ b) = b.
Proof. induction a as [|x a IH]; [reflexivity|]. cbn [length app skipn]. exact IH. Qed.

Lemma forallb_req_false (fs: list (presence * ty)) f : In f fs -> is_req (fst f) = false -> forallb (fun f => is_req (fst f)) fs = false.
Proof.
  intros Hin Hf. destruct (forallb (fun f0 => is_req (fst f0)) fs) eqn:E; [|reflexivity].
  rewrite forallb_forall in E. rewrite (E f Hin) in Hf. discriminate.
Qed.

Section RecordLoopOpt.
  Variable rec : spec -> tagset -> option (option N) -> bool -> bool -> proc dval.
  Variable lf : nat.

  (* which components were written, their encodings, and what they decode to *)
  Inductive fplan : list (presence * ty) -> list (option val) -> list bytes -> list (option val) -> Prop :=
  | fp_nil : fplan [] [] [] []
  | fp_skip p ft fs ov vs ps ds : is_req p = false -> fplan fs vs ps ds -> fplan ((p, ft) :: fs) (ov :: vs) ps (None :: ds)
  | fp_emit p ft fs x vs pb x' ps ds :
      (0 < length pb)%nat ->
      (is_req p = true -> consumes (rec (STy ft) [] None false false) pb (DV ft x')) ->
      (keys_ok (ckeys ft) = true ->
         (forall sp, resolves sp ft x -> consumes (rec sp [] None false false) pb (DV ft x'))
         /\ effective_tagset (S lf) ft x' = wire_tags ft x /\ wire_tags ft x <> []) ->
      fplan fs vs ps ds -> fplan ((p, ft) :: fs) (Some x :: vs) (pb :: ps) (Some x' :: ds).

  Lemma fplan_lengths fs vs ps ds : fplan fs vs ps ds -> length ds = length fs /\ (length ps <= length (concat ps))%nat.
  Proof.
    induction 1 as [|p ft fs ov vs ps ds Hp _ [IH1 IH2]|p ft fs x vs pb x' ps ds Hl _ _ _ [IH1 IH2]].
    - split; [reflexivity|cbn; lia].
    - split; [cbn [length]; lia|exact IH2].
    - split; [cbn [length]; lia|]. cbn [length concat]. rewrite app_length. lia.
  Qed.

  Local Notation nones fs := (map (fun _ : presence * ty => @None val) fs).

  Lemma nones_length (fs: list (presence * ty)) : length (nones fs) = length fs. Proof. apply map_length. Qed.
  Lemma nones_app (a b: list (presence * ty)) : nones (a ++ b) = nones a ++ nones b. Proof. apply map_app. Qed.

  Lemma record_loop_opt T fs :
    (match fs with [] => true | _ => false end) = false -> seq_wf fs = true ->
    forall todo vtodo parts ds, fplan todo vtodo parts ds ->
    forall done skipped vdone n start total s tl,
      fs = done ++ skipped ++ todo -> length vdone = length done ->
      Forall nonreq skipped ->
      required_seen done vdone = true ->
      (length parts < n)%nat ->
      avail s = concat parts ++ tl ->
      (start <= pos s)%nat ->
      (pos s - start + length (concat parts) = total)%nat ->
      exists s', resume (record_loop rec lf T fs false (Some (N.of_nat total)) start n (length done)
                                     (vdone ++ nones skipped ++ nones todo) 0%nat) s
                 = inr (Ok (DV T (VRec (vdone ++ nones skipped ++ ds))), s')
        /\ pos s' = (pos s + length (concat parts))%nat /\ arrived s' = arrived s /\ closed s' = closed s.
  Proof.
    intros Hne Hwf todo vtodo parts ds HP.
    induction HP as [|p ft todo ov vtodo parts ds Hp HP IH|p ft todo x vtodo pb x' parts ds Hpl Hreq Hkeys HP IH];
      intros done skipped vdone n start total s tl Hfs Hvd Hsk Hseen Hn Hav Hst Htot.
    - (* nothing more was written *)
      destruct n as [|n']; [cbn [length] in Hn; lia|].
      cbn [record_loop]. cbv zeta. rewrite resume_tell.
      cbn [concat length] in Htot.
      destruct (N.ltb_spec (N.of_nat (pos s - start)) (N.of_nat total)) as [Hlt|_]; [lia|].
      cbn [negb]. rewrite Hne.
      assert (Hrs: required_seen fs (vdone ++ nones skipped ++ nones []) = true).
      { rewrite Hfs, app_nil_r. cbn [map]. rewrite app_nil_r.
        rewrite required_seen_app by exact Hvd. rewrite Hseen. cbn [andb]. apply required_seen_nonreq. exact Hsk. }
      rewrite Hrs. cbn [resume]. exists s. cbn [concat length map]. repeat split. lia.
    - (* a component that was not written: it joins the run the decoder will skip *)
      assert (Hfs': fs = done ++ (skipped ++ [(p, ft)]) ++ todo) by (rewrite <- app_assoc; exact Hfs).
      assert (Hsk': Forall nonreq (skipped ++ [(p, ft)])).
      { apply Forall_app. split; [exact Hsk|]. constructor; [exact Hp|constructor]. }
      destruct (IH done (skipped ++ [(p, ft)]) vdone n start total s tl Hfs' Hvd Hsk' Hseen Hn Hav Hst Htot) as (s' & Hrun & Hrest).
      exists s'. split; [|exact Hrest].
      rewrite nones_app in Hrun. cbn [map] in Hrun. rewrite <- !app_assoc in Hrun. cbn [app] in Hrun.
      cbn [map]. exact Hrun.
    - (* a component that was written *)
      destruct n as [|n']; [cbn [length] in Hn; lia|].
      cbn [record_loop]. cbv zeta. rewrite resume_tell.
      cbn [concat] in Htot, Hav. rewrite app_length in Htot.
      destruct (N.ltb_spec (N.of_nat (pos s - start)) (N.of_nat total)) as [_|Hge]; [|lia].
      cbn [negb andb]. rewrite Hne.
      rewrite <- app_assoc in Hav.
      set (det := forallb (fun f => is_req (fst f)) fs).
      set (i := (length done + length skipped)%nat).
      assert (Hidx: Nat.leb (length fs) (length done) = false).
      { apply Nat.leb_gt. rewrite Hfs, !app_length. cbn [length]. lia. }
      assert (Hileb: Nat.leb (length fs) i = false).
      { apply Nat.leb_gt. subst i. rewrite Hfs, !app_length. cbn [length]. lia. }
      assert (Hsetnth: set_nth i (Some x') (vdone ++ nones skipped ++ nones ((p, ft) :: todo))
                       = (vdone ++ nones skipped) ++ Some x' :: nones todo).
      { rewrite app_assoc. cbn [map]. subst i. rewrite <- Hvd, <- (nones_length skipped), <- app_length.
        apply set_nth_app. }
      (* the remainder of the loop, once the component is known to land at position i *)
      assert (Hcont: forall s1, avail s1 = concat parts ++ tl -> pos s1 = (pos s + length pb)%nat ->
                 arrived s1 = arrived s -> closed s1 = closed s ->
                 exists s', resume (record_loop rec lf T fs false (Some (N.of_nat total)) start n' (S i)
                                       ((vdone ++ nones skipped) ++ Some x' :: nones todo) 0%nat) s1
                   = inr (Ok (DV T (VRec (vdone ++ nones skipped ++ Some x' :: ds))), s')
                   /\ pos s' = (pos s + length (pb ++ concat parts))%nat /\ arrived s' = arrived s /\ closed s' = closed s).
      { intros s1 Hav1 Hpos1 Harr1 Hcl1.
        assert (Hfs': fs = (done ++ skipped ++ [(p, ft)]) ++ [] ++ todo).
        { rewrite Hfs. rewrite <- !app_assoc. reflexivity. }
        assert (Hvd': length (vdone ++ nones skipped ++ [Some x']) = length (done ++ skipped ++ [(p, ft)])).
        { rewrite !app_length, nones_length. cbn [length]. lia. }
        assert (Hseen': required_seen (done ++ skipped ++ [(p, ft)]) (vdone ++ nones skipped ++ [Some x']) = true).
        { rewrite required_seen_app by exact Hvd. rewrite Hseen. cbn [andb].
          rewrite required_seen_app by apply nones_length. rewrite (required_seen_nonreq skipped Hsk). cbn [andb].
          unfold required_seen. cbn [combine forallb fst snd]. destruct p; reflexivity. }
        cbn [length] in Hn.
        destruct (IH (done ++ skipped ++ [(p, ft)]) [] (vdone ++ nones skipped ++ [Some x']) n' start total s1 tl
                     Hfs' Hvd' (Forall_nil _) Hseen' ltac:(lia) Hav1 ltac:(lia) ltac:(lia)) as (s2 & Hrun2 & Hpos2 & Harr2 & Hcl2).
        exists s2. split; [|rewrite app_length; split; [lia|split; congruence]].
        cbn [map app] in Hrun2.
        replace (length (done ++ skipped ++ [(p, ft)])) with (S i) in Hrun2 by (subst i; rewrite !app_length; cbn [length]; lia).
        rewrite <- !app_assoc in Hrun2. cbn [app] in Hrun2. rewrite <- app_assoc. exact Hrun2. }
      (* the component the decoder looks at *)
      assert (Hnth: nth_error fs (length done) = nth_error (skipped ++ (p, ft) :: todo) 0).
      { rewrite Hfs. rewrite nth_error_app2 by lia. rewrite Nat.sub_diag. reflexivity. }
      assert (Hskip: skipn (length done) fs = skipped ++ (p, ft) :: todo).
      { rewrite Hfs. apply skipn_app_length. }
      (* does the decoder meet a mandatory component? *)
      destruct (match skipped with [] => is_req p | _ => false end) eqn:Ehead.
      + (* yes: no component was skipped, and the type guides the decoder *)
        destruct skipped as [|sk0 skr]; [|discriminate Ehead]. cbn [app nth_error] in Hnth.
        cbn [map app length] in *. subst i. rewrite Nat.add_0_r in *.
        unfold seq_component_spec. rewrite Hnth. rewrite Ehead, Bool.orb_true_r.
        destruct (Hreq Ehead s _ Hav) as (s1 & Hrun & Hpos & Harr & Hcl).
        rewrite (resume_pbind_done _ _ _ _ _ Hrun).
        pose proof (consumes_avail pb s _ s1 Hav Hpos Harr) as Hav1.
        rewrite Hidx. unfold seq_position. rewrite Hnth, Ehead.
        assert (Hpos_ok: (if det then Ok (length done) else Ok (length done)) = Ok (length done)) by (destruct det; reflexivity).
        rewrite Hpos_ok. cbn [lift pbind]. rewrite Hidx.
        rewrite app_nil_r in Hsetnth. rewrite Hsetnth.
        destruct (Hcont s1 Hav1 Hpos Harr Hcl) as (s2 & Hrun2 & Hrest). rewrite app_nil_r in Hrun2.
        exists s2. split; [exact Hrun2|exact Hrest].
      + (* no: the tag map of the run resolves the tags met *)
        assert (Hhd: exists hp ht rest, skipped ++ (p, ft) :: todo = (hp, ht) :: rest /\ is_req hp = false).
        { destruct skipped as [|[p0 t0] skr].
          - exists p, ft, todo. split; [reflexivity|exact Ehead].
          - inversion Hsk as [|? ? H0 _]; subst. exists p0, t0, (skr ++ (p, ft) :: todo). split; [reflexivity|exact H0]. }
        destruct Hhd as (hp & ht & rest & Hhd & Hhp).
        assert (Hdet: det = false).
        { subst det. apply (forallb_req_false fs (hp, ht)); [|exact Hhp].
          rewrite Hfs. apply in_or_app. right. rewrite Hhd. left. reflexivity. }
        unfold seq_component_spec. rewrite Hnth, Hhd. cbn [nth_error]. rewrite Hdet, Hhp. cbn [orb].
        rewrite Hskip.
        set (run := ambiguous_run (skipped ++ (p, ft) :: todo)).
        assert (HKrun: keys_ok (flat_map ckeys run) = true).
        { subst run. rewrite Hhd. apply seq_wf_head; [|exact Hhp]. rewrite <- Hhd, <- Hskip.
          rewrite <- (firstn_skipn (length done) fs) in Hwf. exact (seq_wf_app _ _ Hwf). }
        assert (Hrun_nth: nth_error run (length skipped) = Some ft).
        { subst run. rewrite (ambiguous_run_skipped skipped _ Hsk).
          destruct (ambiguous_run_head p ft todo) as (rr & ->).
          rewrite nth_error_app2 by (rewrite map_length; lia). rewrite map_length, Nat.sub_diag. reflexivity. }
        destruct (Hkeys (keys_ok_sub ft run (nth_error_In _ _ Hrun_nth) HKrun)) as (Hdec & Heff & Hwne).
        pose proof (resolves_sib false run (length skipped) ft x HKrun Hrun_nth Hwne) as Hres.
        destruct (Hdec _ Hres s _ Hav) as (s1 & Hrun & Hpos & Harr & Hcl).
        rewrite (resume_pbind_done _ _ _ _ _ Hrun).
        pose proof (consumes_avail pb s _ s1 Hav Hpos Harr) as Hav1.
        rewrite Hidx. unfold seq_position. rewrite Hnth, Hhd. cbn [nth_error]. rewrite Hhp.
        rewrite Hskip. fold run. rewrite Heff.
        rewrite (sib_pos run HKrun (length skipped) ft (wire_tags ft x) Hrun_nth (tm_mem_in _ _ (wire_in_ckeys ft x Hwne))).
        cbn [bind lift pbind]. fold i. rewrite Hileb. rewrite Hsetnth.
        destruct (Hcont s1 Hav1 Hpos Harr Hcl) as (s2 & Hrun2 & Hrest).
        exists s2. split; [exact Hrun2|exact Hrest].
  Qed.

  Lemma dec_record_opt T fs vs parts ds :
    seq_wf fs = true -> fplan fs vs parts ds -> (length parts < lf)%nat ->
    consumes (dec_record rec lf T fs false (Some (N.of_nat (length (concat parts))))) (concat parts) (DV T (VRec ds)).
  Proof.
    intros Hwf HP Hlf s tl Hav. unfold dec_record. rewrite resume_tell.
    destruct fs as [|f0 fs0].
    - inversion HP; subst. destruct lf as [|n]; [cbn [length] in Hlf; lia|].
      cbn [record_loop]. cbv zeta. rewrite resume_tell. cbn [concat length]. rewrite Nat.sub_diag.
      cbn [N.of_nat N.ltb N.compare negb map resume]. exists s. repeat split. lia.
    - destruct (record_loop_opt T (f0 :: fs0) eq_refl Hwf (f0 :: fs0) vs parts ds HP [] [] [] lf (pos s)
                  (length (concat parts)) s tl eq_refl eq_refl (Forall_nil _) eq_refl Hlf Hav ltac:(lia) ltac:(lia))
        as (s' & Hrun & Hpos & Harr & Hcl).
      exists s'. split; [exact Hrun|]. repeat split; assumption.
  Qed.
End RecordLoopOpt.

(* ---------- the encoder's component loop ---------- *)

Section Stage3b.
  Variables ce cd : codec.
  Hypothesis Hce : enc_ok ce.
  Variable R : aval -> aval -> Prop.
  Variable srt : bool.
  Hypothesis HR : rel_ok R srt.

  Definition enc_rec_fields_g (ec: enc_codec) (omit: bool) (o: eopts) : list (presence * ty) -> list (option val) -> res (list (tagset * bytes)) :=
    fix go (fs: list (presence * ty)) (vs: list (option val)) : res (list (tagset * bytes)) :=
      match fs with
      | [] => Ok []
      | (p, ft) :: fs' =>
          let ov := match vs with x :: _ => x | [] => None end in
          let vs' := match vs with _ :: r => r | [] => [] end in
          let o' := if omit then mkOpts (o_def o) (o_chunk o) (match p with Opt => true | _ => false end) else o in
          let emit (x: val) := do b <- encw ce ft o' x; do rest <- go fs' vs';
                               Ok ((set_sort_key (match ec with EcSetDer => true | _ => false end) ft x, b) :: rest) in
          match p, ov with
          | Opt, None => go fs' vs'
          | Def d, None => go fs' vs'
          | Def d, Some x => match val_py_eq x d with
                             | Some true => go fs' vs'
                             | Some false => emit x
                             | None => Err EUnmodelled end
          | Req, None => if all_optional_container ft then emit (VRec []) else Err EMalformed
          | _, Some x => emit x
          end
      end.

  Lemma enc_content_rec T fs ec fl o vs : T = TSeq fs \/ T = TSet fs ->
    enc_content ce T ec fl o (VRec vs) =
    (do parts <- enc_rec_fields_g ec (match ec with EcSeq => ef_omit_empty fl | EcSetCer | EcSetDer => true | _ => false end) o fs vs;
     match ec with
     | EcSeq => Ok (concat (map snd parts), true)
     | EcSetCer | EcSetDer => Ok (concat (map snd (sort_by tagset_ltb fst parts)), true)
     | _ => Err EMalformed
     end).
  Proof. intros [-> | ->]; reflexivity. Qed.

  Definition ifne_opts : eopts := mkOpts true 0 true.

  (* the ifNotEmpty option only matters when it empties the encoding (defect F24) *)
  Lemma encw_ifne T v b : encw ce T ifne_opts v = Ok b -> b <> [] -> encw ce T def_opts v = Ok b.
  Proof.
    unfold encw, enc_with. intros H Hne.
    assert (Hf1: fix_opts ce ifne_opts = ifne_opts) by (destruct Hce as [E|E]; rewrite E; reflexivity).
    rewrite Hf1 in H. rewrite (Hdef ce Hce).
    destruct (concrete_encoder ce T) as [[ec fl]|e]; cbn [bind] in *; [|discriminate].
    destruct (tagset_of T) as [ts|e]; cbn [bind] in *; [|discriminate].
    change (mkOpts (o_def ifne_opts) (o_chunk ifne_opts) false) with def_opts in H.
    change (mkOpts (o_def def_opts) (o_chunk def_opts) false) with def_opts.
    destruct (enc_content ce T ec fl def_opts v) as [[content cns]|e]; cbn [bind] in *; [|discriminate].
    destruct ts as [|t0 r]; [exact H|].
    cbn [frame] in *. cbn [o_ifne o_def ifne_opts def_opts] in *. rewrite Bool.andb_false_r.
    destruct content as [|c0 content]; [|exact H].
    destruct cns; [|exact H]. cbn [andb] in H. inversion H; subst. congruence.
  Qed.

  (* the encoder omits empty OPTIONAL components, and sorts SET components: DER *)
  Definition omits : bool := match ce with BER => false | _ => true end.

  (* the values a component list may hold, relative to a predicate on component values *)
  Inductive comp_vals (Pv: ty -> val -> Prop) : list (presence * ty) -> list (option val) -> Prop :=
  | cv_nil : comp_vals Pv [] []
  | cv_req ft x fs vs : Pv ft x -> comp_vals Pv fs vs -> comp_vals Pv ((Req, ft) :: fs) (Some x :: vs)
  | cv_opt_none ft fs vs : comp_vals Pv fs vs -> comp_vals Pv ((Opt, ft) :: fs) (None :: vs)
  | cv_opt_some ft x fs vs : Pv ft x -> (omits = true -> encw ce ft ifne_opts x <> Ok []) ->
      comp_vals Pv fs vs -> comp_vals Pv ((Opt, ft) :: fs) (Some x :: vs)
  | cv_def_none d ft fs vs : comp_vals Pv fs vs -> comp_vals Pv ((Def d, ft) :: fs) (None :: vs)
  | cv_def_some d ft x fs vs : Pv ft x -> (val_py_eq x d = Some true -> abs ft x = abs ft d) ->
      comp_vals Pv fs vs -> comp_vals Pv ((Def d, ft) :: fs) (Some x :: vs).

  Lemma abs_fields_cons p ft fs ov vs :
    abs_fields ((p, ft) :: fs) (ov :: vs) =
    (match ov, p with Some x, _ => Some (abs ft x) | None, Def d => Some (abs ft d) | None, _ => None end) :: abs_fields fs vs.
  Proof. reflexivity. Qed.

  (* what the induction over the type supplies for each component: the invariant when the component's
     keys are good, the directly guided item when it is mandatory *)
  Definition comp_ok (Pv: ty -> val -> Prop) (f: presence * ty) : Prop :=
    (is_req (fst f) = false -> keys_ok (ckeys (snd f)) = true) /\
    forall x, Pv (snd f) x ->
      (keys_ok (ckeys (snd f)) = true -> val_ok ce cd R (snd f) x) /\
      (is_req (fst f) = true -> item_sty ce cd R (snd f) x).

  Lemma fields_plan (Pv: ty -> val -> Prop) ec omit : (omit = true -> omits = true) -> forall fs,
    Forall (comp_ok Pv) fs ->
    forall vs parts, comp_vals Pv fs vs -> enc_rec_fields_g ec omit def_opts fs vs = Ok parts ->
    N.of_nat (length (concat (map snd parts))) <= index_max ->
    exists ds, Forall2 (opt_rel R) (abs_fields fs ds) (abs_fields fs vs) /\
      forall f, (length (concat (map snd parts)) + max_depth fs <= f)%nat ->
                fplan (dec_call cd f) f fs vs (map snd parts) ds.
  Proof.
    intros Homit fs HF vs parts HCV. revert parts HF.
    (* what happens to a component that is written with options o' *)
    assert (Hemit: forall p ft fs vs x o' parts,
              (o' = def_opts \/ (o' = ifne_opts /\ encw ce ft ifne_opts x <> Ok [])) ->
              Pv ft x -> comp_ok Pv (p, ft) ->
              (do b <- encw ce ft o' x; do rest <- enc_rec_fields_g ec omit def_opts fs vs;
               Ok ((set_sort_key (match ec with EcSetDer => true | _ => false end) ft x, b) :: rest)) = Ok parts ->
              N.of_nat (length (concat (map snd parts))) <= index_max ->
              exists pb rest x', parts = (set_sort_key (match ec with EcSetDer => true | _ => false end) ft x, pb) :: rest /\
                enc_rec_fields_g ec omit def_opts fs vs = Ok rest /\
                R (abs ft x') (abs ft x) /\
                forall f ps ds, (length pb + ty_depth ft <= f)%nat -> fplan (dec_call cd f) f fs vs ps ds ->
                  fplan (dec_call cd f) f ((p, ft) :: fs) (Some x :: vs) (pb :: ps) (Some x' :: ds)).
    { intros p ft fs0 vs0 x o' parts Ho' HPx [Hkopt Hcomp] He Hmax. cbn [fst snd] in Hkopt, Hcomp.
      destruct (Hcomp x HPx) as [Hval Hsty].
      destruct (encw ce ft o' x) as [pb|e] eqn:Ep; cbn [bind] in He; [|discriminate].
      destruct (enc_rec_fields_g ec omit def_opts fs0 vs0) as [rest|e] eqn:Er; cbn [bind] in He; [|discriminate].
      inversion He; subst parts; clear He.
      assert (Ep': encw ce ft def_opts x = Ok pb).
      { destruct Ho' as [-> | [-> Hne]]; [exact Ep|]. apply encw_ifne; [exact Ep|]. intros ->. apply Hne. exact Ep. }
      cbn [map snd concat] in Hmax. rewrite app_length in Hmax.
      destruct (keys_ok (ckeys ft)) eqn:HK.
      - (* good keys: the invariant gives everything *)
        specialize (Hval eq_refl).
        destruct (item_of_val ce cd R ft x pb Hval Ep' ltac:(lia)) as (x' & Hax & Hwx & Hwne & Hit).
        exists pb, rest, x'. split; [reflexivity|]. split; [reflexivity|]. split; [exact Hax|].
        intros f ps ds Hf HP. constructor; try assumption.
        + destruct (Hit (STy ft) (resolves_sty ft x HK Hwne)) as [Hl _]. exact Hl.
        + intros _. destruct (Hit (STy ft) (resolves_sty ft x HK Hwne)) as [_ Hc]. apply Hc. unfold fuel_ok. lia.
        + intros _. split; [|split].
          * intros sp Hres. destruct (Hit sp Hres) as [_ Hc]. apply Hc. unfold fuel_ok. lia.
          * rewrite <- Hwx. apply effective_wire; [lia|]. rewrite Hwx. exact Hwne.
          * exact Hwne.
      - (* otherwise the component is mandatory and guided by its type *)
        assert (Hr: is_req p = true) by (destruct (is_req p) eqn:E; [reflexivity|specialize (Hkopt eq_refl); discriminate Hkopt]).
        destruct (Hsty Hr pb Ep' ltac:(lia)) as (x' & Hax & Hl & Hc).
        exists pb, rest, x'. split; [reflexivity|]. split; [reflexivity|]. split; [exact Hax|].
        intros f ps ds Hf HP. constructor; try assumption.
        + intros _. apply Hc. unfold fuel_ok. lia.
        + intros E. rewrite HK in E. discriminate E. }
    induction HCV as [|ft x fs vs HPx HCV IH|ft fs vs HCV IH|ft x fs vs HPx Hne HCV IH|d ft fs vs HCV IH|d ft x fs vs HPx Hpy HCV IH];
      intros parts HF He Hmax.
    - inversion He; subst. exists []. split; [constructor|]. intros f _. constructor.
    - (* mandatory *)
      inversion HF as [|? ? Hcomp HF']; subst.
      cbn [enc_rec_fields_g] in He. fold (enc_rec_fields_g ec omit def_opts) in He.
      assert (Ho: (if omit then mkOpts (o_def def_opts) (o_chunk def_opts) false else def_opts) = def_opts) by (destruct omit; reflexivity).
      rewrite Ho in He.
      destruct (Hemit Req ft fs vs x def_opts parts (or_introl eq_refl) HPx Hcomp He Hmax) as (pb & rest & x' & -> & Er & Hax & Hfp).
      cbn [map snd concat] in Hmax. rewrite app_length in Hmax.
      destruct (IH rest HF' Er ltac:(lia)) as (ds & Hads & Hplan).
      exists (Some x' :: ds). split.
      + rewrite !abs_fields_cons. constructor; [constructor; exact Hax|exact Hads].
      + intros f Hf. cbn [map snd concat max_depth fold_right] in Hf. rewrite app_length in Hf.
        cbn [map snd]. apply Hfp; [lia|]. apply Hplan. unfold max_depth. lia.
    - (* OPTIONAL, absent *)
      inversion HF as [|? ? Hcomp HF']; subst.
      cbn [enc_rec_fields_g] in He. fold (enc_rec_fields_g ec omit def_opts) in He.
      destruct (IH parts HF' He Hmax) as (ds & Hads & Hplan).
      exists (None :: ds). split.
      + rewrite !abs_fields_cons. constructor; [constructor|exact Hads].
      + intros f Hf. constructor; [reflexivity|]. apply Hplan. cbn [max_depth fold_right] in Hf. unfold max_depth. lia.
    - (* OPTIONAL, present *)
      inversion HF as [|? ? Hcomp HF']; subst.
      cbn [enc_rec_fields_g] in He. fold (enc_rec_fields_g ec omit def_opts) in He.
      assert (Ho: (if omit then mkOpts (o_def def_opts) (o_chunk def_opts) true else def_opts) = def_opts
                  \/ ((if omit then mkOpts (o_def def_opts) (o_chunk def_opts) true else def_opts) = ifne_opts
                      /\ encw ce ft ifne_opts x <> Ok [])).
      { destruct omit; [right; split; [reflexivity|exact (Hne (Homit eq_refl))]|left; reflexivity]. }
      destruct (Hemit Opt ft fs vs x _ parts Ho HPx Hcomp He Hmax) as (pb & rest & x' & -> & Er & Hax & Hfp).
      cbn [map snd concat] in Hmax. rewrite app_length in Hmax.
      destruct (IH rest HF' Er ltac:(lia)) as (ds & Hads & Hplan).
      exists (Some x' :: ds). split.
      + rewrite !abs_fields_cons. constructor; [constructor; exact Hax|exact Hads].
      + intros f Hf. cbn [map snd concat max_depth fold_right] in Hf. rewrite app_length in Hf.
        cbn [map snd]. apply Hfp; [lia|]. apply Hplan. unfold max_depth. lia.
    - (* DEFAULT, absent *)
      inversion HF as [|? ? Hcomp HF']; subst.
      cbn [enc_rec_fields_g] in He. fold (enc_rec_fields_g ec omit def_opts) in He.
      destruct (IH parts HF' He Hmax) as (ds & Hads & Hplan).
      exists (None :: ds). split.
      + rewrite !abs_fields_cons. constructor; [constructor; apply (r_refl _ _ HR)|exact Hads].
      + intros f Hf. constructor; [reflexivity|]. apply Hplan. cbn [max_depth fold_right] in Hf. unfold max_depth. lia.
    - (* DEFAULT, present *)
      inversion HF as [|? ? Hcomp HF']; subst.
      cbn [enc_rec_fields_g] in He. fold (enc_rec_fields_g ec omit def_opts) in He.
      destruct (val_py_eq x d) as [[|]|] eqn:Epy; [| |discriminate He].
      + (* equal to the default: not written *)
        destruct (IH parts HF' He Hmax) as (ds & Hads & Hplan).
        exists (None :: ds). split.
        * rewrite !abs_fields_cons. constructor; [constructor; rewrite (Hpy eq_refl); apply (r_refl _ _ HR)|exact Hads].
        * intros f Hf. constructor; [reflexivity|]. apply Hplan. cbn [max_depth fold_right] in Hf. unfold max_depth. lia.
      + assert (Ho: (if omit then mkOpts (o_def def_opts) (o_chunk def_opts) false else def_opts) = def_opts) by (destruct omit; reflexivity).
        rewrite Ho in He.
        destruct (Hemit (Def d) ft fs vs x def_opts parts (or_introl eq_refl) HPx Hcomp He Hmax) as (pb & rest & x' & -> & Er & Hax & Hfp).
        cbn [map snd concat] in Hmax. rewrite app_length in Hmax.
        destruct (IH rest HF' Er ltac:(lia)) as (ds & Hads & Hplan).
        exists (Some x' :: ds). split.
        * rewrite !abs_fields_cons. constructor; [constructor; exact Hax|exact Hads].
        * intros f Hf. cbn [map snd concat max_depth fold_right] in Hf. rewrite app_length in Hf.
          cbn [map snd]. apply Hfp; [lia|]. apply Hplan. unfold max_depth. lia.
  Qed.

  Lemma fplan_count rec lf fs vs ps ds : fplan rec lf fs vs ps ds -> (length ps <= length (concat ps))%nat.
  Proof. intros H. exact (proj2 (fplan_lengths rec lf fs vs ps ds H)). Qed.

  (* SEQUENCE with mandatory, OPTIONAL and DEFAULT components, under any tagging *)
  Lemma record_val (Pv: ty -> val -> Prop) T' fs : base_of T' = TSeq fs -> wf_tags T' = true -> seq_wf fs = true ->
    Forall (comp_ok Pv) fs ->
    forall vs, comp_vals Pv fs vs -> val_ok ce cd R T' (VRec vs).
  Proof.
    intros Hb Hw Hwf IHfs vs HCV b He Hmax.
    assert (Htb: tagged_base T' = true) by (unfold tagged_base; rewrite Hb; reflexivity).
    destruct (tagset_shape T' Htb Hw) as (t0 & r & b0 & Hb0 & Hts & Hc0 & Hex & Hd).
    assert (Hcon: tcon t0 = true).
    { rewrite Hc0. rewrite Hb in Hb0; inversion Hb0; reflexivity. }
    assert (Hdep: ty_depth (base_of T') = S (max_depth fs)) by (rewrite Hb; reflexivity).
    assert (Hnc: match T' with TChoice _ => False | _ => True end).
    { destruct T'; try exact I. discriminate Hb. }
    destruct (enc_with_inv_g ce Hce T' _ b He) as (ec & fl & ts & content & cns & Hcenc & Hts' & Hcont & Hfr).
    rewrite Hts in Hts'. inversion Hts'; subst ts; clear Hts'.
    rewrite concrete_encoder_base in Hcenc. rewrite enc_content_base in Hcont.
    rewrite (enc_content_rec (base_of T') fs ec fl def_opts vs (or_introl Hb)) in Hcont.
    assert (Hec: ec = EcSeq /\ ef_indef fl = true /\ (ef_omit_empty fl = true -> omits = true)).
    { unfold omits. rewrite Hb in Hcenc. destruct Hce as [E|E]; rewrite E in Hcenc |- *; vm_compute in Hcenc;
        inversion Hcenc; subst ec fl; repeat split; try reflexivity. discriminate. }
    destruct Hec as (-> & Hsi & Homit).
    destruct (enc_rec_fields_g EcSeq (ef_omit_empty fl) def_opts fs vs) as [parts|e] eqn:Eparts; cbn [bind] in Hcont; [|discriminate].
    inversion Hcont; subst content cns; clear Hcont. rewrite Hsi in Hfr.
    pose proof (frame_len_r _ _ _ _ _ _ Hfr) as Hlen.
    destruct (fields_plan Pv EcSeq (ef_omit_empty fl) Homit fs IHfs vs parts HCV Eparts ltac:(lia)) as (ds & Habs & Hplan).
    exists t0, r, (concat (map snd parts)), true, (VRec ds).
    split; [rewrite (wire_tags_plain T' _ Hnc); apply tagset_of'_ok; exact Hts|].
    split; [exact Hex|]. split; [lia|]. split; [rewrite Hcon; exact Hfr|].
    split; [rewrite (wire_tags_plain T' _ Hnc); apply tagset_of'_ok; exact Hts|].
    split.
    { rewrite (abs_wrappers T' (VRec ds)), (abs_wrappers T' (VRec vs)), Hb. rewrite !abs_seq.
      apply (r_rec _ _ HR). exact Habs. }
    exists DcSeq, (mkDecFlags true (Some KSeq)). split.
    { rewrite by_type_base, Hb. destruct cd; vm_compute; reflexivity. }
    intros f Hf. cbn [dec_value tag0_cons]. rewrite Hcon. cbn [negb]. rewrite Hb.
    assert (HP: fplan (dec_call cd f) f fs vs (map snd parts) ds) by (apply Hplan; lia).
    apply (dec_record_opt (dec_call cd f) f T' fs vs (map snd parts) ds Hwf HP).
    pose proof (fplan_count _ _ _ _ _ _ HP). lia.
  Qed.
End Stage3b.

(* ---------- the domain of stage 3 ---------- *)

(* the type may guide the decoder directly (element of SEQUENCE OF / SET OF, mandatory component of a
   SEQUENCE): its keys are good, or it is the untagged ANY *)
Definition direct_ok (T: ty) : bool := keys_ok (ckeys T) || (match T with TAny => true | _ => false end).

Definition plain_top (T: ty) : bool := match T with TChoice _ | TAny => false | _ => true end.

(* a DEFAULT given as text belongs to a character string type *)
Definition def_ok (f: presence * ty) : bool :=
  match fst f with
  | Def (VChars _) => match base_of (snd f) with TStr _ => true | _ => false end
  | _ => true
  end.

(* [srt]: SET OF may be written by an encoder that sorts the elements (the DER encoder) *)
Fixpoint stage3_ty (srt: bool) (ce: codec) (T: ty) : bool :=
  match T with
  | TBool | TInt | TEnum | TBits | TOcts | TNull | TOid | TReal | TStr _ => true
  | TSeqOf t => stage3_ty srt ce t && direct_ok t
  | TSetOf t => stage3_ty srt ce t && direct_ok t && (srt || negb (sorts_setof ce))
  | TSeq fs => forallb (fun f => stage3_ty srt ce (snd f) && (negb (is_req (fst f)) || direct_ok (snd f)) && def_ok f) fs && seq_wf fs
  | TSet fs => forallb (fun f => stage3_ty srt ce (snd f) && def_ok f) fs && keys_ok (flat_map ckeys (map snd fs))
  | TChoice alts => forallb (stage3_ty srt ce) alts && keys_ok (flat_map ckeys alts)
  | TAny => true
  | TImp t x => non_univ t && stage3_ty srt ce x && plain_top x
  | TExp t x => non_univ t && stage3_ty srt ce x
  end.

(* the encoding of a present OPTIONAL component is not emptied by the ifNotEmpty option (defect F24) *)
Definition nonempty_enc (ce: codec) (T: ty) (v: val) : bool :=
  match encw ce T ifne_opts v with Ok [] => false | _ => true end.

(* the octets of an untagged ANY are one complete TLV with a definite length (in any form, minimal
   or not), other than the end-of-octets marker *)
Definition tlv_ok (b: bytes) : bool :=
  match dec_ident b with
  | Some (t, r1) =>
      match dec_len r1 with
      | Some (Some n, r2) =>
          N.eqb (N.of_nat (length r2)) n && negb (cls_eqb (tcls t) Univ && N.eqb (tnum t) 0)
      | _ => false
      end
  | None => false
  end.

Fixpoint stage3_val (ce cd: codec) (T: ty) (v: val) {struct T} : bool :=
  match T with
  | TImp _ x | TExp _ x =>
      match base_of x with
      | TAny => match v with VAny _ | VOcts _ => true | _ => false end       (* a tagged ANY holds any octets *)
      | _ => stage3_val ce cd x v
      end
  | TSeqOf t | TSetOf t => match v with VList xs => forallb (stage3_val ce cd t) xs | _ => false end
  | TSeq fs | TSet fs =>
      match v with
      | VRec vs =>
          (fix go (fs: list (presence * ty)) (vs: list (option val)) : bool :=
             match fs, vs with
             | [], [] => true
             | (p, ft) :: fs', ov :: vs' =>
                 (match p, ov with
                  | Req, Some x => stage3_val ce cd ft x
                  | Req, None => false
                  | Opt, None | Def _, None => true
                  | Opt, Some x => stage3_val ce cd ft x && (negb (omits ce) || nonempty_enc ce ft x)
                  | Def _, Some x => stage3_val ce cd ft x
                  end) && go fs' vs'
             | _, _ => false
             end) fs vs
      | _ => false
      end
  | TChoice alts =>
      match v with
      | VChoice i x =>
          (fix go (l: list ty) (k: nat) : bool :=
             match l, k with
             | a :: _, O => stage3_val ce cd a x
             | _ :: r, S k' => go r k'
             | [], _ => false
             end) alts i
      | _ => false
      end
  | TAny => match v with VAny b | VOcts b => tlv_ok b | _ => false end
  | _ => stage1_val ce cd T v
  end.

Definition sv3_fields (ce cd: codec) : list (presence * ty) -> list (option val) -> bool :=
  fix go (fs: list (presence * ty)) (vs: list (option val)) : bool :=
    match fs, vs with
    | [], [] => true
    | (p, ft) :: fs', ov :: vs' =>
        (match p, ov with
         | Req, Some x => stage3_val ce cd ft x
         | Req, None => false
         | Opt, None | Def _, None => true
         | Opt, Some x => stage3_val ce cd ft x && (negb (omits ce) || nonempty_enc ce ft x)
         | Def _, Some x => stage3_val ce cd ft x
         end) && go fs' vs'
    | _, _ => false
    end.

Lemma stage3_val_rec ce cd T fs vs : T = TSeq fs \/ T = TSet fs -> stage3_val ce cd T (VRec vs) = sv3_fields ce cd fs vs.
Proof. intros [-> | ->]; reflexivity. Qed.

Lemma stage3_val_base ce cd : forall T v, base_of T <> TAny -> stage3_val ce cd T v = stage3_val ce cd (base_of T) v.
Proof.
  induction T as [| | | | | | | | n|fs IH|fs IH|t IH|t IH|alts IH| |tg x IH|tg x IH] using ty_ind'; intros v Hb; try reflexivity.
  - cbn [base_of] in *. cbn [stage3_val]. destruct (base_of x) eqn:E; try (apply IH; exact Hb). congruence.
  - cbn [base_of] in *. cbn [stage3_val]. destruct (base_of x) eqn:E; try (apply IH; exact Hb). congruence.
Qed.

Lemma stage3_val_not_chars ce cd : forall T cs, stage3_val ce cd T (VChars cs) = false.
Proof.
  induction T as [| | | | | | | | n|fs IH|fs IH|t IH|t IH|alts IH| |tg x IH|tg x IH] using ty_ind'; intros cs; try reflexivity.
  - cbn [stage3_val]. destruct (base_of x); try apply IH; reflexivity.
  - cbn [stage3_val]. destruct (base_of x); try apply IH; reflexivity.
Qed.

(* Python == on the values of a component and its DEFAULT, and their abstract contents *)
Lemma list_eqb_eq {A} (eqb: A -> A -> bool) : (forall a b, eqb a b = true -> a = b) ->
  forall x y, list_eqb eqb x y = true -> x = y.
Proof.
  intros Heq. induction x as [|a x IH]; intros [|b y] H; try discriminate; [reflexivity|].
  cbn [list_eqb] in H. apply Bool.andb_true_iff in H. destruct H as [H1 H2]. rewrite (Heq _ _ H1), (IH _ H2). reflexivity.
Qed.

Lemma bytes_eqb_eq x y : bytes_eqb x y = true -> x = y.
Proof. apply list_eqb_eq. intros a b H. apply N.eqb_eq. exact H. Qed.

Lemma py_eq_abs ft x d : val_py_eq x d = Some true -> (forall cs, x <> VChars cs) -> def_ok (Def d, ft) = true ->
  abs ft x = abs ft d.
Proof.
  intros H Hx Hd.
  destruct x as [bb|z|bs|bo|cs| |arcs|r|vfs|xs|i x|ab]; destruct d as [bb'|z'|bs'|bo'|cs'| |arcs'|r'|vfs'|xs'|i' x'|ab'];
    try discriminate H; cbn [val_py_eq] in H; inversion H as [H1]; clear H.
  - apply Bool.eqb_prop in H1. subst. reflexivity.
  - apply Z.eqb_eq in H1. subst. reflexivity.
  - apply (list_eqb_eq Bool.eqb Bool.eqb_prop) in H1. subst. reflexivity.
  - apply bytes_eqb_eq in H1. subst. reflexivity.
  - (* octets against a text default *)
    apply bytes_eqb_eq in H1. subst bo. unfold def_ok in Hd. cbn [fst snd] in Hd.
    rewrite (abs_wrappers ft (VOcts (concat cs'))), (abs_wrappers ft (VChars cs')).
    destruct (base_of ft); try discriminate Hd. reflexivity.
  - exfalso. apply (Hx cs). reflexivity.
  - exfalso. apply (Hx cs). reflexivity.
  - reflexivity.
  - apply (list_eqb_eq N.eqb (fun a b => proj1 (N.eqb_eq a b))) in H1. subst. reflexivity.
Qed.

Lemma comp_vals_of_bool ce cd fs : forallb def_ok fs = true ->
  forall vs, sv3_fields ce cd fs vs = true -> comp_vals ce (fun t x => stage3_val ce cd t x = true) fs vs.
Proof.
  induction fs as [|[p ft] fs IH]; intros Hd vs Hs.
  - destruct vs; [constructor|discriminate Hs].
  - cbn [forallb] in Hd. apply Bool.andb_true_iff in Hd. destruct Hd as [Hd0 Hd].
    destruct vs as [|ov vs]; [discriminate Hs|].
    change (sv3_fields ce cd ((p, ft) :: fs) (ov :: vs)) with
      ((match p, ov with
        | Req, Some x => stage3_val ce cd ft x
        | Req, None => false
        | Opt, None | Def _, None => true
        | Opt, Some x => stage3_val ce cd ft x && (negb (omits ce) || nonempty_enc ce ft x)
        | Def _, Some x => stage3_val ce cd ft x
        end) && sv3_fields ce cd fs vs)%bool in Hs.
    apply Bool.andb_true_iff in Hs. destruct Hs as [H0 Hs]. specialize (IH Hd vs Hs).
    destruct p as [| |d]; destruct ov as [x|]; try discriminate H0.
    + constructor; assumption.
    + apply Bool.andb_true_iff in H0. destruct H0 as [Hx Hne]. constructor; [exact Hx| |exact IH].
      intros Hom. rewrite Hom in Hne. cbn [negb orb] in Hne. unfold nonempty_enc in Hne. intros E. rewrite E in Hne. discriminate.
    + constructor. exact IH.
    + constructor; [exact H0| |exact IH].
      intros Hpy. apply py_eq_abs; [exact Hpy| |exact Hd0].
      intros cs ->. rewrite stage3_val_not_chars in H0. discriminate.
    + constructor. exact IH.
Qed.

Lemma stage3_val_choice ce cd alts i x :
  stage3_val ce cd (TChoice alts) (VChoice i x) = match nth_error alts i with Some a => stage3_val ce cd a x | None => false end.
Proof.
  cbn [stage3_val]. revert i. induction alts as [|a r IH]; intros [|i]; try reflexivity. cbn [nth_error]. apply IH.
Qed.


(* valid values of types with good keys carry at least one tag on the wire *)
Lemma wire_nonempty ce cd : forall T v, keys_ok (ckeys T) = true -> stage3_val ce cd T v = true -> wire_tags T v <> [].
Proof.
  induction T as [| | | | | | | | n|fs IH|fs IH|t IH|t IH|alts IH| |tg x IH|tg x IH] using ty_ind'; intros v HK Hv;
    try (rewrite wire_tags_plain by exact I; apply (keys_ok_nonempty _ _ HK); left; reflexivity).
  - destruct v as [bb|z|bs|bo|cs| |arcs|r|vfs|xs|i x|ab]; try discriminate Hv.
    rewrite stage3_val_choice in Hv. rewrite wire_tags_choice.
    destruct (nth_error alts i) as [a|] eqn:En; [|discriminate Hv].
    rewrite Forall_forall in IH. apply (IH a (nth_error_In _ _ En)); [|exact Hv].
    rewrite ckeys_choice in HK. exact (keys_ok_sub a alts (nth_error_In _ _ En) HK).
Qed.

(* ---------- the fragment of parts (a) and (b): no SET, CHOICE, ANY ---------- *)

Fixpoint frag_b (T: ty) : bool :=
  match T with
  | TSet _ | TChoice _ | TAny => false
  | TSeq fs => forallb (fun f => frag_b (snd f)) fs
  | TSeqOf t | TSetOf t => frag_b t
  | TImp _ x | TExp _ x => frag_b x
  | _ => true
  end.

Lemma stage3_ty_base srt ce : forall T, stage3_ty srt ce T = true ->
  wf_tags T = true /\ stage3_ty srt ce (base_of T) = true.
Proof.
  induction T as [| | | | | | | | n|fs IH|fs IH|t IH|t IH|alts IH| |tg x IH|tg x IH] using ty_ind'; intros H;
    try (split; [reflexivity|exact H]).
  - cbn [stage3_ty] in H. apply Bool.andb_true_iff in H. destruct H as [H _]. apply Bool.andb_true_iff in H. destruct H as [Hn Hx].
    destruct (IH Hx) as [Hw Hb]. cbn [wf_tags base_of]. unfold non_univ in Hn. rewrite Hn, Hw. split; [reflexivity|exact Hb].
  - cbn [stage3_ty] in H. apply Bool.andb_true_iff in H. destruct H as [Hn Hx].
    destruct (IH Hx) as [Hw Hb]. cbn [wf_tags base_of]. unfold non_univ in Hn. rewrite Hn, Hw. split; [reflexivity|exact Hb].
Qed.

Lemma frag_b_base : forall T, frag_b T = true -> frag_b (base_of T) = true.
Proof.
  induction T as [| | | | | | | | n|fs IH|fs IH|t IH|t IH|alts IH| |tg x IH|tg x IH] using ty_ind'; intros H; try exact H.
  - exact (IH H).
  - exact (IH H).
Qed.

Lemma frag_b_not_any T : frag_b T = true -> base_of T <> TAny.
Proof. intros H E. apply frag_b_base in H. rewrite E in H. discriminate. Qed.

Lemma direct_ok_keys T : direct_ok T = true -> T <> TAny -> keys_ok (ckeys T) = true.
Proof. unfold direct_ok. intros H Hn. apply Bool.orb_true_iff in H. destruct H as [H|H]; [exact H|]. destruct T; try discriminate. congruence. Qed.

Lemma seq_wf_nonreq_keys : forall fs, seq_wf fs = true -> forall f, In f fs -> is_req (fst f) = false ->
  keys_ok (ckeys (snd f)) = true.
Proof.
  induction fs as [|[p t] fs IH]; intros Hwf f Hin Hnr; [destruct Hin|].
  destruct Hin as [<-|Hin].
  - cbn [fst snd] in *. pose proof (seq_wf_head p t fs Hwf Hnr) as HK.
    destruct (ambiguous_run_head p t fs) as (rr & Hrr). rewrite Hrr in HK. cbn [flat_map] in HK.
    exact (proj1 (keys_ok_app _ _ HK)).
  - cbn [seq_wf] in Hwf. apply Bool.andb_true_iff in Hwf. exact (IH (proj2 Hwf) f Hin Hnr).
Qed.

Section Induction3b.
  Variables ce cd : codec.
  Hypothesis Hce : enc_ok ce.
  Variable R : aval -> aval -> Prop.
  Variable srt : bool.
  Hypothesis HR : rel_ok R srt.

  Theorem stage3b_val_ok : forall T T', base_of T' = base_of T -> stage3_ty srt ce T' = true -> frag_b T' = true ->
    forall v, stage3_val ce cd T' v = true -> val_ok ce cd R T' v.
  Proof.
    induction T as [| | | | | | | | n|fs IH|fs IH|t IH|t IH|alts IH| |tg x IH|tg x IH] using ty_ind';
      intros T' Hb Hty Hfr v Hv; cbn [base_of] in Hb;
      destruct (stage3_ty_base srt ce T' Hty) as [Hw Htb]; pose proof (frag_b_base T' Hfr) as Hfb;
      pose proof (frag_b_not_any T' Hfr) as Hna;
      try (assert (Hp: prim_base T' = true) by (unfold prim_base; rewrite Hb; reflexivity);
           apply (prim_val ce cd Hce R srt HR T' v Hp Hw); rewrite (stage1_val_base ce cd T' v), Hb;
           rewrite (stage3_val_base ce cd T' v Hna), Hb in Hv; exact Hv);
      try (rewrite Hb in Hfb; discriminate Hfb).
    - (* SEQUENCE *)
      rewrite Hb in Htb, Hfb. cbn [stage3_ty] in Htb. cbn [frag_b] in Hfb.
      apply Bool.andb_true_iff in Htb. destruct Htb as [Hfs Hwf].
      rewrite (stage3_val_base ce cd T' v Hna), Hb in Hv. destruct v; try discriminate Hv.
      rewrite (stage3_val_rec ce cd (TSeq fs) fs fs0 (or_introl eq_refl)) in Hv.
      rewrite forallb_forall in Hfs, Hfb.
      apply (record_val ce cd Hce R srt HR (fun t x => stage3_val ce cd t x = true) T' fs Hb Hw Hwf).
      + apply Forall_forall. intros f Hin. rewrite Forall_forall in IH.
        pose proof (Hfs f Hin) as Hf1. apply Bool.andb_true_iff in Hf1. destruct Hf1 as [Hf1 _].
        apply Bool.andb_true_iff in Hf1. destruct Hf1 as [Hfty Hdir].
        split; [intros Hnr; exact (seq_wf_nonreq_keys fs Hwf f Hin Hnr)|].
        intros x Hx. pose proof (IH f Hin (snd f) eq_refl Hfty (Hfb f Hin) x Hx) as Hval.
        split; [intros _; exact Hval|]. intros Hreq. rewrite Hreq in Hdir. cbn [negb orb] in Hdir.
        assert (HKf: keys_ok (ckeys (snd f)) = true).
        { apply direct_ok_keys; [exact Hdir|]. intros E. specialize (Hfb f Hin). rewrite E in Hfb. discriminate. }
        apply (item_sty_of_val ce cd R); [exact Hval|].
        apply resolves_sty; [exact HKf|exact (wire_nonempty ce cd (snd f) x HKf Hx)].
      + apply comp_vals_of_bool; [|exact Hv]. apply forallb_forall. intros f Hin.
        specialize (Hfs f Hin). apply Bool.andb_true_iff in Hfs. exact (proj2 Hfs).
    - (* SEQUENCE OF *)
      rewrite Hb in Htb, Hfb. cbn [stage3_ty] in Htb. cbn [frag_b] in Hfb.
      apply Bool.andb_true_iff in Htb. destruct Htb as [Hty_t Hdir].
      rewrite (stage3_val_base ce cd T' v Hna), Hb in Hv. destruct v; try discriminate Hv. cbn [stage3_val] in Hv.
      assert (HKt: keys_ok (ckeys t) = true).
      { apply direct_ok_keys; [exact Hdir|]. intros E. rewrite E in Hfb. discriminate. }
      apply (listof_val ce cd Hce R srt HR T' t (or_introl Hb) Hw); [intros E; rewrite Hb in E; discriminate|].
      apply Forall_forall. intros x Hin. rewrite forallb_forall in Hv. apply (item_sty_of_val ce cd R).
      + exact (IH t eq_refl Hty_t Hfb x (Hv x Hin)).
      + apply resolves_sty; [exact HKt|]. exact (wire_nonempty ce cd t x HKt (Hv x Hin)).
    - (* SET OF *)
      rewrite Hb in Htb, Hfb. cbn [stage3_ty] in Htb. cbn [frag_b] in Hfb.
      apply Bool.andb_true_iff in Htb. destruct Htb as [Htb Hsrt].
      apply Bool.andb_true_iff in Htb. destruct Htb as [Hty_t Hdir].
      rewrite (stage3_val_base ce cd T' v Hna), Hb in Hv. destruct v; try discriminate Hv. cbn [stage3_val] in Hv.
      assert (HKt: keys_ok (ckeys t) = true).
      { apply direct_ok_keys; [exact Hdir|]. intros E. rewrite E in Hfb. discriminate. }
      apply (listof_val ce cd Hce R srt HR T' t (or_intror Hb) Hw).
      { intros _ Hs. rewrite Hs in Hsrt. cbn [negb] in Hsrt. rewrite Bool.orb_false_r in Hsrt. exact Hsrt. }
      apply Forall_forall. intros x Hin. rewrite forallb_forall in Hv. apply (item_sty_of_val ce cd R).
      + exact (IH t eq_refl Hty_t Hfb x (Hv x Hin)).
      + apply resolves_sty; [exact HKt|]. exact (wire_nonempty ce cd t x HKt (Hv x Hin)).
    - exact (IH T' Hb Hty Hfr v Hv).
    - exact (IH T' Hb Hty Hfr v Hv).
  Qed.
End Induction3b.

(* ---------- from the invariant to the one-shot decoder ---------- *)

Lemma val_ok_decode ce cd R T v b tl : val_ok ce cd R T v -> resolves (STy T) T v ->
  encode ce true 0 T v = Ok b -> N.of_nat (length b) <= index_max ->
  exists v', decode cd (Some T) (b ++ tl) = Ok (DV T v', tl) /\ R (abs T v') (abs T v).
Proof.
  intros Hv Hres He Hmax.
  destruct (item_of_val ce cd R T v b Hv He Hmax) as (v' & HRv & _ & _ & Hit).
  destruct (Hit (STy T) Hres) as [_ Hc].
  exists v'. split; [|exact HRv]. unfold decode.
  assert (Hf: fuel_ok T b (dec_fuel (Some T) (b ++ tl))).
  { unfold fuel_ok, dec_fuel. rewrite app_length. lia. }
  pose proof (consumes_decode_with cd _ (Some T) b tl (DV T v') (Hc _ Hf)) as Hdw.
  unfold decode_with in Hdw. exact Hdw.
Qed.

(* equality of abstract contents *)
Lemma Forall2_eq {A} (xs ys: list A) : Forall2 eq xs ys -> xs = ys.
Proof. induction 1; [reflexivity|congruence]. Qed.

Lemma Forall2_opt_eq {A} (xs ys: list (option A)) : Forall2 (opt_rel eq) xs ys -> xs = ys.
Proof. induction 1 as [|x y xs ys Hxy _ IH]; [reflexivity|]. destruct Hxy; congruence. Qed.

Lemma rel_ok_eq : rel_ok eq false.
Proof.
  constructor.
  - reflexivity.
  - intros xs ys H. rewrite (Forall2_eq _ _ H). reflexivity.
  - intros xs ys H. rewrite (Forall2_eq _ _ H). reflexivity.
  - intros xs ys H. rewrite (Forall2_opt_eq _ _ H). reflexivity.
  - intros i a b ->. reflexivity.
  - discriminate.
Qed.

Lemma plain_keys T : wf_tags T = true -> tagged_base T = true -> plain_top T = true -> keys_ok (ckeys T) = true.
Proof.
  intros Hw Htb Hpt. destruct (tagset_shape T Htb Hw) as (t0 & r & b0 & _ & Hts & _).
  assert (Hck: ckeys T = [tagset_of' T]) by (destruct T; try reflexivity; discriminate Hpt).
  rewrite Hck, (tagset_of'_ok T _ Hts). reflexivity.
Qed.

Lemma frag_b_tagged T : frag_b T = true -> tagged_base T = true /\ plain_top T = true.
Proof.
  intros H. split.
  - pose proof (frag_b_base T H) as Hb. unfold tagged_base. destruct (base_of T); try reflexivity; discriminate Hb.
  - destruct T; try reflexivity; discriminate H.
Qed.

(* Round trip, stage 3 (b): every type built to any depth from the simple types, SEQUENCE OF, SET OF,
   SEQUENCE with mandatory, OPTIONAL and DEFAULT components and IMPLICIT/EXPLICIT tagging; written by
   the BER or the DER encoder (definite lengths; SET OF not by DER, which sorts the elements), read by
   the BER, the CER or the DER decoder. *)
Theorem roundtrip_stage3b : forall ce cd T v b tl,
  enc_ok ce -> stage3_ty false ce T = true -> frag_b T = true -> stage3_val ce cd T v = true ->
  encode ce true 0 T v = Ok b -> N.of_nat (length b) <= index_max ->
  exists v', decode cd (Some T) (b ++ tl) = Ok (DV T v', tl) /\ abs T v' = abs T v.
Proof.
  intros ce cd T v b tl Hce Hty Hfr Hv He Hmax.
  pose proof (stage3b_val_ok ce cd Hce eq false rel_ok_eq T T eq_refl Hty Hfr v Hv) as Hval.
  destruct (stage3_ty_base false ce T Hty) as [Hw _]. destruct (frag_b_tagged T Hfr) as [Htb Hpt].
  pose proof (plain_keys T Hw Htb Hpt) as HK.
  apply (val_ok_decode ce cd eq T v b tl Hval); try assumption.
  apply resolves_sty; [exact HK|]. exact (wire_nonempty ce cd T v HK Hv).
Qed.

Print Assumptions roundtrip_stage3b.

(* the hypotheses are met: DER encoder, CER decoder;
   SEQUENCE { INTEGER OPTIONAL, [0] EXPLICIT BOOLEAN DEFAULT TRUE, OCTET STRING, [1] IMPLICIT SEQUENCE OF NULL OPTIONAL,
              UTF8String DEFAULT "x", SEQUENCE { INTEGER OPTIONAL, SEQUENCE OF INTEGER } OPTIONAL,
              [PRIVATE 40] EXPLICIT SEQUENCE OF BOOLEAN } *)
Definition stage3b_example_ty : ty :=
  TSeq [ (Opt, TInt);
         (Def (VBool true), TExp (mkTag Ctx false 0) TBool);
         (Req, TOcts);
         (Opt, TImp (mkTag Ctx false 1) (TSeqOf TNull));
         (Def (VChars [[120]]), TStr 12);
         (Opt, TSeq [(Opt, TInt); (Req, TSeqOf TInt)]);
         (Req, TExp (mkTag Priv false 40) (TSeqOf TBool)) ].
(* first optional present, default overridden, second optional absent, text default given as equal octets
   (omitted), nested optional absent *)
Definition stage3b_example_val : val :=
  VRec [ Some (VInt (-1)); Some (VBool false); Some (VOcts [1;2]); None; Some (VOcts [120]);
         Some (VRec [None; Some (VList [VInt 3; VInt 1])]); Some (VList [VBool true]) ].

Example roundtrip_stage3b_nonvacuous :
  stage3_ty false DER stage3b_example_ty = true /\ frag_b stage3b_example_ty = true
  /\ stage3_val DER CER stage3b_example_ty stage3b_example_val = true
  /\ encode DER true 0 stage3b_example_ty stage3b_example_val
     = Ok [48; 30; 2; 1; 255; 160; 3; 1; 1; 0; 4; 2; 1; 2; 48; 8; 48; 6; 2; 1; 3; 2; 1; 1; 255; 40; 5; 48; 3; 1; 1; 255]
  /\ N.of_nat 32 <= index_max.
Proof. vm_compute. repeat split; try reflexivity; discriminate. Qed.

(* the excluded case is false of the model (known defect F24): the DER encoder drops a present but empty
   OPTIONAL SEQUENCE OF, so the decoder reports the component absent *)
Definition f24_ty : ty := TSeq [(Opt, TSeqOf TInt); (Req, TNull)].
Definition f24_val : val := VRec [Some (VList []); Some VNull].
Example f24_witness :
  stage3_ty false DER f24_ty = true /\ frag_b f24_ty = true
  /\ stage3_val DER DER f24_ty f24_val = false              (* only because of the non-emptiness condition *)
  /\ encode DER true 0 f24_ty f24_val = Ok [48; 2; 5; 0]
  /\ decode DER (Some f24_ty) [48; 2; 5; 0] = Ok (DV f24_ty (VRec [None; Some VNull]), [])
  /\ abs f24_ty (VRec [None; Some VNull]) <> abs f24_ty f24_val
  /\ (* the BER encoder keeps it *) encode BER true 0 f24_ty f24_val = Ok [48; 4; 48; 0; 5; 0].
Proof. vm_compute. repeat split; try reflexivity; discriminate. Qed.

(* ---------- part (a): the stage-2 fragment for the other codecs ---------- *)

Fixpoint no_setof (T: ty) : bool :=
  match T with
  | TSetOf _ => false
  | TSeqOf t => no_setof t
  | TSeq fs | TSet fs => forallb (fun f => no_setof (snd f)) fs
  | TChoice alts => forallb no_setof alts
  | TImp _ x | TExp _ x => no_setof x
  | _ => true
  end.

Lemma seq_wf_req fs : forallb (fun f => is_req (fst f)) fs = true -> seq_wf fs = true.
Proof.
  induction fs as [|[p t] fs IH]; intros H; [reflexivity|].
  cbn [forallb fst] in H. apply Bool.andb_true_iff in H. destruct H as [Hp H].
  cbn [seq_wf]. rewrite Hp, (IH H). reflexivity.
Qed.

Lemma stage2_stage3 ce : forall T, stage2_ty T = true -> (sorts_setof ce = true -> no_setof T = true) ->
  stage3_ty false ce T = true /\ frag_b T = true.
Proof.
  induction T as [| | | | | | | | n|fs IH|fs IH|t IH|t IH|alts IH| |tg x IH|tg x IH] using ty_ind'; intros H2 Hns;
    try (split; reflexivity); try discriminate H2.
  - (* SEQUENCE *)
    cbn [stage2_ty] in H2. cbn [no_setof] in Hns. rewrite forallb_forall in H2.
    assert (Hall: forall f, In f fs -> is_req (fst f) = true /\ stage3_ty false ce (snd f) = true /\ frag_b (snd f) = true).
    { intros f Hin. specialize (H2 f Hin). apply Bool.andb_true_iff in H2. destruct H2 as [Hr H2]. split; [exact Hr|].
      rewrite Forall_forall in IH. apply (IH f Hin H2). intros Hs. specialize (Hns Hs). rewrite forallb_forall in Hns. exact (Hns f Hin). }
    split.
    + cbn [stage3_ty]. apply Bool.andb_true_iff. split.
      * apply forallb_forall. intros f Hin. destruct (Hall f Hin) as (Hr & H3 & Hf).
        rewrite H3, Hr. cbn [negb orb andb].
        destruct (stage3_ty_base false ce (snd f) H3) as [Hw _]. destruct (frag_b_tagged (snd f) Hf) as [Htb Hpt].
        unfold direct_ok. rewrite (plain_keys (snd f) Hw Htb Hpt). cbn [orb andb].
        unfold def_ok. destruct (fst f); [reflexivity|discriminate Hr|discriminate Hr].
      * apply seq_wf_req. apply forallb_forall. intros f Hin. exact (proj1 (Hall f Hin)).
    + cbn [frag_b]. apply forallb_forall. intros f Hin. exact (proj2 (proj2 (Hall f Hin))).
  - (* SEQUENCE OF *)
    cbn [stage2_ty] in H2. cbn [no_setof] in Hns. destruct (IH H2 Hns) as [H3 Hf]. split; [|exact Hf].
    cbn [stage3_ty]. rewrite H3. cbn [andb].
    destruct (stage3_ty_base false ce t H3) as [Hw _]. destruct (frag_b_tagged t Hf) as [Htb Hpt].
    unfold direct_ok. rewrite (plain_keys t Hw Htb Hpt). reflexivity.
  - (* SET OF *)
    cbn [stage2_ty] in H2. cbn [no_setof] in Hns.
    assert (Hs: sorts_setof ce = false) by (destruct (sorts_setof ce); [specialize (Hns eq_refl); discriminate Hns|reflexivity]).
    destruct (IH H2) as [H3 Hf]; [rewrite Hs; discriminate|]. split; [|exact Hf].
    cbn [stage3_ty]. rewrite H3, Hs. cbn [andb negb orb].
    destruct (stage3_ty_base false ce t H3) as [Hw _]. destruct (frag_b_tagged t Hf) as [Htb Hpt].
    unfold direct_ok. rewrite (plain_keys t Hw Htb Hpt). reflexivity.
  - (* IMPLICIT *)
    cbn [stage2_ty] in H2. cbn [no_setof] in Hns. apply Bool.andb_true_iff in H2. destruct H2 as [Hn H2].
    destruct (IH H2 Hns) as [H3 Hf]. split; [|exact Hf].
    cbn [stage3_ty]. rewrite Hn, H3. cbn [andb]. exact (proj2 (frag_b_tagged x Hf)).
  - (* EXPLICIT *)
    cbn [stage2_ty] in H2. cbn [no_setof] in Hns. apply Bool.andb_true_iff in H2. destruct H2 as [Hn H2].
    destruct (IH H2 Hns) as [H3 Hf]. split; [|exact Hf].
    cbn [stage3_ty]. rewrite Hn, H3. reflexivity.
Qed.

(* Round trip, stage 3 (a): the types of stage 2 (simple types, SEQUENCE OF, SET OF, SEQUENCE with mandatory
   components, tagging), BER or DER encoder (SET OF: BER only, the DER encoder sorts the elements),
   BER, CER or DER decoder *)
Theorem roundtrip_stage3a : forall ce cd T v b tl,
  enc_ok ce -> stage2_ty T = true -> (sorts_setof ce = true -> no_setof T = true) -> stage3_val ce cd T v = true ->
  encode ce true 0 T v = Ok b -> N.of_nat (length b) <= index_max ->
  exists v', decode cd (Some T) (b ++ tl) = Ok (DV T v', tl) /\ abs T v' = abs T v.
Proof.
  intros ce cd T v b tl Hce H2 Hns Hv He Hmax.
  destruct (stage2_stage3 ce T H2 Hns) as [H3 Hf].
  exact (roundtrip_stage3b ce cd T v b tl Hce H3 Hf Hv He Hmax).
Qed.

Print Assumptions roundtrip_stage3a.

Example roundtrip_stage3a_nonvacuous :
  stage2_ty stage2_example_ty = true /\ (sorts_setof BER = true -> no_setof stage2_example_ty = true)
  /\ stage3_val BER DER stage2_example_ty
       (VRec [ Some (VList [VInt 5; VInt (-129)]);
               Some (VList [VRec [Some (VBool false); Some (VOcts [1;2;3])]; VRec [Some (VBool false); Some (VOcts [])]]);
               Some (VList [VList [VNull; VNull]; VList []]);
               Some (VRec []) ]) = true
  /\ no_setof (TSeqOf (TSeq [(Req, TBool); (Req, TOcts)])) = true
  /\ stage3_val DER CER (TSeqOf (TSeq [(Req, TBool); (Req, TOcts)])) (VList [VRec [Some (VBool true); Some (VOcts [7])]]) = true
  /\ encode DER true 0 (TSeqOf (TSeq [(Req, TBool); (Req, TOcts)])) (VList [VRec [Some (VBool true); Some (VOcts [7])]])
     = Ok [48; 8; 48; 6; 1; 1; 255; 4; 1; 7].
Proof. vm_compute. repeat split; try reflexivity; discriminate. Qed.

(* C03, reading side: the independent reference's interpretation ([interp], Spec/X690.v) of the
   nodes its parser yields.  A property of the specification alone.

   [reads_as T a e]: the octets e begin with an identifier; they, and the same octets under any
   other identifier (IMPLICIT tagging above), are parsed to a node that [interp] reads, for the
   type T, as the abstract value a.  Closed under IMPLICIT and EXPLICIT tagging (definite and
   indefinite wrappers); established for primitive and constructed encodings of the base types. *)
From Coq Require Import Lia.
From PV Require Import Base.Bytes Model.Tag Model.Types Spec.X690
     Proofs.Bits Proofs.SpecOctets Proofs.LeafInt Proofs.DerReference Proofs.ReaderParse.
Local Open Scope N_scope.

Definition exp_tag (expect: option (tclass * N)) (own: tclass * N) : tclass * N :=
  match expect with Some x => x | None => own end.

Definition reads_as (T: ty) (a: aval) (e: bytes) : Prop :=
  exists c0 pc num0 rb,
    e = ident c0 pc num0 ++ rb /\
    first_tags T = Some [(c0, num0)] /\
    forall expect: option (tclass * N),
      exists n, parses (ident (fst (exp_tag expect (c0, num0))) pc (snd (exp_tag expect (c0, num0))) ++ rb) n /\
                node_tag n = exp_tag expect (c0, num0) /\ interp T expect n = Some a.

Lemma tag_pair_eqb_refl tg : tag_pair_eqb tg tg = true.
Proof. unfold tag_pair_eqb. rewrite !N.eqb_refl. reflexivity. Qed.

Lemma may_start_single T tg : first_tags T = Some [tg] -> may_start T tg = true.
Proof. intros H. unfold may_start. rewrite H. cbn [existsb]. rewrite tag_pair_eqb_refl. reflexivity. Qed.

(* what a component reader needs: the node, under no expectation *)
Lemma reads_none T a e : reads_as T a e ->
  exists n, parses e n /\ interp T None n = Some a /\ first_tags T = Some [node_tag n].
Proof.
  intros (c0 & pc & num0 & rb & -> & Hft & H). destruct (H None) as (n & Hp & Htag & Hi).
  cbn [exp_tag fst snd] in *. exists n. rewrite Htag. auto.
Qed.

Lemma reads_nz_head T a e c num : reads_as T a e -> first_tags T = Some [(c, num)] ->
  (c <> Univ \/ num <> 0) -> nz_head e.
Proof.
  intros (c0 & pc & num0 & rb & -> & Hft & _) Hft' Hnz. rewrite Hft in Hft'. injection Hft' as -> ->.
  apply ident_nz_head. tauto.
Qed.

(* the whole reader *)
Theorem reads_read T a e tl : reads_as T a e -> read T (e ++ tl) = Some (a, tl).
Proof.
  intros H. destruct (reads_none T a e H) as (n & [_ Hp] & Hi & _).
  unfold read, parse. rewrite Hp by (rewrite app_length; lia). rewrite Hi. reflexivity.
Qed.

(* ---------- 8.14.3 IMPLICIT ---------- *)
Theorem reads_imp t x a e : reads_as x a e ->
  exists e', retag t e = Some e' /\ reads_as (TImp t x) a e'.
Proof.
  intros (c0 & pc & num0 & rb & -> & Hft & H).
  exists (ident (tcls t) pc (tnum t) ++ rb). split.
  - unfold retag. rewrite split_ident_ident. reflexivity.
  - exists (tcls t), pc, (tnum t), rb. split; [reflexivity|split; [reflexivity|]].
    intros [ex|].
    + destruct (H (Some ex)) as (n & Hp & Htag & Hi). exists n. cbn [exp_tag] in *. auto.
    + destruct (H (Some (tcls t, tnum t))) as (n & Hp & Htag & Hi). exists n. cbn [exp_tag] in *. auto.
Qed.

Lemma tlv_nonempty c pc num contents : tlv c pc num contents <> [].
Proof. pose proof (tlv_length c pc num contents). destruct (tlv c pc num contents); [cbn [length] in *; lia|discriminate]. Qed.
Lemma itlv_nonempty c num contents : itlv c num contents <> [].
Proof.
  unfold itlv. pose proof (ident_length_pos c true num).
  destruct (ident c true num); [cbn [length] in *; lia|discriminate].
Qed.

(* ---------- a constructed encoding under its own or a replaced identifier ---------- *)
Theorem reads_cons T a c0 num0 (indef: bool) es kids :
  first_tags T = Some [(c0, num0)] ->
  Forall2 parses es kids -> (indef = true -> Forall nz_head es) ->
  (indef = false -> N.of_nat (length (concat es)) < max_len) ->
  (forall expect raw, raw <> [] ->
     interp T expect (Cons (fst (exp_tag expect (c0, num0))) (snd (exp_tag expect (c0, num0))) indef kids raw) = Some a) ->
  reads_as T a (ctlv indef c0 num0 (concat es)).
Proof.
  intros Hft Hk Hnz Hlen Hi. destruct indef.
  - exists c0, true, num0, ([128] ++ concat es ++ [0; 0]). split; [reflexivity|split; [exact Hft|]].
    intros expect. set (tg := exp_tag expect (c0, num0)).
    exists (Cons (fst tg) (snd tg) true kids (itlv (fst tg) (snd tg) (concat es))).
    split; [apply parses_cons_indef; [exact Hk|apply Hnz; reflexivity]|].
    split; [destruct tg; reflexivity|apply Hi; apply itlv_nonempty].
  - exists c0, true, num0, (length_octets (N.of_nat (length (concat es))) ++ concat es).
    split; [reflexivity|split; [exact Hft|]].
    intros expect. set (tg := exp_tag expect (c0, num0)).
    exists (Cons (fst tg) (snd tg) false kids (tlv (fst tg) true (snd tg) (concat es))).
    split; [apply parses_cons_def; [exact Hk|apply Hlen; reflexivity]|].
    split; [destruct tg; reflexivity|apply Hi; apply tlv_nonempty].
Qed.

(* ---------- a primitive encoding ---------- *)
Theorem reads_prim T a c0 num0 contents :
  first_tags T = Some [(c0, num0)] -> N.of_nat (length contents) < max_len ->
  (forall expect raw, interp T expect (Prim (fst (exp_tag expect (c0, num0))) (snd (exp_tag expect (c0, num0))) contents raw) = Some a) ->
  reads_as T a (tlv c0 false num0 contents).
Proof.
  intros Hft Hlen Hi.
  exists c0, false, num0, (length_octets (N.of_nat (length contents)) ++ contents).
  split; [reflexivity|split; [exact Hft|]].
  intros expect. set (tg := exp_tag expect (c0, num0)).
  exists (Prim (fst tg) (snd tg) contents (tlv (fst tg) false (snd tg) contents)).
  split; [apply parses_prim; exact Hlen|]. split; [destruct tg; reflexivity|apply Hi].
Qed.

(* ---------- 8.14.2 EXPLICIT ---------- *)
Lemma same_tag_exp expect own tg' indef kids raw :
  tg' = exp_tag expect own ->
  same_tag (match expect with Some e => e | None => own end) (Cons (fst tg') (snd tg') indef kids raw) = true.
Proof.
  intros ->. unfold same_tag. cbn [node_tag]. unfold exp_tag. destruct expect as [[c n]|]; [|destruct own as [c n]];
    cbn [fst snd]; apply tag_pair_eqb_refl.
Qed.

Theorem reads_exp t x a e (indef: bool) : reads_as x a e ->
  (indef = true -> nz_head e) -> (indef = false -> N.of_nat (length e) < max_len) ->
  reads_as (TExp t x) a (ctlv indef (tcls t) (tnum t) e).
Proof.
  intros Hx Hnz Hlen. destruct (reads_none x a e Hx) as (n & Hp & Hi & _).
  replace e with (concat [e]) by (cbn [concat]; apply app_nil_r).
  apply (reads_cons (TExp t x) a (tcls t) (tnum t) indef [e] [n]).
  - reflexivity.
  - constructor; [exact Hp|constructor].
  - intros Hd. constructor; [apply Hnz; exact Hd|constructor].
  - intros Hd. cbn [concat]. rewrite app_nil_r. apply Hlen; exact Hd.
  - intros expect raw _. cbn [interp].
    rewrite (same_tag_exp expect (tcls t, tnum t) _ indef [n] raw eq_refl). exact Hi.
Qed.

(* ====================================================================== *)
(* the base types                                                          *)
(* ====================================================================== *)

Lemma same_tag_prim expect own contents raw :
  same_tag (match expect with Some e => e | None => own end)
           (Prim (fst (exp_tag expect own)) (snd (exp_tag expect own)) contents raw) = true.
Proof.
  unfold same_tag, exp_tag. cbn [node_tag]. destruct expect as [[c n]|]; [|destruct own as [c n]];
    cbn [fst snd]; apply tag_pair_eqb_refl.
Qed.

Lemma same_tag_cons expect own indef kids raw :
  same_tag (match expect with Some e => e | None => own end)
           (Cons (fst (exp_tag expect own)) (snd (exp_tag expect own)) indef kids raw) = true.
Proof. apply same_tag_exp. reflexivity. Qed.

Theorem reads_bool (o: N) : reads_as TBool (ABool (negb (N.eqb o 0))) (tlv Univ false 1 [o]).
Proof.
  apply reads_prim; [reflexivity|vm_compute; reflexivity|].
  intros expect raw. cbn [interp]. rewrite (same_tag_prim expect (Univ, 1)). reflexivity.
Qed.

Theorem reads_int (o: N) (c: bytes) : N.of_nat (length (o :: c)) < max_len ->
  reads_as TInt (AInt (signed_value (o :: c))) (tlv Univ false 2 (o :: c)).
Proof.
  intros Hl. apply reads_prim; [reflexivity|exact Hl|].
  intros expect raw. cbn [interp]. rewrite (same_tag_prim expect (Univ, 2)). reflexivity.
Qed.

Theorem reads_enum (o: N) (c: bytes) : N.of_nat (length (o :: c)) < max_len ->
  reads_as TEnum (AInt (signed_value (o :: c))) (tlv Univ false 10 (o :: c)).
Proof.
  intros Hl. apply reads_prim; [reflexivity|exact Hl|].
  intros expect raw. cbn [interp]. rewrite (same_tag_prim expect (Univ, 10)). reflexivity.
Qed.

Theorem reads_null : reads_as TNull ANull (tlv Univ false 5 []).
Proof.
  apply reads_prim; [reflexivity|vm_compute; reflexivity|].
  intros expect raw. cbn [interp]. rewrite (same_tag_prim expect (Univ, 5)). reflexivity.
Qed.

Theorem reads_oid (c: bytes) (arcs: list N) : oid_value c = Some arcs -> N.of_nat (length c) < max_len ->
  reads_as TOid (AOid arcs) (tlv Univ false 6 c).
Proof.
  intros Hv Hl. apply reads_prim; [reflexivity|exact Hl|].
  intros expect raw. cbn [interp]. rewrite (same_tag_prim expect (Univ, 6)), Hv. reflexivity.
Qed.

Theorem reads_real (c: bytes) (r: areal) : real_value c = Some r -> N.of_nat (length c) < max_len ->
  reads_as TReal (AReal r) (tlv Univ false 9 c).
Proof.
  intros Hv Hl. apply reads_prim; [reflexivity|exact Hl|].
  intros expect raw. cbn [interp]. rewrite (same_tag_prim expect (Univ, 9)), Hv. reflexivity.
Qed.

(* --- OCTET STRING and the character string types: primitive, or segmented (8.7.3) --- *)

Lemma segments_S f n :
  segments (S f) n = match n with
                     | Prim Univ 4 c _ => Some c
                     | Cons Univ 4 _ kids _ => opt_bind (opt_all (map (segments f) kids)) (fun l => Some (concat l))
                     | _ => None
                     end.
Proof. reflexivity. Qed.

Theorem reads_octs_prim (b: bytes) : N.of_nat (length b) < max_len ->
  reads_as TOcts (AOcts b) (tlv Univ false 4 b).
Proof.
  intros Hl. apply reads_prim; [reflexivity|exact Hl|].
  intros expect raw. cbn [interp]. rewrite (same_tag_prim expect (Univ, 4)). reflexivity.
Qed.

Theorem reads_str_prim (u: N) (b: bytes) : N.of_nat (length b) < max_len ->
  reads_as (TStr u) (AOcts b) (tlv Univ false u b).
Proof.
  intros Hl. apply reads_prim; [reflexivity|exact Hl|].
  intros expect raw. cbn [interp]. rewrite (same_tag_prim expect (Univ, u)). reflexivity.
Qed.

Definition piece_node (tagnum: N) (p: bytes) : node := Prim Univ tagnum p (tlv Univ false tagnum p).

Lemma pieces_parse tagnum : forall ps, Forall (fun p => N.of_nat (length p) < max_len) ps ->
  Forall2 parses (map (tlv Univ false tagnum) ps) (map (piece_node tagnum) ps).
Proof.
  induction 1 as [|p ps Hp _ IH]; cbn [map]; constructor; [apply parses_prim; exact Hp|exact IH].
Qed.

Lemma pieces_nz tagnum ps : tagnum <> 0 -> Forall nz_head (map (tlv Univ false tagnum) ps).
Proof.
  intros Hn. apply Forall_forall. intros e He. apply in_map_iff in He. destruct He as (p & <- & _).
  unfold tlv. apply ident_nz_head. right. right. exact Hn.
Qed.

Lemma segments_pieces f ps : opt_all (map (segments (S f)) (map (piece_node 4) ps)) = Some ps.
Proof.
  induction ps as [|p ps IH]; [reflexivity|].
  cbn [map opt_all]. rewrite segments_S. unfold piece_node at 1. cbv iota. rewrite IH. reflexivity.
Qed.

(* a constructed string whose members are primitive segments *)
Theorem reads_octs_cons (indef: bool) (ps: list bytes) :
  Forall (fun p => N.of_nat (length p) < max_len) ps ->
  (indef = false -> N.of_nat (length (concat (map (tlv Univ false 4) ps))) < max_len) ->
  reads_as TOcts (AOcts (concat ps)) (ctlv indef Univ 4 (concat (map (tlv Univ false 4) ps))).
Proof.
  intros Hps Hl. apply (reads_cons TOcts _ Univ 4 indef _ (map (piece_node 4) ps)).
  - reflexivity.
  - apply pieces_parse. exact Hps.
  - intros _. apply pieces_nz. lia.
  - exact Hl.
  - intros expect raw Hraw. cbn [interp]. rewrite (same_tag_cons expect (Univ, 4)). cbn [negb].
    cbn [node_raw]. destruct raw as [|x raw]; [congruence|]. cbn [length].
    rewrite segments_S. cbv iota. rewrite segments_pieces. reflexivity.
Qed.

(* the character and useful string types: constructed form made of OCTET STRING segments (8.23.6) *)
Theorem reads_str_cons (u: N) (indef: bool) (ps: list bytes) :
  Forall (fun p => N.of_nat (length p) < max_len) ps ->
  (indef = false -> N.of_nat (length (concat (map (tlv Univ false 4) ps))) < max_len) ->
  reads_as (TStr u) (AOcts (concat ps)) (ctlv indef Univ u (concat (map (tlv Univ false 4) ps))).
Proof.
  intros Hps Hl. apply (reads_cons (TStr u) _ Univ u indef _ (map (piece_node 4) ps)).
  - reflexivity.
  - apply pieces_parse. exact Hps.
  - intros _. apply pieces_nz. lia.
  - exact Hl.
  - intros expect raw Hraw. cbn [interp]. rewrite (same_tag_cons expect (Univ, u)). cbn [negb].
    cbn [node_raw]. destruct raw as [|x raw]; [congruence|]. cbn [length].
    rewrite segments_S. cbv iota. rewrite segments_pieces. reflexivity.
Qed.

(* --- BIT STRING: primitive, or segmented (8.6.4) --- *)

Lemma bit_segments_S f n :
  bit_segments (S f) n = match n with
                         | Prim Univ 3 (u :: c) _ => if N.ltb 7 u then None else Some [(bits_of_octets_spec c, u)]
                         | Cons Univ 3 _ kids _ => opt_bind (opt_all (map (bit_segments f) kids)) (fun l => Some (concat l))
                         | _ => None
                         end.
Proof. reflexivity. Qed.

Theorem reads_bits_prim (u: N) (c: bytes) (bs: list bool) :
  N.ltb 7 u = false -> join_bit_segments [(bits_of_octets_spec c, u)] = Some bs ->
  N.of_nat (length (u :: c)) < max_len ->
  reads_as TBits (ABits bs) (tlv Univ false 3 (u :: c)).
Proof.
  intros Hu Hj Hl. apply reads_prim; [reflexivity|exact Hl|].
  intros expect raw. cbn [interp]. rewrite (same_tag_prim expect (Univ, 3)). cbn [negb].
  rewrite bit_segments_S. cbv iota. rewrite Hu. cbn [opt_bind]. rewrite Hj. reflexivity.
Qed.

(* what one primitive segment contributes *)
Definition bit_piece (p: bytes) : option (list bool * N) :=
  match p with u :: c => if N.ltb 7 u then None else Some (bits_of_octets_spec c, u) | [] => None end.

Lemma bit_segments_pieces f : forall ps l, opt_all (map bit_piece ps) = Some l ->
  opt_all (map (bit_segments (S f)) (map (piece_node 3) ps)) = Some (map (fun x => [x]) l).
Proof.
  induction ps as [|p ps IH]; intros l H.
  - cbn in H. injection H as <-. reflexivity.
  - cbn [map opt_all] in H. destruct (bit_piece p) as [x|] eqn:Ep; [|discriminate H].
    destruct (opt_all (map bit_piece ps)) as [l'|] eqn:El; cbn [opt_bind] in H; [|discriminate H].
    injection H as <-. cbn [map opt_all]. rewrite bit_segments_S. unfold piece_node at 1. cbv iota.
    unfold bit_piece in Ep. destruct p as [|u c]; [discriminate Ep|].
    destruct (N.ltb 7 u); [discriminate Ep|]. injection Ep as <-.
    rewrite (IH l' eq_refl). reflexivity.
Qed.

Lemma concat_singletons {A} (l: list A) : concat (map (fun x => [x]) l) = l.
Proof. induction l as [|x l IH]; [reflexivity|]. cbn [map concat app]. rewrite IH. reflexivity. Qed.

Theorem reads_bits_cons (indef: bool) (ps: list bytes) (l: list (list bool * N)) (bs: list bool) :
  opt_all (map bit_piece ps) = Some l -> join_bit_segments l = Some bs ->
  Forall (fun p => N.of_nat (length p) < max_len) ps ->
  (indef = false -> N.of_nat (length (concat (map (tlv Univ false 3) ps))) < max_len) ->
  reads_as TBits (ABits bs) (ctlv indef Univ 3 (concat (map (tlv Univ false 3) ps))).
Proof.
  intros Hp Hj Hps Hl. apply (reads_cons TBits _ Univ 3 indef _ (map (piece_node 3) ps)).
  - reflexivity.
  - apply pieces_parse. exact Hps.
  - intros _. apply pieces_nz. lia.
  - exact Hl.
  - intros expect raw Hraw. cbn [interp]. rewrite (same_tag_cons expect (Univ, 3)). cbn [negb].
    cbn [node_raw]. destruct raw as [|x raw]; [congruence|]. cbn [length].
    rewrite bit_segments_S. cbv iota. rewrite (bit_segments_pieces _ ps l Hp). cbn [opt_bind].
    rewrite concat_singletons, Hj. reflexivity.
Qed.

(* --- SEQUENCE OF --- *)

Definition interp_each (t: ty) : list node -> list (option aval) :=
  fix go (l: list node) := match l with [] => [] | k :: r => interp t None k :: go r end.

Lemma interp_seqof t expect c num indef kids raw :
  interp (TSeqOf t) expect (Cons c num indef kids raw) =
  if negb (same_tag (match expect with Some e => e | None => (Univ, 16) end) (Cons c num indef kids raw)) then None
  else opt_bind (opt_all (interp_each t kids)) (fun l => Some (AList l)).
Proof. reflexivity. Qed.

Lemma reads_each t : forall avs es, Forall2 (reads_as t) avs es ->
  exists kids, Forall2 parses es kids /\ opt_all (interp_each t kids) = Some avs.
Proof.
  induction 1 as [|a e avs es Ha _ IH].
  - exists []. split; [constructor|reflexivity].
  - destruct IH as (kids & Hk & Hi). destruct (reads_none t a e Ha) as (n & Hp & Hn & _).
    exists (n :: kids). split; [constructor; assumption|]. cbn [interp_each opt_all]. rewrite Hn, Hi. reflexivity.
Qed.

Theorem reads_seqof t (indef: bool) avs es : Forall2 (reads_as t) avs es ->
  (indef = true -> Forall nz_head es) -> (indef = false -> N.of_nat (length (concat es)) < max_len) ->
  reads_as (TSeqOf t) (AList avs) (ctlv indef Univ 16 (concat es)).
Proof.
  intros Hr Hnz Hl. destruct (reads_each t avs es Hr) as (kids & Hk & Hi).
  apply (reads_cons (TSeqOf t) _ Univ 16 indef es kids); [reflexivity|exact Hk|exact Hnz|exact Hl|].
  intros expect raw _. rewrite interp_seqof, (same_tag_cons expect (Univ, 16)). cbn [negb]. rewrite Hi. reflexivity.
Qed.

(* --- SEQUENCE: components in order, OPTIONAL / DEFAULT ones possibly missing --- *)

Definition seq_go : list (presence * ty) -> list node -> option (list (option aval)) :=
  fix go (fs: list (presence * ty)) (kids: list node) {struct fs} : option (list (option aval)) :=
    match fs with
    | [] => match kids with [] => Some [] | _ => None end
    | (p, ft) :: fs' =>
        let absent := match p with
                      | Req => None
                      | Opt => opt_bind (go fs' kids) (fun r => Some (None :: r))
                      | Def d => opt_bind (go fs' kids) (fun r => Some (Some (abs ft d) :: r))
                      end in
        match kids with
        | k :: kids' =>
            if may_start ft (node_tag k) then
              match interp ft None k with
              | Some a => opt_bind (go fs' kids') (fun r => Some (Some a :: r))
              | None => None
              end
            else absent
        | [] => absent
        end
    end.

Lemma interp_seq fs expect c num indef kids raw :
  interp (TSeq fs) expect (Cons c num indef kids raw) =
  if negb (same_tag (match expect with Some e => e | None => (Univ, 16) end) (Cons c num indef kids raw)) then None
  else opt_bind (seq_go fs kids) (fun l => Some (ARec l)).
Proof. reflexivity. Qed.

(* the next member, if any, does not carry a tag this component could start with *)
Definition head_differs (ft: ty) (kids: list node) : Prop :=
  match kids with [] => True | k :: _ => may_start ft (node_tag k) = false end.

Inductive fields_read : list (presence * ty) -> list node -> list (option aval) -> Prop :=
| FRnil : fields_read [] [] []
| FRpresent p ft fs k kids a r :
    interp ft None k = Some a -> first_tags ft = Some [node_tag k] -> fields_read fs kids r ->
    fields_read ((p, ft) :: fs) (k :: kids) (Some a :: r)
| FRopt ft fs kids r : head_differs ft kids -> fields_read fs kids r -> fields_read ((Opt, ft) :: fs) kids (None :: r)
| FRdef d ft fs kids r : head_differs ft kids -> fields_read fs kids r ->
    fields_read ((Def d, ft) :: fs) kids (Some (abs ft d) :: r).

Lemma seq_go_reads : forall fs kids slots, fields_read fs kids slots -> seq_go fs kids = Some slots.
Proof.
  induction 1 as [|p ft fs k kids a r Hi Hft _ IH|ft fs kids r Hd _ IH|d ft fs kids r Hd _ IH].
  - reflexivity.
  - cbn [seq_go]. rewrite (may_start_single ft _ Hft), Hi, IH. reflexivity.
  - cbn [seq_go]. destruct kids as [|k kids']; [rewrite IH; reflexivity|].
    cbn [head_differs] in Hd. rewrite Hd, IH. reflexivity.
  - cbn [seq_go]. destruct kids as [|k kids']; [rewrite IH; reflexivity|].
    cbn [head_differs] in Hd. rewrite Hd, IH. reflexivity.
Qed.

Theorem reads_seq fs (indef: bool) slots es kids : Forall2 parses es kids -> fields_read fs kids slots ->
  (indef = true -> Forall nz_head es) -> (indef = false -> N.of_nat (length (concat es)) < max_len) ->
  reads_as (TSeq fs) (ARec slots) (ctlv indef Univ 16 (concat es)).
Proof.
  intros Hk Hf Hnz Hl.
  apply (reads_cons (TSeq fs) _ Univ 16 indef es kids); [reflexivity|exact Hk|exact Hnz|exact Hl|].
  intros expect raw _. rewrite interp_seq, (same_tag_cons expect (Univ, 16)). cbn [negb].
  rewrite (seq_go_reads fs kids slots Hf). reflexivity.
Qed.

Print Assumptions reads_read.
Print Assumptions reads_imp.
Print Assumptions reads_exp.
Print Assumptions reads_octs_cons.
Print Assumptions reads_str_cons.
Print Assumptions reads_bits_cons.
Print Assumptions reads_seqof.
Print Assumptions reads_seq.

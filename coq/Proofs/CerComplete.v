(* C03, CER completeness: whenever the independent reference assigns a canonical CER encoding
   ([X690.cer T v = Some b], of a length that definite length octets can express at all), the model of
   the library's CER encoder succeeds with exactly these octets - the direction reference -> encoder of
   Proofs/CerReferenceDeep.v [cer_is_reference_all], over the same universe (SEQUENCE, SEQUENCE OF, SET,
   SET OF, CHOICE, ANY, the simple types, any tagging) and the same exclusions (F01, F24), plus the two
   refusals of the library at the leaves that DER completeness also excludes ([all_extra]: a REAL
   exponent of more than 255 octets, UTCTime / GeneralizedTime text the encoder vets) and DEFAULT
   comparisons the model can make. *)
From Coq Require Import Lia Sorting.Permutation.
From PV Require Import Base.Bytes Model.Tag Model.TableTypes Model.Types Model.Enc Gen.Tables Spec.X690
     Proofs.SpecOctets Proofs.TagAlgebra Proofs.ContainerCodecDefs Proofs.ContainerCodecSort
     Proofs.LeafInt Proofs.LeafOidBits Proofs.LeafReal
     Proofs.DerAbsFunction Proofs.DerReference Proofs.DerReference2
     Proofs.ReaderParse Proofs.ReaderFrame Proofs.ReaderCerSegments Proofs.ReaderModel Proofs.ReaderCer
     Proofs.ReaderBer Proofs.CerReferenceDeep.
Local Open Scope N_scope.

(* ====================================================================== *)
(* 1. the reference refuses what has no tag set / no base encoding (any cer) *)
(* ====================================================================== *)

Theorem canon_wrappers_none_c : forall cer T v, canon cer (base_of T) v = None -> canon cer T v = None.
Proof.
  intros cer. induction T as [| | | | | | | | n|fs IH|fs IH|t IH|t IH|alts IH| |tg x IH|tg x IH] using ty_ind';
    intros v Hb; try exact Hb.
  - rewrite canon_imp, (IH v Hb). reflexivity.
  - rewrite canon_exp, (IH v Hb). destruct (tcls tg); reflexivity.
Qed.

Theorem canon_tagset_err_c : forall cer T v e, tagset_of T = Err e -> canon cer T v = None.
Proof.
  intros cer. induction T as [| | | | | | | | n|fs IH|fs IH|t IH|t IH|alts IH| |tg x IH|tg x IH] using ty_ind';
    intros v e Hts; try discriminate Hts.
  - cbn [tagset_of] in Hts. destruct (tagset_of x) as [ts'|e'] eqn:Ex; cbn [bind] in Hts; [discriminate|].
    rewrite canon_imp, (IH v e' eq_refl). reflexivity.
  - cbn [tagset_of] in Hts. rewrite canon_exp. destruct (tagset_of x) as [ts'|e'] eqn:Ex; cbn [bind] in Hts.
    + pose proof (tag_explicitly_spec ts' tg) as Hsp. rewrite Hts in Hsp. destruct Hsp as [-> _]. reflexivity.
    + rewrite (IH v e' eq_refl). destruct (tcls tg); reflexivity.
Qed.

(* ====================================================================== *)
(* 2. framing never fails in the indefinite mode                            *)
(* ====================================================================== *)

Lemma frame_one_indef_total t ic sub : exists s, frame_one t ic false true sub = Ok s.
Proof. unfold frame_one. cbn [negb andb enc_len bind]. eexists. reflexivity. Qed.

Lemma frame_outer_indef_total : forall r ic s, exists b, frame_outer r ic false true s = Ok b.
Proof.
  induction r as [|x r IH]; intros ic s; cbn [frame_outer]; [eexists; reflexivity|].
  destruct (frame_one_indef_total x ic s) as (s1 & ->). cbn [bind]. apply IH.
Qed.

Lemma cwrap_length indef ts c : (length c <= length (cwrap indef ts c))%nat.
Proof. unfold cwrap. apply fold_wrap_length. Qed.

(* constructed content under any constructed tag set *)
Lemma frame_cwrap_total ts content i : Forall (fun t => tcon t = true) ts -> (i = false \/ content <> []) ->
  frame ts content true (mkOpts false 1000 i) true = Ok (cwrap true ts content).
Proof.
  intros Hall Hi.
  assert (Hex: exists b, frame ts content true (mkOpts false 1000 i) true = Ok b).
  { destruct ts as [|t0 r]; [eexists; reflexivity|]. cbn [frame o_ifne o_def].
    assert (Hc: ((match content with [] => true | _ => false end) && true && i)%bool = false).
    { destruct Hi as [->|Hne]; [apply Bool.andb_false_r|]. destruct content; [congruence|reflexivity]. }
    rewrite Hc. destruct (frame_one_indef_total t0 true content) as (s0 & ->). cbn [bind].
    apply frame_outer_indef_total. }
  destruct Hex as (b & Hb). rewrite Hb. f_equal. apply (frame_cwrap ts content i b Hall Hi Hb).
Qed.

(* ====================================================================== *)
(* 3. the simple types: the CER encoder is total where the reference answers *)
(* ====================================================================== *)

Lemma fold_pieces_total {A} n (g: A -> bytes) : forall l a0,
  Forall (fun p => N.of_nat (length (g p)) < max_len) l ->
  exists s, fold_left (piece_step n g) l (Ok a0) = Ok s.
Proof.
  induction l as [|x l IH]; intros a0 H; cbn [fold_left]; [eexists; reflexivity|].
  inversion H as [|? ? Hx Hl]; subst.
  unfold piece_step at 2. cbn [bind]. unfold frame_piece.
  rewrite (frame_one_total (utag false n) false true (g x) (form_agrees_prim _) Hx). cbn [bind]. apply IH. exact Hl.
Qed.

Lemma small_lt_max' n : (n <= 1000)%nat -> N.of_nat n < max_len.
Proof. intros H. assert (1000 < max_len) by (vm_compute; reflexivity). lia. Qed.

Lemma enc_octets_like_total v b : octets_of v = Some b -> exists cc, enc_octets_like cer_opts v = Ok cc.
Proof.
  intros Ho. unfold enc_octets_like. rewrite Ho. cbn [cer_opts o_chunk].
  change (N.eqb 1000 0) with false. cbn [orb].
  destruct (Nat.leb (length b) (N.to_nat 1000)); [eexists; reflexivity|].
  assert (Hs: exists s, enc_string_chunked v (N.to_nat 1000) = Ok s).
  { assert (G: forall b0 : bytes, exists s,
              fold_left (fun acc piece => do a <- acc; do p <- frame_piece 4 piece; Ok (a ++ p))
                        (chunks (S (length b0)) (N.to_nat 1000) b0) (Ok []) = Ok s).
    { intros b0. apply (fold_pieces_total 4 (fun x : bytes => x)).
      apply Forall_forall. intros p Hp. apply chunks_in_len in Hp. apply small_lt_max'. lia. }
    destruct v; cbn [octets_of] in Ho; try discriminate Ho; cbn [enc_string_chunked]; apply G. }
  destruct Hs as (s & ->). cbn [bind]. eexists. reflexivity.
Qed.

Lemma enc_bits_prim_small (p: list bool) : (length p <= 999 * 8)%nat -> (length (enc_bits_prim p) <= 1000)%nat.
Proof.
  intros Hp. unfold enc_bits_prim. cbn [length]. rewrite bits_octets_length.
  pose proof (pad_aligned (length p)) as Ha. pose proof (pad_of_lt (length p)) as Hlt.
  assert ((length p + pad_of (length p)) / 8 <= 999)%nat.
  { apply Nat.div_le_upper_bound; [lia|]. unfold pad_of in *. lia. }
  lia.
Qed.

Lemma enc_bits_total bs : exists cc, enc_bits (mkOpts false 999 false) bs = Ok cc.
Proof.
  unfold enc_bits. cbv zeta. cbn [o_chunk]. change (N.eqb 999 0) with false. cbn [orb]. rewrite E999.
  destruct (Nat.leb (length bs + pad_of (length bs)) (999 * 8)); [eexists; reflexivity|].
  destruct (fold_pieces_total 3 enc_bits_prim (chunks (S (length bs)) (999 * 8) bs) []) as (s & Hs).
  { apply Forall_forall. intros p Hp. apply chunks_in_len in Hp. apply small_lt_max'. apply enc_bits_prim_small. lia. }
  unfold piece_step in Hs.
  match goal with |- context [bind ?F _] => replace F with (@Ok bytes s) by (symmetry; exact Hs) end.
  cbn [bind]. eexists. reflexivity.
Qed.

(* character and useful string types under CER: plain octets, except the two time types *)
Lemma cer_string_encoder n cd fl : concrete_encoder CER (TStr n) = Ok (cd, fl) ->
  cd = EcOcts \/ (n = 23 \/ n = 24).
Proof.
  unfold concrete_encoder. cbn [key_of base_of tag_fallback_key enc_type_map enc_tag_map].
  destruct (lookup3 (KStr n) cer_enc_type_map) as [[cd' fl']|] eqn:E.
  - intros H. injection H as <- <-.
    destruct (lookup3_in _ _ _ _ E) as (k' & Hk & Hin).
    unfold cer_enc_type_map in Hin. cbn [In] in Hin.
    repeat (destruct Hin as [Hin|Hin];
            [injection Hin as <- <- <-;
             first [discriminate Hk | left; reflexivity
                   | right; cbn [tkey_eqb] in Hk; apply N.eqb_eq in Hk; auto]|]).
    contradiction.
  - assert (Ek: lookup3 KOcts cer_enc_tag_map = Some (EcOcts, mkEncFlags true false false None 0 0)) by (vm_compute; reflexivity).
    rewrite Ek. intros H. injection H as <- <-. left; reflexivity.
Qed.

Lemma cer_encoder_total B : simple_base B = true -> exists cd fl, concrete_encoder CER B = Ok (cd, fl).
Proof.
  destruct B; intros H; try discriminate H; try (eexists; eexists; vm_compute; reflexivity).
  unfold concrete_encoder. cbn [key_of base_of tag_fallback_key enc_type_map enc_tag_map].
  destruct (lookup3 (KStr n) cer_enc_type_map) as [[cd' fl']|]; [eexists; eexists; reflexivity|].
  assert (Ek: lookup3 KOcts cer_enc_tag_map = Some (EcOcts, mkEncFlags true false false None 0 0)) by (vm_compute; reflexivity).
  rewrite Ek. eexists; eexists; reflexivity.
Qed.

Lemma cer_contents_total B v cd fl : der_ref_base B v = true -> exact_extra B v = true ->
  concrete_encoder CER B = Ok (cd, fl) -> canon true B v <> None ->
  exists cc, enc_content CER B cd fl cer_opts v = Ok cc.
Proof.
  intros Hd Hx Hce Hc.
  destruct B; try discriminate Hd; destruct v as [bb|z|bs|bo|cs| |arcs|r|vfs|xs|i x|ab]; try discriminate Hd.
  - encoder_is' Hce. eexists. reflexivity.
  - encoder_is' Hce. eexists. reflexivity.
  - encoder_is' Hce. eexists. reflexivity.
  - encoder_is' Hce. cbn [enc_content]. apply enc_bits_total.
  - encoder_is' Hce. cbn [enc_content]. apply (enc_octets_like_total (VOcts bo) bo eq_refl).
  - encoder_is' Hce. eexists. reflexivity.
  - encoder_is' Hce. cbn [enc_content]. cbn [canon] in Hc. rewrite oid_contents_is_enc_oid in Hc.
    destruct (enc_oid arcs) as [c|]; [eexists; reflexivity|]. exfalso. apply Hc. reflexivity.
  - encoder_is' Hce. cbn [enc_content].
    destruct r as [| |m e|m e|].
    + eexists. reflexivity.
    + eexists. reflexivity.
    + cbn [exact_extra] in Hx. apply enc_real_bin_ok_iff in Hx. destruct Hx as [c Hcc]. rewrite Hcc. eexists. reflexivity.
    + cbn [der_ref_base] in Hd. cbn [enc_real]. rewrite Hd. eexists. reflexivity.
    + exfalso. apply Hc. reflexivity.
  - destruct (cer_string_encoder n cd fl Hce) as [->|Hn].
    + cbn [enc_content]. apply (enc_octets_like_total (VOcts bo) bo eq_refl).
    + cbn [exact_extra] in Hx. destruct Hn as [-> | ->]; discriminate Hx.
  - destruct (cer_string_encoder n cd fl Hce) as [->|Hn].
    + cbn [enc_content]. apply (enc_octets_like_total (VChars cs) (concat cs) eq_refl).
    + cbn [exact_extra] in Hx. destruct Hn as [-> | ->]; discriminate Hx.
Qed.

Lemma all_extra_simple B v : simple_base B = true -> all_extra B v = exact_extra B v.
Proof. destruct B; intros H; try discriminate H; reflexivity. Qed.

(* the statement proved for every type *)
Definition Pcc (T: ty) : Prop := forall i v b,
  cer_all T v = true -> all_extra T v = true -> (i = false \/ f24c T v = false) ->
  cer T v = Some b -> N.of_nat (length b) < max_len -> enc CER T (mkOpts false 1000 i) v = Ok b.

Theorem Pcc_simple T : simple_base (base_of T) = true -> Pcc T.
Proof.
  intros Hs i v b Hd Hx _ Hr Hlen.
  destruct (cer_all_simple_val T v Hs Hd) as [Hv Hf].
  rewrite all_extra_base, (all_extra_simple _ _ Hs) in Hx.
  assert (Hi: enc CER T (mkOpts false 1000 i) v = enc CER T (mkOpts false 1000 false) v).
  { destruct i; [apply (cer_simple_ifne T v Hv)|reflexivity]. }
  rewrite Hi. clear Hi i.
  (* it is enough that the encoder answers: soundness identifies the answer *)
  assert (Hex: exists b', enc CER T (mkOpts false 1000 false) v = Ok b').
  { unfold der_ref_val in Hv. unfold cer in Hr.
    destruct (tagset_of T) as [ts|e0] eqn:Ets; [|rewrite (canon_tagset_err_c true T v e0 Ets) in Hr; discriminate Hr].
    destruct (canon true (base_of T) v) as [eb|] eqn:Eb; [|rewrite (canon_wrappers_none_c true T v Eb) in Hr; discriminate Hr].
    destruct (cer_encoder_total (base_of T) Hs) as (cd & fl & Hce).
    destruct (cer_contents_total (base_of T) v cd fl Hv Hx Hce) as ([content ic] & Hc); [rewrite Eb; discriminate|].
    destruct (canon_simple (base_of T) v Hs) as [Htb _].
    destruct (tagset_shape_g T _ Htb ts Ets) as (t0 & r & -> & Hc0 & Hall).
    destruct (leaf_reads CER (base_of T) v cd fl cer_opts content ic Hv Hce Hc) as (Hfl & Hic & _).
    (* the reference's encoding, to bound the contents *)
    pose proof (cer_contents (base_of T) v cd fl content ic Hv Hce Hc) as Hcan.
    assert (Hb: b = gframe_ts true (t0 :: r) ic
                  (if (ic && true)%bool then [128] ++ content ++ [0; 0] else length_octets (N.of_nat (length content)) ++ content)).
    { assert (Hw: canon true T v = Some (gframe_ts true (t0 :: r) ic
                  (if (ic && true)%bool then [128] ++ content ++ [0; 0] else length_octets (N.of_nat (length content)) ++ content))).
      { apply (canon_wrappers_g T v true ic _ (base_tag (base_of T)) (simple_tagged T Hs) Htb); [|exact Ets].
        rewrite Hcan. unfold base_enc. rewrite base_tag_univ. reflexivity. }
      rewrite Hw in Hr. injection Hr as <-. reflexivity. }
    assert (Hcl: N.of_nat (length content) < max_len).
    { remember (if (ic && true)%bool then [128] ++ content ++ [0; 0]
                 else length_octets (N.of_nat (length content)) ++ content) as rb eqn:Erb.
      assert (Hg: (length rb <= length b)%nat) by (rewrite Hb, Erb; apply gframe_ts_length).
      subst rb. destruct (ic && true)%bool; rewrite !app_length in Hg; lia. }
    rewrite enc_cer_unfold, concrete_encoder_base, Hce. cbn [bind fst snd]. rewrite Ets. cbn [bind].
    rewrite enc_content_base, Hc. cbn [bind fst snd].
    cbn [frame o_ifne o_def]. rewrite Bool.andb_false_r.
    assert (H0: exists s0, frame_one t0 ic (if ic then false else true) (ef_indef fl) content = Ok s0).
    { destruct ic.
      - rewrite Hfl, (Hic eq_refl). apply frame_one_indef_total.
      - unfold frame_one. cbn [negb andb]. destruct (enc_len_total _ Hcl) as (l & ->). cbn [bind]. eexists. reflexivity. }
    destruct H0 as (s0 & ->). cbn [bind].
    destruct r as [|t1 r']; [cbn [frame_outer]; eexists; reflexivity|].
    assert (Hsi: ef_indef fl = true).
    { rewrite Hfl. unfold no_f01 in Hf. apply Bool.orb_true_iff in Hf. destruct Hf as [Hf|Hf]; [exact Hf|].
      destruct (no_exp_single T _ Htb Hf _ Ets) as (t & E). discriminate E. }
    rewrite Hsi. apply frame_outer_indef_total. }
  destruct Hex as (b' & Hb'). rewrite Hb'. f_equal.
  pose proof (cer_is_reference_simple T v false 1000 b' Hv Hf Hb') as Hs'. rewrite Hs' in Hr. injection Hr as <-. reflexivity.
Qed.

(* ====================================================================== *)
(* 4. the constructed types                                                *)
(* ====================================================================== *)

Definition Qcc (B: ty) : Prop := forall v e,
  cer_all B v = true -> all_extra B v = true -> canon true B v = Some e ->
  exists tsb c cd fl,
    tagset_of B = Ok tsb /\ e = cwrap true tsb c /\ concrete_encoder CER B = Ok (cd, fl) /\ ef_indef fl = true /\
    (N.of_nat (length c) < max_len -> enc_content CER B cd fl cer_opts v = Ok (c, true)) /\
    Forall (fun t => tcon t = true) tsb /\ (c = [] -> f24c_base B v = true).

Theorem Pcc_of_Q T : Qcc (base_of T) -> Pcc T.
Proof.
  intros HQ i v b Hd Hx Hi Hr Hlen. unfold cer in Hr.
  rewrite cer_all_base in Hd. apply andb_true_iff in Hd. destruct Hd as [Hw Hdb]. rewrite all_extra_base in Hx.
  pose proof (cer_wrap_imp_ok T Hw) as Himp.
  destruct (tagset_of T) as [ts|e0] eqn:Ets; [|rewrite (canon_tagset_err_c true T v e0 Ets) in Hr; discriminate Hr].
  destruct (canon true (base_of T) v) as [e|] eqn:Eb; [|rewrite (canon_wrappers_none_c true T v Eb) in Hr; discriminate Hr].
  destruct (HQ v e Hdb Hx Eb) as (tsb & c & cd & fl & Htsb & -> & Hce & Hfl & Henc & Hcons & Hf24).
  rewrite (canon_wrappers_c T v true c tsb Himp Htsb Eb ts Ets) in Hr. injection Hr as <-.
  pose proof (cwrap_length true ts c) as Hcl.
  rewrite enc_cer_unfold, concrete_encoder_base, Hce. cbn [bind fst snd]. rewrite Ets. cbn [bind].
  rewrite enc_content_base, Henc by lia. cbn [bind fst snd]. rewrite Hfl.
  destruct ts as [|t1 r1]; [reflexivity|].
  apply frame_cwrap_total.
  - apply (tagset_all_cons2 T tsb (t1 :: r1) Himp Htsb Hcons Ets).
  - destruct Hi as [Hi|Hi]; [left; exact Hi|]. right. intros ->.
    assert (Hnb: bare T = false).
    { destruct (bare T) eqn:E; [|reflexivity]. rewrite (bare_tagset T E) in Ets. discriminate Ets. }
    unfold f24c in Hi. rewrite Hnb, (Hf24 eq_refl) in Hi. discriminate Hi.
Qed.

Lemma celems_complete t : Pcc t ->
  forall xs es, forallb (cer_all t) xs = true -> forallb (all_extra t) xs = true ->
  opt_all (map (canon true t) xs) = Some es -> N.of_nat (length (concat es)) < max_len ->
  celems t xs = Ok es.
Proof.
  intros Ht. induction xs as [|x r IH]; intros es Hd Hx Hc Hlen.
  - cbn in Hc. injection Hc as <-. reflexivity.
  - cbn [forallb] in Hd, Hx. apply andb_true_iff in Hd. destruct Hd as [Hd1 Hd2].
    apply andb_true_iff in Hx. destruct Hx as [Hx1 Hx2].
    cbn [map opt_all] in Hc.
    destruct (canon true t x) as [e0|] eqn:E0; [|discriminate Hc].
    destruct (opt_all (map (canon true t) r)) as [es'|] eqn:Er; cbn [opt_bind] in Hc; [|discriminate Hc].
    injection Hc as <-. destruct (concat_length_head e0 es') as [L1 L2].
    change (celems t (x :: r)) with (do p <- enc CER t cer_opts x; do ps <- celems t r; Ok (p :: ps)).
    assert (Ex: enc CER t cer_opts x = Ok e0).
    { apply (Ht false x e0 Hd1 Hx1 (or_introl eq_refl) E0). lia. }
    rewrite Ex. cbn [bind].
    rewrite (IH es' Hd2 Hx2 eq_refl) by lia. reflexivity.
Qed.

Lemma cfields_complete : forall fs, Forall (fun f => Pcc (snd f)) fs ->
  forall vs es, cfields_ok fs vs = true -> xfields fs vs = true ->
  canon_fields true fs vs = Some es -> N.of_nat (length (concat es)) < max_len ->
  exists parts, cparts fs vs = Ok parts /\ map snd parts = es.
Proof.
  induction fs as [|[p ft] fs' IH]; intros Hall vs es Hd Hx Hc Hlen.
  - cbn in Hc. injection Hc as <-. exists []. split; reflexivity.
  - inversion Hall as [|? ? Hft Hall']; subst. cbn [snd] in Hft. specialize (IH Hall').
    rewrite cfields_ok_cons in Hd. apply andb_true_iff in Hd. destruct Hd as [Hd1 Hd2].
    rewrite xfields_cons in Hx. apply andb_true_iff in Hx. destruct Hx as [Hx1 Hx2].
    rewrite canon_fields_cons in Hc. rewrite cparts_cons. cbv zeta.
    assert (Hemit: forall i x, cer_all ft x = true -> all_extra ft x = true -> (i = false \/ f24c ft x = false) ->
              opt_bind (canon true ft x) (fun e => opt_bind (canon_fields true fs' (otl vs)) (fun r => Some (e :: r))) = Some es ->
              exists parts,
              (do b <- enc CER ft (mkOpts false 1000 i) x; do rest <- cparts fs' (otl vs);
               Ok ((smallest_outer ft, b) :: rest)) = Ok parts /\ map snd parts = es).
    { intros i x Hdx Hxx Hi H.
      destruct (canon true ft x) as [e0|] eqn:E0; cbn [opt_bind] in H; [|discriminate H].
      destruct (canon_fields true fs' (otl vs)) as [es'|] eqn:Er; cbn [opt_bind] in H; [|discriminate H].
      injection H as <-. destruct (concat_length_head e0 es') as [L1 L2].
      rewrite (Hft i x e0 Hdx Hxx Hi E0) by lia. cbn [bind].
      destruct (IH (otl vs) es' Hd2 Hx2 Er) as (rest & Hrest & Hmap); [lia|].
      rewrite Hrest. cbn [bind]. eexists. split; [reflexivity|]. cbn [map snd]. rewrite Hmap. reflexivity. }
    destruct p as [| |d]; destruct (ohd vs) as [x|].
    + apply (Hemit false x Hd1 Hx1); [left; reflexivity|exact Hc].
    + discriminate Hd1.
    + apply andb_true_iff in Hd1. destruct Hd1 as [Hdx Hf]. apply Bool.negb_true_iff in Hf.
      apply (Hemit true x Hdx Hx1); [right; exact Hf|exact Hc].
    + apply IH; assumption.
    + apply andb_true_iff in Hd1. destruct Hd1 as [Hd1 Hdd]. apply andb_true_iff in Hd1. destruct Hd1 as [Hs Hdx].
      apply andb_true_iff in Hx1. destruct Hx1 as [Hxx Hpy].
      assert (Hxr: der_ref_deep ft x = true /\ der_ref_deep ft d = true).
      { destruct (cer_all_simple_val ft x Hs Hdx) as [A _]. destruct (cer_all_simple_val ft d Hs Hdd) as [B _].
        rewrite !(deep_simple ft _ Hs). split; assumption. }
      destruct Hxr as [Hxr Hdr].
      destruct (val_py_eq x d) as [q|] eqn:Eq; [|discriminate Hpy].
      rewrite (py_eq_is_default ft x d q Hs Hxr Hdr Eq) in Hc. destruct q.
      * apply IH; assumption.
      * apply (Hemit false x Hdx Hxx); [left; reflexivity|exact Hc].
    + apply IH; assumption.
Qed.

(* the SET loop of the reference carries the SEQUENCE loop's encodings *)
Lemma canon_set_fields_fields cer : forall fs vs kes,
  canon_set_fields cer fs vs = Some kes -> canon_fields cer fs vs = Some (map snd kes).
Proof.
  induction fs as [|[p ft] fs' IH]; intros vs kes H.
  - cbn in H. injection H as <-. reflexivity.
  - rewrite canon_set_fields_cons in H. rewrite canon_fields_cons. cbv zeta in H.
    assert (Hemit: forall x,
      opt_bind (canon cer ft x) (fun e => opt_bind (canon_set_fields cer fs' (otl vs))
         (fun r => Some (((if cer then min_first_tag ft else tag_key e), e) :: r))) = Some kes ->
      opt_bind (canon cer ft x) (fun e => opt_bind (canon_fields cer fs' (otl vs)) (fun r => Some (e :: r))) = Some (map snd kes)).
    { intros x Hx. destruct (canon cer ft x) as [e|]; cbn [opt_bind] in *; [|discriminate Hx].
      destruct (canon_set_fields cer fs' (otl vs)) as [r|] eqn:Er; cbn [opt_bind] in Hx; [|discriminate Hx].
      injection Hx as <-. rewrite (IH (otl vs) r Er). reflexivity. }
    destruct p as [| |d]; destruct (ohd vs) as [x|]; try (apply IH; exact H); try (apply Hemit; exact H); try discriminate H.
    destruct (is_default ft x d); [apply IH; exact H|apply Hemit; exact H].
Qed.

Definition Rcc (T: ty) : Prop := forall T', base_of T' = base_of T -> Pcc T'.

Theorem Rcc_all : forall T, Rcc T.
Proof.
  induction T as [| | | | | | | | n|fs IH|fs IH|t IH|t IH|alts IH| |tg x IH|tg x IH] using ty_ind'.
  16: { exact IH. }
  16: { exact IH. }
  1-9: (intros T' Hb; apply Pcc_simple; rewrite Hb; reflexivity).
  all: intros T' Hb; apply Pcc_of_Q; rewrite Hb; cbn [base_of]; intros v e Hd Hx Hc.
  - (* SEQUENCE *)
    destruct v as [bb|z|bs|bo|cs| |arcs|r|vs|xs|i x|ab]; try discriminate Hd.
    rewrite cer_all_seq in Hd. rewrite all_extra_seq in Hx. pose proof Hc as Hcan. rewrite canon_seq in Hc.
    destruct (canon_fields true fs vs) as [es|] eqn:Ef; cbn [opt_bind] in Hc; [|discriminate Hc]. injection Hc as <-.
    assert (HP: Forall (fun f => Pcc (snd f)) fs).
    { apply Forall_forall. intros f Hf. rewrite Forall_forall in IH. apply (IH f Hf). reflexivity. }
    exists [utag true 16], (concat es), EcSeq, (mkEncFlags true false true None 0 0).
    split; [reflexivity|split; [reflexivity|split; [vm_compute; reflexivity|split; [reflexivity|split; [|split]]]]].
    + intros Hlen. rewrite enc_content_seq_cer.
      destruct (cfields_complete fs HP vs es Hd Hx Ef Hlen) as (parts & Hp & Hm). rewrite Hp. cbn [bind]. rewrite Hm. reflexivity.
    + constructor; [reflexivity|constructor].
    + intros E. unfold f24c_base, cer. rewrite Hcan, E. reflexivity.
  - (* SET *)
    destruct v as [bb|z|bs|bo|cs| |arcs|r|vs|xs|i x|ab]; try discriminate Hd.
    rewrite cer_all_set in Hd. apply andb_true_iff in Hd. destruct Hd as [Hk Hd].
    unfold cset_keys_ok in Hk. apply andb_true_iff in Hk. destruct Hk as [Hk1 Hk2].
    rewrite all_extra_set in Hx. pose proof Hc as Hcan. rewrite canon_set in Hc.
    destruct (canon_set_fields true fs vs) as [kes|] eqn:Ef; cbn [opt_bind] in Hc; [|discriminate Hc]. injection Hc as <-.
    assert (HP: Forall (fun f => Pcc (snd f)) fs).
    { apply Forall_forall. intros f Hf. rewrite Forall_forall in IH. apply (IH f Hf). reflexivity. }
    assert (HS: Forall (fun f => Pcer (snd f)) fs).
    { apply Forall_forall. intros f _. apply (Rcer_all (snd f) (snd f) eq_refl). }
    set (c := concat (map snd (sort_with (fun a b : N * N * bytes => key_ltb (fst a) (fst b)) kes))).
    assert (Hcl: length c = length (concat (map snd kes))).
    { subst c. apply perm_concat_length. apply Permutation_map. apply Permutation_sym.
      apply (sort_with_perm key_ltb (fun a : N * N * bytes => fst a)). }
    exists [utag true 17], c, EcSetCer, (mkEncFlags true false false None 0 0).
    split; [reflexivity|split; [reflexivity|split; [vm_compute; reflexivity|split; [reflexivity|split; [|split]]]]].
    + intros Hlen. rewrite enc_content_set_cer.
      destruct (cfields_complete fs HP vs (map snd kes) Hd Hx (canon_set_fields_fields true fs vs kes Ef)) as (parts & Hp & Hm); [lia|].
      rewrite Hp. cbn [bind].
      destruct (cfields_sound fs HS vs parts Hd Hp) as [_ Hes]. specialize (Hes Hk1).
      rewrite Ef in Hes. injection Hes as Hkes.
      destruct (cparts_keys fs vs parts Hd Hp) as [Hq1 Hq2].
      pose proof (Hq1 single (keyable_singles _ Hk1)) as Hsing. pose proof (Hq2 Hk2) as Hord.
      subst c. rewrite Hkes, (set_sort_is_reference parts Hsing Hord). reflexivity.
    + constructor; [reflexivity|constructor].
    + intros E. unfold f24c_base, cer. rewrite Hcan. fold c. rewrite E. reflexivity.
  - (* SEQUENCE OF *)
    destruct v as [bb|z|bs|bo|cs| |arcs|r|vs|xs|i x|ab]; try discriminate Hd. cbn [cer_all all_extra] in Hd, Hx.
    pose proof Hc as Hcan. rewrite canon_seqof in Hc.
    destruct (opt_all (map (canon true t) xs)) as [es|] eqn:Ef; cbn [opt_bind] in Hc; [|discriminate Hc]. injection Hc as <-.
    exists [utag true 16], (concat es), EcSeqOfCer, (mkEncFlags true false false None 0 0).
    split; [reflexivity|split; [reflexivity|split; [vm_compute; reflexivity|split; [reflexivity|split; [|split]]]]].
    + intros Hlen. rewrite enc_content_seqof_cer. rewrite (celems_complete t (IH t eq_refl) xs es Hd Hx Ef Hlen). reflexivity.
    + constructor; [reflexivity|constructor].
    + intros E. unfold f24c_base, cer. rewrite Hcan, E. reflexivity.
  - (* SET OF *)
    destruct v as [bb|z|bs|bo|cs| |arcs|r|vs|xs|i x|ab]; try discriminate Hd. cbn [cer_all all_extra] in Hd, Hx.
    apply andb_true_iff in Hd. destruct Hd as [Hd1 Hd2].
    pose proof Hc as Hcan. rewrite canon_setof in Hc.
    destruct (opt_all (map (canon true t) xs)) as [es|] eqn:Ef; cbn [opt_bind] in Hc; [|discriminate Hc]. injection Hc as <-.
    unfold cer in Hd2. rewrite (opt_all_hd_map (canon true t) xs es Ef) in Hd2.
    assert (Hcl: length (concat (sort_with octets_ltb es)) = length (concat es)).
    { apply perm_concat_length. apply Permutation_sym. apply (sort_with_perm octets_ltb (fun a : bytes => a)). }
    exists [utag true 17], (concat (sort_with octets_ltb es)), EcSetOfCer, (mkEncFlags true false false None 0 0).
    split; [reflexivity|split; [reflexivity|split; [vm_compute; reflexivity|split; [reflexivity|split; [|split]]]]].
    + intros Hlen. rewrite enc_content_setof_cer.
      assert (Hp: celems t xs = Ok es) by (apply (celems_complete t (IH t eq_refl) xs es Hd1 Hx Ef); lia).
      rewrite Hp. cbn [bind].
      rewrite (sort_setof_is_reference es (ties_ok_pad_distinct es Hd2)). reflexivity.
    + constructor; [reflexivity|constructor].
    + intros E. unfold f24c_base, cer. rewrite Hcan, E. reflexivity.
  - (* CHOICE *)
    destruct v as [bb|z|bs|bo|cs| |arcs|r|vs|xs|i x|ab]; try discriminate Hd.
    rewrite cer_all_choice in Hd. rewrite all_extra_choice in Hx. pose proof Hc as Hcan. rewrite canon_choice in Hc.
    destruct (nth_error alts i) as [a|] eqn:Ea; [|discriminate Hd].
    rewrite Forall_forall in IH. pose proof (IH a (nth_error_In _ _ Ea) a eq_refl) as Pa.
    exists [], e, EcChoice, (mkEncFlags true false false None 0 0).
    split; [reflexivity|split; [reflexivity|split; [vm_compute; reflexivity|split; [reflexivity|split; [|split]]]]].
    + intros Hlen. rewrite enc_content_choice, Ea. unfold encw.
      change (enc_with CER (enc_content CER) a cer_opts x) with (enc CER a cer_opts x).
      assert (Ex: enc CER a cer_opts x = Ok e) by (apply (Pa false x e Hd Hx (or_introl eq_refl) Hc Hlen)).
      rewrite Ex. reflexivity.
    + constructor.
    + intros E. unfold f24c_base, cer. rewrite Hcan, E. reflexivity.
  - (* ANY *)
    destruct v as [bb|z|bs|bo|cs| |arcs|r|vs|xs|i x|ab]; try discriminate Hd.
    cbn [canon] in Hc. injection Hc as <-.
    exists [], ab, EcAny, (mkEncFlags true false false None 0 0).
    split; [reflexivity|split; [reflexivity|split; [vm_compute; reflexivity|split; [reflexivity|split; [|split]]]]].
    + intros _. reflexivity.
    + constructor.
    + intros E. unfold f24c_base, cer. cbn [canon]. rewrite E. reflexivity.
Qed.

(* ====================================================================== *)
(* 5. the theorems                                                         *)
(* ====================================================================== *)

Definition cer_exact_all (T: ty) (v: val) : bool := cer_all T v && all_extra T v.

(* Completeness: where the reference answers, the CER encoder - in whatever mode it is called -
   answers the same octets *)
Theorem cer_is_reference_all_complete : forall T v d k b,
  cer_exact_all T v = true -> X690.cer T v = Some b -> N.of_nat (length b) < max_len ->
  encode CER d k T v = Ok b.
Proof.
  intros T v d k b Hx Hr Hlen. unfold cer_exact_all in Hx. apply andb_true_iff in Hx. destruct Hx as [Hd Hx].
  unfold encode. rewrite enc_cer_unfold, <- (enc_cer_unfold T false 1000 false v).
  exact (Rcc_all T T eq_refl false v b Hd Hx (or_introl eq_refl) Hr Hlen).
Qed.

(* both directions: the CER encoder and the reference are the same partial function *)
Corollary cer_encoder_is_reference_all : forall T v d k b,
  cer_exact_all T v = true -> N.of_nat (length b) < max_len ->
  (encode CER d k T v = Ok b <-> X690.cer T v = Some b).
Proof.
  intros T v d k b Hx Hlen. split.
  - apply cer_is_reference_all. unfold cer_exact_all in Hx. apply andb_true_iff in Hx. tauto.
  - intros Hr. apply cer_is_reference_all_complete; assumption.
Qed.

(* the contrapositive: when the CER encoder refuses, the reference has no encoding either (or only one
   whose length no definite form can express) *)
Corollary cer_refusal_is_reference_all : forall T v d k e,
  cer_exact_all T v = true -> encode CER d k T v = Err e ->
  X690.cer T v = None \/ exists b, X690.cer T v = Some b /\ max_len <= N.of_nat (length b).
Proof.
  intros T v d k e Hx He. destruct (cer T v) as [b|] eqn:Er; [|left; reflexivity].
  right. exists b. split; [reflexivity|].
  destruct (N.lt_ge_cases (N.of_nat (length b)) max_len) as [Hlt|Hge]; [|exact Hge].
  rewrite (cer_is_reference_all_complete T v d k b Hx Er Hlt) in He. discriminate He.
Qed.

(* ---- witnesses ---- *)

Example cer_complete_witness :
  let T := TExp (mkTag Appl false 1) (TSet [
     (Req, TImp (mkTag Ctx false 1) TInt);
     (Req, TChoice [TOcts; TImp (mkTag Ctx false 0) TBool; TExp (mkTag Ctx false 5) (TChoice [TNull; TAny])]);
     (Opt, TSetOf (TChoice [TInt; TStr 12; TAny]));
     (Def (VInt 7), TInt);
     (Opt, TExp (mkTag Priv false 2) TAny);
     (Req, TSeq [(Opt, TSeqOf TBool); (Req, TSetOf TNull)])]) in
  let v := VRec [Some (VInt 1);
     Some (VChoice 2 (VChoice 1 (VAny [4;1;9])));
     Some (VList [VChoice 1 (VOcts [104;105]); VChoice 0 (VInt 300); VChoice 2 (VAny [1;1;0]); VChoice 0 (VInt 3)]);
     Some (VInt 8); Some (VAny [5;0]);
     Some (VRec [Some (VList [VBool true]); Some (VList [])])] in
  cer_exact_all T v = true /\
  exists b, cer T v = Some b /\ N.of_nat (length b) < max_len /\ encode CER true 7 T v = Ok b.
Proof.
  cbv zeta. split; [vm_compute; reflexivity|].
  eexists. split; [vm_compute; reflexivity|]. split; vm_compute; reflexivity.
Qed.

(* both sides refuse: arc 1.40 inside a SEQUENCE OF; the refusal theorem applied *)
Example cer_refusal_witness :
  let T := TSeqOf TOid in let v := VList [VOid [1;2;3]; VOid [1;40;3]] in
  cer_exact_all T v = true /\ encode CER true 0 T v = Err EMalformed /\ cer T v = None.
Proof. vm_compute. repeat split. Qed.

(* why all_extra: UTCTime text the CER encoder vets and refuses while the reference encodes the octets *)
Example cer_complete_excludes_time :
  let T := TSeq [(Req, TStr 23)] in let v := VRec [Some (VOcts [49; 50])] in
  cer_all T v = true /\ cer_exact_all T v = false /\
  encode CER true 0 T v = Err EMalformed /\ cer T v = Some [48; 128; 23; 2; 49; 50; 0; 0].
Proof. vm_compute. repeat split. Qed.

Print Assumptions Rcc_all.
Print Assumptions cer_is_reference_all_complete.
Print Assumptions cer_encoder_is_reference_all.
Print Assumptions cer_refusal_is_reference_all.

(* Round trip under every encoder mode (C01/C02), part A: framing in indefinite-length mode.
   End-of-octets handling, indefinite headers, EXPLICIT tag levels written with length octet 80 and
   closed by 00 00, and the generic "what the encoder framed, the decoder unframes" lemma for
   any defMode. *)
From Coq Require Import Lia.
From PV Require Import Base.Bytes Model.Tag Model.TableTypes Model.Types Model.Proc Model.Enc Model.Dec Gen.Tables
     Proofs.ProcBind Proofs.RunLemmas Proofs.TagOctets Proofs.TagAlgebra Proofs.DecHeader Proofs.DecFrame Proofs.DecPrim
     Proofs.TagsetShape Proofs.Schemaless Proofs.RoundTrip1 Proofs.RoundTrip2.
Local Open Scope N_scope.

(* ---------- end-of-octets ---------- *)

Lemma setpos_back s n : setpos (adv s n) (pos (adv s n) - n) = s.
Proof.
  unfold adv, setpos. cbn [pos arrived closed mark].
  replace (pos s + n - n)%nat with (pos s) by lia. destruct s; reflexivity.
Qed.

(* where end-of-octets is allowed, 00 00 is taken for it *)
Lemma eoo_read c f sp acc rs sfun s tl : support_indef c = true -> avail s = [0; 0] ++ tl ->
  resume (dec_call c (S f) sp acc rs true sfun) s = inr (Ok DEoo, adv s 2).
Proof.
  intros Hsi Hav. cbn [dec_call]. unfold dec_body. rewrite Hsi. cbn [andb]. cbv zeta.
  rewrite (resume_readN s 2 [0; 0] tl _ Hav eq_refl). reflexivity.
Qed.

(* anything that does not start with a zero octet is not: the decoder seeks back and goes on *)
Lemma ae_skip c f sp acc rs sfun s b0 b1 rest : support_indef c = true ->
  avail s = b0 :: b1 :: rest -> b0 <> 0 ->
  resume (dec_call c (S f) sp acc rs true sfun) s = resume (dec_call c (S f) sp acc rs false sfun) s.
Proof.
  intros Hsi Hav Hb0. cbn [dec_call]. unfold dec_body. rewrite Hsi. cbn [andb]. cbv zeta.
  rewrite (resume_readN s 2 [b0; b1] rest _ Hav eq_refl).
  destruct b0 as [|p]; [congruence|].
  cbn [resume]. rewrite setpos_back. reflexivity.
Qed.

Lemma ae_any c f sp acc sfun b v : support_indef c = true -> (2 <= length b)%nat -> hd 0 b <> 0 ->
  consumes (dec_call c f sp acc None false sfun) b v ->
  forall ae, consumes (dec_call c f sp acc None ae sfun) b v.
Proof.
  intros Hsi Hlen Hhd H [|]; [|exact H]. intros s tl Hav.
  destruct (H s tl Hav) as (s' & Hr & Hrest).
  destruct f as [|f]; [cbn in Hr; discriminate|].
  destruct b as [|b0 [|b1 rest]]; cbn [length] in Hlen; try lia. cbn [hd] in Hhd.
  rewrite (ae_skip c f sp acc None sfun s b0 b1 (rest ++ tl) Hsi Hav Hhd).
  exists s'. split; [exact Hr|exact Hrest].
Qed.

(* the first identifier octet is zero only for UNIVERSAL 0, primitive *)
Lemma enc_tag_hd t c : tcls t <> Univ \/ tnum t <> 0 -> hd 0 (enc_tag t c) <> 0.
Proof.
  intros H. unfold enc_tag.
  destruct (N.ltb_spec (tnum t) 31) as [Hs|Hl]; cbn [hd]; intros E; apply N.lor_eq_0_iff in E; destruct E as [E1 E2].
  - apply N.lor_eq_0_iff in E1. destruct E1 as [E1 _]. destruct H as [H|H]; [|congruence].
    destruct (tcls t); try discriminate E1. congruence.
  - discriminate E2.
Qed.

Lemma hd_app {X} (d: X) (a b: list X) : a <> [] -> hd d (a ++ b) = hd d a.
Proof. destruct a; [congruence|reflexivity]. Qed.

Lemma enc_tag_ne t c : enc_tag t c <> [].
Proof. unfold enc_tag. destruct (N.ltb (tnum t) 31); discriminate. Qed.

(* ---------- headers ---------- *)

Lemma dec_call_header_indef : forall c f sp acc sfun t cns body s,
  support_indef c = true ->
  avail s = enc_tag t cns ++ [128] ++ body ->
  (length (enc_tag t cns) <= S f)%nat ->
  resume (dec_call c (S f) sp acc None false sfun) s =
  resume (dispatch c (dec_call c f) f sp (wire t cns :: acc) None sfun)
         (adv (setmark s (pos s)) (length (enc_tag t cns) + 1)).
Proof.
  intros c f sp acc sfun t cns body s Hsi Hav Hlen.
  cbn [dec_call]. unfold dec_body. cbn [andb]. cbn [resume].
  set (s0 := setmark s (pos s)).
  assert (Hav0: avail s0 = enc_tag t cns ++ [128] ++ body) by exact Hav.
  pose proof (dec_enc_tag t cns ([128] ++ body)) as Hid.
  assert (Hcons: Nat.sub (length (enc_tag t cns ++ [128] ++ body)) (length ([128] ++ body)) = length (enc_tag t cns)).
  { rewrite app_length. lia. }
  rewrite (resume_read_tag f (enc_tag t cns ++ [128] ++ body) (wire t cns) ([128] ++ body) s0 _ Hid Hav0) by (rewrite Hcons; exact Hlen).
  rewrite Hcons.
  assert (Hdl: dec_len ([128] ++ body) = Some (None, body)) by reflexivity.
  assert (Hav1: avail (adv s0 (length (enc_tag t cns))) = [128] ++ body) by (apply (avail_app_adv _ _ _ Hav0)).
  rewrite (resume_read_length c ([128] ++ body) None body _ _ Hdl Hav1) by (intros _; exact Hsi).
  rewrite adv_adv. f_equal. f_equal. cbn [app length]. lia.
Qed.

(* definite length, any substrateFun flag *)
Lemma match_level_g : forall c f T acc0 t0 cns si content b v cd fl sfun,
  frame_one t0 cns true si content = Ok b ->
  tagset_eqb (wire t0 cns :: acc0) (tagset_of' T) = true ->
  tm_postponed (tagmap_of T) = false ->
  by_type c T = Some (cd, fl) ->
  (length (enc_tag t0 cns) <= S f)%nat ->
  consumes (dec_value (dec_call c f) f cd fl (Some T) (wire t0 cns :: acc0) (Some (N.of_nat (length content))) sfun) content v ->
  consumes (dec_call c (S f) (STy T) acc0 None false sfun) b v.
Proof.
  intros c f T acc0 t0 cns si content b v cd fl sfun Hfr Heq Hpp Hby Hlen Hin s tl Hav.
  unfold frame_one in Hfr. cbn [negb andb] in Hfr.
  destruct (enc_len (N.of_nat (length content)) false) as [l|e] eqn:El; cbn [bind] in Hfr; [|discriminate].
  inversion Hfr; subst b; clear Hfr. rewrite app_nil_r in Hav. rewrite <- !app_assoc in Hav.
  rewrite (dec_call_header c f (STy T) acc0 sfun t0 cns _ l (content ++ tl) s El Hav Hlen).
  set (s1 := adv (setmark s (pos s)) (length (enc_tag t0 cns) + length l)).
  assert (Hav1: avail s1 = content ++ tl).
  { subst s1. rewrite avail_adv, avail_setmark, Hav. rewrite app_assoc.
    rewrite <- app_length. apply skipn_app_exact. }
  assert (Hp1: pos s1 = (pos s + (length (enc_tag t0 cns) + length l))%nat) by reflexivity.
  assert (Ha1: arrived s1 = arrived s) by reflexivity.
  assert (Hc1: closed s1 = closed s) by reflexivity.
  clearbody s1.
  unfold dispatch. rewrite Heq. cbn [orb]. rewrite Hpp, Hby. rewrite resume_tell.
  destruct (Hin s1 tl Hav1) as (s2 & Hrun & Hpos & Harr & Hcl).
  rewrite (resume_pbind_done _ _ _ _ _ Hrun). rewrite resume_tell.
  rewrite Hpos. rewrite (Nat.add_comm (pos s1)), Nat.add_sub.
  rewrite N.eqb_refl. cbn [resume].
  exists s2. split; [reflexivity|].
  rewrite !app_length. cbn [length]. repeat split; [lia|congruence|congruence].
Qed.

(* indefinite length: the value decoder runs until it has taken the closing 00 00 *)
Lemma match_level_indef : forall c f T acc0 t0 cns content v cd fl sfun,
  support_indef c = true ->
  tagset_eqb (wire t0 cns :: acc0) (tagset_of' T) = true ->
  tm_postponed (tagmap_of T) = false ->
  by_type c T = Some (cd, fl) ->
  (length (enc_tag t0 cns) <= S f)%nat ->
  consumes (dec_value (dec_call c f) f cd fl (Some T) (wire t0 cns :: acc0) None sfun) (content ++ [0; 0]) v ->
  consumes (dec_call c (S f) (STy T) acc0 None false sfun) (enc_tag t0 cns ++ [128] ++ content ++ [0; 0]) v.
Proof.
  intros c f T acc0 t0 cns content v cd fl sfun Hsi Heq Hpp Hby Hlen Hin s tl Hav.
  rewrite <- !app_assoc in Hav.
  rewrite (dec_call_header_indef c f (STy T) acc0 sfun t0 cns (content ++ [0; 0] ++ tl) s Hsi Hav Hlen).
  set (s1 := adv (setmark s (pos s)) (length (enc_tag t0 cns) + 1)).
  assert (Hav1: avail s1 = (content ++ [0; 0]) ++ tl).
  { subst s1. rewrite avail_adv, avail_setmark, Hav.
    change (enc_tag t0 cns ++ [128] ++ content ++ [0; 0] ++ tl) with (enc_tag t0 cns ++ [128] ++ (content ++ [0; 0] ++ tl)).
    rewrite app_assoc. replace (length (enc_tag t0 cns) + 1)%nat with (length (enc_tag t0 cns ++ [128])) by (rewrite app_length; reflexivity).
    rewrite skipn_app_exact. rewrite <- app_assoc. reflexivity. }
  assert (Hp1: pos s1 = (pos s + (length (enc_tag t0 cns) + 1))%nat) by reflexivity.
  assert (Ha1: arrived s1 = arrived s) by reflexivity.
  assert (Hc1: closed s1 = closed s) by reflexivity.
  clearbody s1.
  unfold dispatch. rewrite Heq. cbn [orb]. rewrite Hpp, Hby.
  destruct (Hin s1 tl Hav1) as (s2 & Hrun & Hpos & Harr & Hcl).
  exists s2. split; [exact Hrun|].
  rewrite !app_length in *. cbn [length] in *. repeat split; [lia|congruence|congruence].
Qed.

(* one EXPLICIT tag level in indefinite-length form: 80, the inner item, 00 00 *)
Lemma explicit_level_indef : forall c f T acc0 t inner Tv vv,
  support_indef c = true ->
  tcon t = true -> tcls t <> Univ ->
  tagset_eqb (t :: acc0) (tagset_of' T) = false ->
  tm_contains (tagmap_of T) (t :: acc0) = false ->
  (length (enc_tag t false) <= S f)%nat -> (2 <= f)%nat ->
  consumes (dec_call c f (STy T) (t :: acc0) None true false) inner (DV Tv vv) ->
  consumes (dec_call c (S f) (STy T) acc0 None false false) (enc_tag t false ++ [128] ++ inner ++ [0; 0]) (DV Tv vv).
Proof.
  intros c f T acc0 t inner Tv vv Hsi Hcon Hcls Hne Hnm Hlen Hf2 Hin s tl Hav.
  rewrite <- !app_assoc in Hav.
  rewrite (dec_call_header_indef c f (STy T) acc0 false t false (inner ++ [0; 0] ++ tl) s Hsi Hav Hlen).
  rewrite wire_false.
  set (s1 := adv (setmark s (pos s)) (length (enc_tag t false) + 1)).
  assert (Hav1: avail s1 = inner ++ [0; 0] ++ tl).
  { subst s1. rewrite avail_adv, avail_setmark, Hav.
    change (enc_tag t false ++ [128] ++ inner ++ [0; 0] ++ tl) with (enc_tag t false ++ [128] ++ (inner ++ [0; 0] ++ tl)).
    rewrite app_assoc. replace (length (enc_tag t false) + 1)%nat with (length (enc_tag t false ++ [128])) by (rewrite app_length; reflexivity).
    apply skipn_app_exact. }
  assert (Hp1: pos s1 = (pos s + (length (enc_tag t false) + 1))%nat) by reflexivity.
  assert (Ha1: arrived s1 = arrived s) by reflexivity.
  assert (Hc1: closed s1 = closed s) by reflexivity.
  clearbody s1.
  unfold dispatch. rewrite Hne, Hnm. cbn [orb]. rewrite Hcon. cbn [andb].
  assert (Hnu: negb (cls_eqb (tcls t) Univ) = true) by (destruct (tcls t); [congruence|reflexivity|reflexivity|reflexivity]).
  rewrite Hnu. unfold dec_raw.
  destruct f as [|[|f']]; try lia.
  cbn [raw_loop].
  destruct (Hin s1 _ Hav1) as (s2 & Hrun & Hpos & Harr & Hcl).
  rewrite (resume_pbind_done _ _ _ _ _ Hrun).
  pose proof (consumes_avail inner s1 _ s2 Hav1 Hpos Harr) as Hav2.
  rewrite (resume_pbind_done _ _ _ _ _ (eoo_read c (S f') (STy T) (t :: acc0) None false s2 tl Hsi Hav2)).
  cbn [resume].
  exists (adv s2 2). split; [reflexivity|].
  rewrite !app_length. cbn [length]. rewrite pos_adv, arrived_adv, closed_adv.
  repeat split; [lia|congruence|congruence].
Qed.

(* ---------- shape of what frame_one / frame_outer write, in any mode ---------- *)

Lemma frame_one_shape t c d si sub b : frame_one t c d si sub = Ok b ->
  exists l e, b = enc_tag t c ++ l ++ sub ++ e /\ (0 < length l)%nat.
Proof.
  unfold frame_one. intros H.
  destruct (enc_len (N.of_nat (length sub)) (negb d && si)) as [l|e] eqn:El; cbn [bind] in H; [|discriminate].
  inversion H; subst. exists l. eexists. split; [reflexivity|].
  unfold enc_len in El. destruct (negb d && si); [inversion El; cbn; lia|].
  destruct (N.of_nat (length sub) <? 128).
  - inversion El; subst. cbn. lia.
  - destruct (Nat.ltb 126 (length (b256 (N.of_nat (length sub))))); [discriminate|]. inversion El; subst. cbn [length]. lia.
Qed.

Lemma frame_one_facts t c d si sub b : frame_one t c d si sub = Ok b -> (tcls t <> Univ \/ tnum t <> 0) ->
  (length sub + 2 <= length b)%nat /\ (length (enc_tag t c) + length sub < length b)%nat /\ hd 0 b <> 0.
Proof.
  intros H Ht. destruct (frame_one_shape _ _ _ _ _ _ H) as (l & e & -> & Hl).
  pose proof (enc_tag_nonempty t c). rewrite !app_length.
  split; [lia|]. split; [lia|]. rewrite hd_app by apply enc_tag_ne. apply enc_tag_hd. exact Ht.
Qed.

Lemma explicit_like_nz t : explicit_like t -> tcls t <> Univ \/ tnum t <> 0.
Proof. intros [_ H]. left. exact H. Qed.

Lemma frame_outer_facts : forall r c d si sub b, frame_outer r c d si sub = Ok b -> Forall explicit_like r ->
  (length sub <= length b)%nat /\ (hd 0 sub <> 0 -> hd 0 b <> 0)
  /\ forall k, (length b <= k)%nat -> Forall (fun t => (length (enc_tag t c) <= k)%nat) r.
Proof.
  induction r as [|t r IH]; intros c d si sub b H Hex; cbn [frame_outer] in H.
  - inversion H; subst. split; [lia|]. split; [tauto|]. intros; constructor.
  - destruct (frame_one t c d si sub) as [s1|e] eqn:E1; cbn [bind] in H; [|discriminate].
    inversion Hex as [|? ? Ht Hr]; subst.
    destruct (IH _ _ _ _ _ H Hr) as (Hl & Hh & Hk).
    destruct (frame_one_facts _ _ _ _ _ _ E1 (explicit_like_nz _ Ht)) as (F1 & F2 & F3).
    split; [lia|]. split; [intros _; apply Hh; exact F3|].
    intros k Hbk. constructor; [lia|apply Hk; exact Hbk].
Qed.

Lemma frame_outer_con_g : forall r c d si sub, Forall explicit_like r ->
  frame_outer r c d si sub = frame_outer r false d si sub.
Proof.
  induction r as [|t r IH]; intros c d si sub Hex; [reflexivity|].
  inversion Hex as [|? ? [Hc _] Hr]; subst. cbn [frame_outer].
  rewrite (frame_one_con t c d si sub Hc).
  destruct (frame_one t false d si sub) as [s'|e]; cbn [bind]; [apply IH; exact Hr|reflexivity].
Qed.

(* all the EXPLICIT levels of an indefinite-length encoding, from the outermost inwards *)
Lemma peel_all_indef : forall c T f r acc0 sub b Tv vv,
  support_indef c = true ->
  frame_outer r false false true sub = Ok b ->
  Forall explicit_like r ->
  Forall (fun t => (length (enc_tag t false) <= S f)%nat) r ->
  plain_map T ->
  length (tagset_of' T) = S (length r + length acc0) ->
  (2 <= f)%nat ->
  (forall ae, consumes (dec_call c f (STy T) (r ++ acc0) None ae false) sub (DV Tv vv)) ->
  forall ae, consumes (dec_call c (f + length r) (STy T) acc0 None ae false) b (DV Tv vv).
Proof.
  intros c T f r. induction r as [|tn r' IH] using rev_ind; intros acc0 sub b Tv vv Hsi Hfr Hex Hlen Hpm Hts Hf2 Hin.
  - cbn [frame_outer] in Hfr. inversion Hfr; subst. cbn [length app] in *. rewrite Nat.add_0_r. exact Hin.
  - rewrite frame_outer_snoc in Hfr.
    destruct (frame_outer r' false false true sub) as [inner|e] eqn:Ein; cbn [bind] in Hfr; [|discriminate].
    apply Forall_app in Hex. destruct Hex as [Hex' Hexn]. inversion Hexn as [|? ? [Hcon Hcls] _]; subst.
    apply Forall_app in Hlen. destruct Hlen as [Hlen' Hlenn]. inversion Hlenn as [|? ? Hl _]; subst.
    assert (Hb: b = enc_tag tn false ++ [128] ++ inner ++ [0; 0]) by (inversion Hfr; reflexivity).
    rewrite app_length in *. cbn [length] in *.
    replace (f + (length r' + 1))%nat with (S (f + length r')) by lia.
    assert (Hmis: tagset_eqb (tn :: acc0) (tagset_of' T) = false).
    { destruct (tagset_eqb (tn :: acc0) (tagset_of' T)) eqn:E; [|reflexivity].
      apply tagset_eqb_length in E. cbn [length] in E. lia. }
    apply ae_any; [exact Hsi| | |].
    + subst b. pose proof (enc_tag_nonempty tn false). rewrite !app_length. cbn [length]. lia.
    + subst b. rewrite hd_app by apply enc_tag_ne. apply enc_tag_hd. left. exact Hcls.
    + subst b.
      apply (explicit_level_indef c (f + length r') T acc0 tn inner Tv vv Hsi Hcon Hcls Hmis (plain_map_contains T _ Hpm Hmis)); [lia|lia|].
      apply (IH (tn :: acc0) sub inner Tv vv Hsi Ein Hex' Hlen' Hpm).
      * cbn [length]. lia.
      * exact Hf2.
      * intros ae. rewrite <- app_assoc in Hin. exact (Hin ae).
Qed.

Lemma wire_tagset_eqb t0 cns r : tagset_eqb (wire t0 cns :: r) (t0 :: r) = true.
Proof.
  change (tagset_eqb (wire t0 cns :: r) (t0 :: r)) with (tag_eqb (wire t0 cns) t0 && tagset_eqb r r)%bool.
  rewrite tagset_eqb_refl. unfold tag_eqb, wire. cbn [tcls tnum]. rewrite cls_eqb_refl, N.eqb_refl. reflexivity.
Qed.

(* ---------- every level of the framing the encoder wrote, in any mode ---------- *)

Theorem framed_modes : forall c T t0 r cns si d k content b f0 dcd dfl Tv vv,
  support_indef c = true ->
  tagset_of T = Ok (t0 :: r) -> (tcls t0 <> Univ \/ tnum t0 <> 0) ->
  Forall explicit_like r -> plain_map T ->
  by_type c T = Some (dcd, dfl) ->
  (d = false -> (cns = true \/ r <> []) -> si = true) ->
  frame (t0 :: r) content cns (mkOpts d k false) si = Ok b ->
  (length b <= S f0)%nat ->
  (if cns && negb d
   then consumes (dec_value (dec_call c f0) f0 dcd dfl (Some T) (wire t0 cns :: r) None false) (content ++ [0; 0]) (DV Tv vv)
   else consumes (dec_value (dec_call c f0) f0 dcd dfl (Some T) (wire t0 cns :: r) (Some (N.of_nat (length content))) false) content (DV Tv vv)) ->
  (length content + 2 <= length b)%nat /\ hd 0 b <> 0 /\
  forall ae, consumes (dec_call c (S f0 + length r) (STy T) [] None ae false) b (DV Tv vv).
Proof.
  intros c T t0 r cns si d k content b f0 dcd dfl Tv vv Hsi Hts Hnz Hex Hpm Hby Hmode He Hb Hval.
  cbn [frame] in He. rewrite Bool.andb_false_r in He. cbn [o_def] in He.
  destruct (frame_one t0 cns (if cns then d else true) si content) as [s0|e] eqn:E0; cbn [bind] in He; [|discriminate].
  rewrite (frame_outer_con_g r cns d si s0 Hex) in He.
  destruct (frame_outer_facts _ _ _ _ _ _ He Hex) as (Hlen0 & Hhd & Htl).
  destruct (frame_one_facts _ _ _ _ _ _ E0 Hnz) as (F1 & F2 & F3).
  specialize (Hhd F3). specialize (Htl (S (S f0)) ltac:(lia)).
  split; [lia|]. split; [exact Hhd|].
  assert (Htseq: tagset_eqb (wire t0 cns :: r ++ []) (tagset_of' T) = true).
  { rewrite app_nil_r, (tagset_of'_ok T _ Hts). apply wire_tagset_eqb. }
  assert (Hpp: tm_postponed (tagmap_of T) = false) by (rewrite Hpm; reflexivity).
  assert (Htsl: length (tagset_of' T) = S (length r + length (@nil tag))).
  { rewrite (tagset_of'_ok T _ Hts). cbn [length]. lia. }
  destruct d.
  - (* definite lengths throughout *)
    rewrite Bool.andb_false_r in Hval.
    assert (E0': frame_one t0 cns true si content = Ok s0) by (destruct cns; exact E0).
    assert (H0: consumes (dec_call c (S f0 + length r) (STy T) [] None false false) b (DV Tv vv)).
    { apply (peel_all c T (S f0) si r [] s0 b _ He Hex Htl Hpm Htsl).
      apply (match_level_g c f0 T (r ++ []) t0 cns si content s0 _ dcd dfl false E0' Htseq Hpp Hby); [lia|].
      rewrite app_nil_r. exact Hval. }
    apply ae_any; [exact Hsi|lia|exact Hhd|exact H0].
  - destruct cns.
    + (* constructed: 80 ... 00 00 at every level *)
      cbn [andb negb] in Hval.
      assert (Hsit: si = true) by (apply Hmode; [reflexivity|left; reflexivity]). subst si.
      assert (Hs0: s0 = enc_tag t0 true ++ [128] ++ content ++ [0; 0]) by (inversion E0; reflexivity).
      replace (S f0 + length r)%nat with (S f0 + length r)%nat by lia.
      apply (peel_all_indef c T (S f0) r [] s0 b Tv vv Hsi He Hex Htl Hpm Htsl); [lia|].
      apply ae_any; [exact Hsi|lia|exact F3|]. subst s0.
      apply (match_level_indef c f0 T (r ++ []) t0 true content _ dcd dfl false Hsi Htseq Hpp Hby); [lia|].
      rewrite app_nil_r. exact Hval.
    + (* primitive contents: definite innermost level *)
      cbn [andb] in Hval.
      assert (Hin: forall ae, consumes (dec_call c (S f0) (STy T) (r ++ []) None ae false) s0 (DV Tv vv)).
      { apply ae_any; [exact Hsi|lia|exact F3|].
        apply (match_level_g c f0 T (r ++ []) t0 false si content s0 _ dcd dfl false E0 Htseq Hpp Hby); [lia|].
        rewrite app_nil_r. exact Hval. }
      destruct r as [|r1 r'].
      * cbn [frame_outer] in He. inversion He; subst b. cbn [length]. rewrite Nat.add_0_r. exact Hin.
      * assert (Hsit: si = true) by (apply Hmode; [reflexivity|right; discriminate]). subst si.
        apply (peel_all_indef c T (S f0) (r1 :: r') [] s0 b Tv vv Hsi He Hex Htl Hpm Htsl); [lia|exact Hin].
Qed.

(* Induction principles for the nested inductives of Model/Constraint.v (operand lists inside
   constraints, tuples inside shapes), and the unfolding equations of the evaluator, of the
   denotation and of the well-formedness / applicability predicates, one per combinator. *)
From Coq Require Import Lia.
From PV Require Import Model.Constraint Spec.SetTheory.
Local Open Scope Z_scope.

Section constr_induction.
  Variable P : constr -> Prop.
  Hypothesis HSingle : forall vs, P (CSingle vs).
  Hypothesis HContained : forall pre plain post,
      Forall P pre -> Forall P post -> P (CContained pre plain post).
  Hypothesis HRange : forall lo hi, P (CRange lo hi).
  Hypothesis HSize : forall lo hi, P (CSize lo hi).
  Hypothesis HAlpha : forall vs, P (CAlpha vs).
  Hypothesis HPresent : P CPresent.
  Hypothesis HAbsent : P CAbsent.
  Hypothesis HWith : forall fields, Forall (fun fc => P (snd fc)) fields -> P (CWith fields).
  Hypothesis HInner : forall args, Forall (fun a => P (snd a)) args -> P (CInner args).
  Hypothesis HAnd : forall cs, Forall P cs -> P (CAnd cs).
  Hypothesis HOr : forall cs, Forall P cs -> P (COr cs).
  Hypothesis HExcl : forall cs, Forall P cs -> P (CExcl cs).

  Fixpoint constr_nested_ind (c: constr) : P c :=
    let list_ind :=
      (fix go (l: list constr) : Forall P l :=
         match l with
         | [] => Forall_nil P
         | c' :: r => Forall_cons c' (constr_nested_ind c') (go r)
         end) in
    match c with
    | CSingle vs => HSingle vs
    | CContained pre plain post => HContained pre plain post (list_ind pre) (list_ind post)
    | CRange lo hi => HRange lo hi
    | CSize lo hi => HSize lo hi
    | CAlpha vs => HAlpha vs
    | CPresent => HPresent
    | CAbsent => HAbsent
    | CWith fields =>
        HWith fields
          ((fix go (l: list (sval * constr)) : Forall (fun fc => P (snd fc)) l :=
              match l with
              | [] => Forall_nil _
              | (f, c') :: r => Forall_cons (f, c') (constr_nested_ind c') (go r)
              end) fields)
    | CInner args =>
        HInner args
          ((fix go (l: list (option (sval * sval) * constr)) : Forall (fun a => P (snd a)) l :=
              match l with
              | [] => Forall_nil _
              | (t, c') :: r => Forall_cons (t, c') (constr_nested_ind c') (go r)
              end) args)
    | CAnd cs => HAnd cs (list_ind cs)
    | COr cs => HOr cs (list_ind cs)
    | CExcl cs => HExcl cs (list_ind cs)
    end.
End constr_induction.

Section shape_induction.
  Variable P : shape -> Prop.
  Hypothesis HV : forall s, P (ShV s).
  Hypothesis HT : forall l, Forall P l -> P (ShT l).
  Fixpoint shape_nested_ind (a: shape) : P a :=
    match a with
    | ShV s => HV s
    | ShT l => HT l ((fix go (l: list shape) : Forall P l :=
                        match l with
                        | [] => Forall_nil P
                        | x :: r => Forall_cons x (shape_nested_ind x) (go r)
                        end) l)
    end.
End shape_induction.

(* ---------- verdict combinators: what the loops of the _testValue methods compute ---------- *)

Fixpoint and_v (l: list verdict) : verdict :=
  match l with [] => Pass | v :: r => match v with Pass => and_v r | _ => v end end.
Fixpoint or_v (l: list verdict) : verdict :=
  match l with
  | [] => Fail
  | v :: r => match v with Pass => Pass | Fail => or_v r | Crash k => Crash k end
  end.
Fixpoint excl_v (l: list verdict) : verdict :=
  match l with
  | [] => Pass
  | v :: r => match v with Pass => Fail | Fail => excl_v r | Crash k => Crash k end
  end.

Lemma ceval_and c0 cs idx x :
  ceval (CAnd (c0 :: cs)) idx x = and_v (map (fun c => ceval c idx x) (c0 :: cs)).
Proof.
  change (ceval (CAnd (c0 :: cs)) idx x) with
    ((fix all (l: list constr) : verdict :=
        match l with
        | [] => Pass
        | c' :: r => match ceval c' idx x with Pass => all r | v => v end
        end) (c0 :: cs)).
  generalize (c0 :: cs). induction l as [|a l IH]; [reflexivity|].
  cbn [map and_v]. rewrite <- IH. destruct (ceval a idx x); reflexivity.
Qed.

Lemma ceval_or c0 cs idx x :
  ceval (COr (c0 :: cs)) idx x = or_v (map (fun c => ceval c idx x) (c0 :: cs)).
Proof.
  change (ceval (COr (c0 :: cs)) idx x) with
    ((fix any (l: list constr) : verdict :=
        match l with
        | [] => Fail
        | c' :: r => match ceval c' idx x with Pass => Pass | Fail => any r | Crash k => Crash k end
        end) (c0 :: cs)).
  generalize (c0 :: cs). induction l as [|a l IH]; [reflexivity|].
  cbn [map or_v]. rewrite <- IH. destruct (ceval a idx x); reflexivity.
Qed.

Lemma ceval_excl c0 cs idx x :
  ceval (CExcl (c0 :: cs)) idx x = excl_v (map (fun c => ceval c idx x) (c0 :: cs)).
Proof.
  change (ceval (CExcl (c0 :: cs)) idx x) with
    ((fix none (l: list constr) : verdict :=
        match l with
        | [] => Pass
        | c' :: r => match ceval c' idx x with Pass => Fail | Fail => none r | Crash k => Crash k end
        end) (c0 :: cs)).
  generalize (c0 :: cs). induction l as [|a l IH]; [reflexivity|].
  cbn [map excl_v]. rewrite <- IH. destruct (ceval a idx x); reflexivity.
Qed.

Lemma ceval_contained pre plain post idx x :
  truthy (CContained pre plain post) = true ->
  ceval (CContained pre plain post) idx x =
    match and_v (map (fun c => ceval c idx x) pre) with
    | Pass => match plain with [] => Pass | _ :: _ => Crash AttributeError end
    | v => v
    end.
Proof.
  intros Ht.
  assert (E: ceval (CContained pre plain post) idx x =
    (fix all (l: list constr) : verdict :=
       match l with
       | [] => match plain with [] => Pass | _ :: _ => Crash AttributeError end
       | c' :: r => match ceval c' idx x with Pass => all r | v => v end
       end) pre).
  { destruct pre; cbn [ceval]; rewrite Ht; reflexivity. }
  rewrite E. clear E Ht. induction pre as [|a l IH]; [reflexivity|].
  cbn [map and_v]. rewrite IH. destruct (ceval a idx x); reflexivity.
Qed.

Lemma ceval_with f0 fields idx m :
  ceval (CWith (f0 :: fields)) idx (VMap m) =
    and_v (map (fun fc => ceval (snd fc) None (map_get m (fst fc))) (f0 :: fields)).
Proof.
  change (ceval (CWith (f0 :: fields)) idx (VMap m)) with
    ((fix all (l: list (sval * constr)) : verdict :=
        match l with
        | [] => Pass
        | (f, c') :: r => match ceval c' None (map_get m f) with Pass => all r | v => v end
        end) (f0 :: fields)).
  generalize (f0 :: fields). induction l as [|[f a] l IH]; [reflexivity|].
  cbn [map and_v fst snd]. rewrite <- IH. destruct (ceval a None (map_get m f)); reflexivity.
Qed.

Lemma ceval_with_nonmap f0 fields idx x :
  (forall m, x <> VMap m) -> ceval (CWith (f0 :: fields)) idx x = Crash AttributeError.
Proof. intros H. destruct x; [reflexivity|reflexivity|]. exfalso. eapply H. reflexivity. Qed.

(* ---------- the same for the denotation ---------- *)

Lemma denote_and cs idx x : denote (CAnd cs) idx x <-> Forall (fun c => denote c idx x) cs.
Proof.
  change (denote (CAnd cs) idx x) with
    ((fix all (l: list constr) : Prop :=
        match l with [] => True | c' :: r => denote c' idx x /\ all r end) cs).
  induction cs as [|a l IH]; [split; auto|].
  split.
  - intros [Ha Hl]. constructor; [exact Ha|apply IH; exact Hl].
  - intros H. inversion H; subst. split; [assumption|apply IH; assumption].
Qed.

Lemma denote_or cs idx x : denote (COr cs) idx x <-> Exists (fun c => denote c idx x) cs.
Proof.
  change (denote (COr cs) idx x) with
    ((fix any (l: list constr) : Prop :=
        match l with [] => False | c' :: r => denote c' idx x \/ any r end) cs).
  induction cs as [|a l IH]; [split; [tauto|intros H; inversion H]|].
  split.
  - intros [Ha|Hl]; [left; exact Ha|right; apply IH; exact Hl].
  - intros H. inversion H; subst; [left; assumption|right; apply IH; assumption].
Qed.

Lemma denote_excl cs idx x : denote (CExcl cs) idx x <-> Forall (fun c => ~ denote c idx x) cs.
Proof.
  change (denote (CExcl cs) idx x) with
    ((fix none (l: list constr) : Prop :=
        match l with [] => True | c' :: r => ~ denote c' idx x /\ none r end) cs).
  induction cs as [|a l IH]; [split; auto|].
  split.
  - intros [Ha Hl]. constructor; [exact Ha|apply IH; exact Hl].
  - intros H. inversion H; subst. split; [assumption|apply IH; assumption].
Qed.

Lemma denote_all_list (l: list constr) idx x :
  (fix all (l: list constr) : Prop :=
     match l with [] => True | c' :: r => denote c' idx x /\ all r end) l
  <-> Forall (fun c => denote c idx x) l.
Proof. exact (denote_and l idx x). Qed.

Lemma denote_contained pre plain post idx x :
  denote (CContained pre plain post) idx x <->
    Forall (fun c => denote c idx x) pre /\ Forall (fun c => denote c idx x) post
    /\ (plain = [] \/ exists s, x = VS s /\ In s plain).
Proof.
  change (denote (CContained pre plain post) idx x) with
    ((fix all (l: list constr) : Prop :=
        match l with [] => True | c' :: r => denote c' idx x /\ all r end) pre
     /\ (fix all (l: list constr) : Prop :=
           match l with [] => True | c' :: r => denote c' idx x /\ all r end) post
     /\ (plain = [] \/ exists s, x = VS s /\ In s plain)).
  rewrite !denote_all_list. tauto.
Qed.

Lemma denote_with fields idx x :
  denote (CWith fields) idx x <->
    exists m, x = VMap m /\ Forall (fun fc => denote (snd fc) None (component m (fst fc))) fields.
Proof.
  change (denote (CWith fields) idx x) with
    (exists m, x = VMap m /\
       (fix all (l: list (sval * constr)) : Prop :=
          match l with
          | [] => True
          | (f, c') :: r => denote c' None (component m f) /\ all r
          end) fields).
  split; intros [m [Hx H]]; exists m; (split; [exact Hx|]); clear Hx.
  - induction fields as [|[f a] l IH]; [constructor|]. destruct H as [Ha Hl].
    constructor; [exact Ha|apply IH; exact Hl].
  - induction fields as [|[f a] l IH]; [exact I|]. inversion H; subst.
    split; [assumption|apply IH; assumption].
Qed.

(* ---------- wf and typed per combinator ---------- *)

Definition wf_list (l: list constr) : bool := forallb wf l.

Lemma wf_all_list (l: list constr) :
  (fix all (l: list constr) : bool :=
     match l with [] => true | c' :: r => wf c' && all r end) l = forallb wf l.
Proof. induction l as [|a l IH]; [reflexivity|]. cbn [forallb]. rewrite IH. reflexivity. Qed.

Lemma wf_ops_and cs : wf (CAnd cs) = nonnil cs && forallb wf cs.
Proof. cbn [wf]. rewrite wf_all_list. reflexivity. Qed.
Lemma wf_ops_or cs : wf (COr cs) = nonnil cs && forallb wf cs.
Proof. cbn [wf]. rewrite wf_all_list. reflexivity. Qed.
Lemma wf_ops_excl cs : wf (CExcl cs) = nonnil cs && forallb wf cs.
Proof. cbn [wf]. rewrite wf_all_list. reflexivity. Qed.
Lemma wf_ops_contained pre plain post :
  wf (CContained pre plain post) =
    (nonnil pre || nonnil plain || nonnil post) && forallb nonbits plain
    && (nonnil plain || negb (nonnil post))
    && forallb wf pre && forallb wf post.
Proof. cbn [wf]. rewrite !wf_all_list. reflexivity. Qed.
Lemma wf_ops_with fields :
  wf (CWith fields) = nonnil fields && forallb (fun fc => nonbits (fst fc) && wf (snd fc)) fields.
Proof.
  cbn [wf]. f_equal. induction fields as [|[f a] l IH]; [reflexivity|].
  cbn [forallb fst snd]. rewrite IH. reflexivity.
Qed.
Lemma wf_ops_inner args :
  wf (CInner args) =
    nonnil args
    && forallb (fun a => match fst a with Some (k, _) => nonbits k | None => true end && wf (snd a)) args.
Proof.
  cbn [wf]. f_equal. induction args as [|[[[k st]|] a] l IH]; [reflexivity| |];
    cbn [forallb fst snd]; rewrite IH; reflexivity.
Qed.

Lemma typed_all_list (l: list constr) idx x :
  (fix all (l: list constr) : bool :=
     match l with [] => true | c' :: r => typed c' idx x && all r end) l
  = forallb (fun c => typed c idx x) l.
Proof. induction l as [|a l IH]; [reflexivity|]. cbn [forallb]. rewrite IH. reflexivity. Qed.

Lemma typed_ops_and cs idx x : typed (CAnd cs) idx x = forallb (fun c => typed c idx x) cs.
Proof. cbn [typed]. apply typed_all_list. Qed.
Lemma typed_ops_or cs idx x : typed (COr cs) idx x = forallb (fun c => typed c idx x) cs.
Proof. cbn [typed]. apply typed_all_list. Qed.
Lemma typed_ops_excl cs idx x : typed (CExcl cs) idx x = forallb (fun c => typed c idx x) cs.
Proof. cbn [typed]. apply typed_all_list. Qed.
Lemma typed_ops_contained pre plain post idx x :
  typed (CContained pre plain post) idx x =
    match plain with [] => true | _ :: _ => false end
    && forallb (fun c => typed c idx x) pre && forallb (fun c => typed c idx x) post.
Proof. cbn [typed]. rewrite !typed_all_list. reflexivity. Qed.
Lemma typed_ops_with fields idx m :
  typed (CWith fields) idx (VMap m) =
    forallb (fun kv => nonbits (fst kv)) m
    && forallb (fun fc => typed (snd fc) None (component m (fst fc))) fields.
Proof.
  cbn [typed]. f_equal. induction fields as [|[f a] l IH]; [reflexivity|].
  cbn [forallb fst snd]. rewrite IH. reflexivity.
Qed.
Lemma typed_ops_inner args idx x :
  typed (CInner args) idx x =
    opt_nonbits idx && forallb (fun a => typed (snd a) None x) args.
Proof.
  cbn [typed]. f_equal. induction args as [|[t a] l IH]; [reflexivity|].
  cbn [forallb snd]. rewrite IH. reflexivity.
Qed.

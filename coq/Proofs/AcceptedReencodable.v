(* C10, second half: what a decoder accepts, the same codec's encoder accepts.
   Encoder totality on well-formed values ([val_of], Proofs/AcceptedWellFormed.v) of types whose
   tags can be written, for all three codecs in every mode (definite / indefinite, any segment
   size), up to the one refusal a length can cause: contents of 256^126 octets or more. *)
From Coq Require Import Lia Permutation.
From PV Require Import Base.Bytes Model.Tag Model.TableTypes Model.Types Model.Proc Model.Enc Model.Dec Gen.Tables
     Proofs.LeafReal Proofs.RoundTrip1 Proofs.DerReference Proofs.AcceptedWellFormed.
Local Open Scope N_scope.

(* ------------------------------------------------------------------------------------------ *)
(* an upper bound on the size of the encoding, computed without encoding                      *)
(* ------------------------------------------------------------------------------------------ *)

(* identifier octets + at most 127 length octets + an end-of-octets pair *)
Definition tag_cost (t: tag) : nat := (length (enc_tag t true) + 129)%nat.
Definition tags_cost (ts: tagset) : nat := fold_right (fun t acc => (tag_cost t + acc)%nat) O ts.

Fixpoint csize (T: ty) (v: val) {struct T} : nat :=
  match T with
  | TImp _ x | TExp _ x => csize x v
  | TBool => 1%nat
  | TInt | TEnum => match v with VInt z => S (length (twos_bytes z)) | _ => O end
  | TBits => match v with VBits bs => (132 * length bs + 1)%nat | _ => O end          (* segment headers included *)
  | TOcts | TStr _ | TAny => match octets_of v with Some b => (131 * length b)%nat | None => O end
  | TNull => O
  | TOid => match v with VOid a => match enc_oid a with Ok b => length b | Err _ => O end | _ => O end
  | TReal => match v with VReal r => match enc_real r with Ok b => length b | Err _ => O end | _ => O end
  | TSeqOf t | TSetOf t =>
      match v with
      | VList xs => fold_right (fun x acc => (tags_cost (tagset_of' t) + csize t x + acc)%nat) O xs
      | _ => O
      end
  | TChoice alts =>
      match v with
      | VChoice i x =>
          (fix go (alts: list ty) (k: nat) : nat :=
             match alts, k with
             | a :: _, O => (tags_cost (tagset_of' a) + csize a x)%nat
             | _ :: r, S k' => go r k'
             | [], _ => O
             end) alts i
      | _ => O
      end
  | TSeq fs | TSet fs =>
      match v with
      | VRec vs =>
          (fix go (fs: list (presence * ty)) (vs: list (option val)) : nat :=
             match fs, vs with
             | (p, t) :: fs', ov :: vs' =>
                 ((match ov with Some x => tags_cost (tagset_of' t) + csize t x | None => O end) + go fs' vs')%nat
             | _, _ => O
             end) fs vs
      | _ => O
      end
  end.

(* bound on the whole encoding of v as a T *)
Definition esize (T: ty) (v: val) : nat := (tags_cost (tagset_of' T) + csize T v)%nat.

Lemma csize_base : forall T v, csize T v = csize (base_of T) v.
Proof. induction T using ty_ind'; intros v; cbn [csize base_of]; auto. Qed.

(* ------------------------------------------------------------------------------------------ *)
(* framing never fails below the length limit                                                 *)
(* ------------------------------------------------------------------------------------------ *)

Lemma enc_tag_length t c : length (enc_tag t c) = length (enc_tag t true).
Proof. unfold enc_tag. destruct (N.ltb (tnum t) 31); reflexivity. Qed.

Lemma enc_len_bound n i l : enc_len n i = Ok l -> (length l <= 127)%nat.
Proof.
  unfold enc_len. destruct i; [intros H; inversion H; subst; cbn; lia|].
  destruct (N.ltb n 128); [intros H; inversion H; subst; cbn; lia|].
  cbv zeta. destruct (Nat.ltb_spec 126 (length (b256 n))) as [Hc|Hc]; [discriminate|].
  intros H; inversion H; subst. cbn [length]. lia.
Qed.

Lemma enc_len_total' n i : n < max_len -> exists l, enc_len n i = Ok l.
Proof. intros Hn. destruct i; [eexists; reflexivity|apply enc_len_total; exact Hn]. Qed.

Lemma frame_one_total' t ic d si sub : N.of_nat (length sub) < max_len ->
  exists b, frame_one t ic d si sub = Ok b /\ (length b <= tag_cost t + length sub)%nat.
Proof.
  intros Hn. unfold frame_one. destruct (enc_len_total' _ (negb d && si) Hn) as [l El]. rewrite El. cbn [bind].
  eexists. split; [reflexivity|]. pose proof (enc_len_bound _ _ _ El) as Hl.
  rewrite !app_length, (enc_tag_length t ic). unfold tag_cost. destruct d; cbn [length]; lia.
Qed.

Lemma frame_outer_total' : forall r ic d si sub n, (length sub <= n)%nat -> N.of_nat (tags_cost r + n) < max_len ->
  exists b, frame_outer r ic d si sub = Ok b /\ (length b <= tags_cost r + n)%nat.
Proof.
  induction r as [|t r IH]; intros ic d si sub n Hs Hn; cbn [frame_outer tags_cost fold_right] in *.
  - exists sub. split; [reflexivity|lia].
  - fold (tags_cost r) in *.
    destruct (frame_one_total' t ic d si sub) as (s' & E & Hl); [lia|]. rewrite E. cbn [bind].
    destruct (IH ic d si s' (tag_cost t + n)%nat) as (b & Eb & Hb); [lia|lia|].
    exists b. split; [exact Eb|lia].
Qed.

Lemma frame_total' ts content ic o si n : (length content <= n)%nat -> N.of_nat (tags_cost ts + n) < max_len ->
  exists b, frame ts content ic o si = Ok b /\ (length b <= tags_cost ts + n)%nat.
Proof.
  intros Hc Hn. destruct ts as [|t0 r]; cbn [frame].
  - exists content. split; [reflexivity|cbn; lia].
  - cbn [tags_cost fold_right] in *. fold (tags_cost r) in *.
    destruct ((match content with [] => true | _ => false end) && ic && o_ifne o).
    + exists []. split; [reflexivity|cbn; lia].
    + destruct (frame_one_total' t0 ic (if ic then o_def o else true) si content) as (s0 & E & Hl); [lia|].
      rewrite E. cbn [bind].
      destruct (frame_outer_total' r ic (o_def o) si s0 (tag_cost t0 + n)%nat) as (b & Eb & Hb); [lia|lia|].
      exists b. split; [exact Eb|lia].
Qed.

(* ------------------------------------------------------------------------------------------ *)
(* the encoder tables hand every type a value encoder of its own kind                         *)
(* ------------------------------------------------------------------------------------------ *)

Definition ecompat (k: tkey) (cd: enc_codec) : bool :=
  match k, cd with
  | KBool, (EcBoolBer | EcBoolCer) | (KInt | KEnum), EcInt | KBits, (EcBits | EcBitsCer) | KOcts, EcOcts
  | KStr _, (EcOcts | EcGenTime | EcUtcTime) | KNull, EcNull | KOid, EcOid | KReal, (EcRealBer | EcRealCer)
  | (KSeq | KSet), (EcSeq | EcSetCer | EcSetDer) | (KSeqOf | KSetOf), (EcSeqOfBer | EcSeqOfCer | EcSetOfCer)
  | KChoice, EcChoice | KAny, EcAny => true
  | _, _ => false
  end.

Lemma etable_compat (l: list (tkey * enc_codec * enc_flags)) k cd fl :
  forallb (fun e => ecompat (fst (fst e)) (snd (fst e))) l = true -> lookup3 k l = Some (cd, fl) -> ecompat k cd = true.
Proof. intros Hall H. apply lookup3_In in H. rewrite forallb_forall in Hall. apply (Hall _ H). Qed.

Lemma concrete_encoder_total c T : exists cd fl, concrete_encoder c T = Ok (cd, fl) /\ ecompat (key_of T) cd = true.
Proof.
  unfold concrete_encoder. destruct (lookup3 (key_of T) (enc_type_map c)) as [[cd0 fl0]|] eqn:E1.
  - exists cd0, fl0. split; [reflexivity|]. apply (etable_compat (enc_type_map c) _ _ fl0); [|exact E1].
    destruct c; vm_compute; reflexivity.
  - unfold tag_fallback_key.
    assert (Hk: key_of T <> KEoo) by (unfold key_of; destruct (base_of T); discriminate).
    destruct (key_of T) eqn:EK; try (destruct c; vm_compute in E1; discriminate); try contradiction.
    all: destruct c; vm_compute; eexists; eexists; split; reflexivity.
Qed.

(* ------------------------------------------------------------------------------------------ *)
(* sorting moves octets around but loses none                                                 *)
(* ------------------------------------------------------------------------------------------ *)

Lemma insert_by_perm {A K} (ltb: K -> K -> bool) (key: A -> K) x : forall l, Permutation (x :: l) (insert_by ltb key x l).
Proof.
  induction l as [|y r IH]; cbn [insert_by]; [apply Permutation_refl|].
  destruct (ltb (key y) (key x)); [|apply Permutation_refl].
  apply (Permutation_trans (perm_swap y x r)). apply perm_skip. exact IH.
Qed.

Lemma sort_by_perm {A K} (ltb: K -> K -> bool) (key: A -> K) : forall l, Permutation l (sort_by ltb key l).
Proof.
  unfold sort_by. induction l as [|x r IH]; cbn [fold_right]; [apply Permutation_refl|].
  apply (Permutation_trans (perm_skip x IH)). apply insert_by_perm.
Qed.

Lemma concat_length_perm (l l': list bytes) : Permutation l l' -> length (concat l) = length (concat l').
Proof.
  induction 1 as [|x l l' _ IH|x y l|l l' l'' _ IH1 _ IH2]; cbn [concat]; rewrite ?app_length; try lia.
Qed.

Lemma sort_setof_length parts : length (concat (sort_setof parts)) = length (concat parts).
Proof.
  unfold sort_setof. destruct parts as [|a [|b r]]; try reflexivity.
  symmetry. apply concat_length_perm. apply sort_by_perm.
Qed.

Lemma sorted_fields_length (parts: list (tagset * bytes)) :
  length (concat (map snd (sort_by tagset_ltb fst parts))) = length (concat (map snd parts)).
Proof. symmetry. apply concat_length_perm. apply Permutation_map. apply sort_by_perm. Qed.

(* ------------------------------------------------------------------------------------------ *)
(* types the encoder can write, values it can write                                           *)
(* ------------------------------------------------------------------------------------------ *)

(* DEFAULT values are compared with ==, which the model follows for scalar non-REAL types only *)
Definition def_ok (t: ty) (d: val) : bool :=
  match base_of t with
  | TBool | TInt | TEnum | TBits | TOcts | TStr _ | TNull | TOid => val_of t d
  | _ => false
  end.

(* no EXPLICIT UNIVERSAL tag (pyasn1 refuses to build such a type); character/useful string types
   whose encoder is the plain string encoder (under CER/DER the two time types have a checking
   encoder: see [der_time_accepted_not_reencodable]); comparable DEFAULT values *)
Fixpoint enc_ty (c: codec) (T: ty) : bool :=
  match T with
  | TStr n => match concrete_encoder c (TStr n) with Ok (EcOcts, _) => true | _ => false end
  | TSeq fs | TSet fs =>
      forallb (fun f => enc_ty c (snd f) && match fst f with Def d => def_ok (snd f) d | _ => true end) fs
  | TSeqOf t | TSetOf t => enc_ty c t
  | TChoice alts => forallb (enc_ty c) alts
  | TImp _ x => enc_ty c x
  | TExp t x => negb (cls_eqb (tcls t) Univ) && enc_ty c x
  | _ => true
  end.

(* binary REAL values whose normalised exponent fits 255 octets (|e| < 2^2039) *)
Fixpoint reals_fit (v: val) : bool :=
  match v with
  | VReal (RBin m e) => real_exp_fits m e
  | VRec fs => forallb (fun ov => match ov with Some x => reals_fit x | None => true end) fs
  | VList xs => forallb reals_fit xs
  | VChoice _ x => reals_fit x
  | _ => true
  end.

Lemma enc_ty_tagset c : forall T, enc_ty c T = true -> exists ts, tagset_of T = Ok ts.
Proof.
  induction T using ty_ind'; intros Hx; cbn [tagset_of]; try (eexists; reflexivity).
  - cbn [enc_ty] in Hx. destruct (IHT Hx) as [ts E]. rewrite E. cbn [bind]. eexists; reflexivity.
  - cbn [enc_ty] in Hx. apply andb_prop in Hx. destruct Hx as [Hc Hx]. destruct (IHT Hx) as [ts E]. rewrite E. cbn [bind].
    unfold tag_explicitly. destruct (tcls t); try discriminate Hc; eexists; reflexivity.
Qed.

Lemma enc_ty_base c : forall T, enc_ty c T = true -> enc_ty c (base_of T) = true.
Proof.
  induction T using ty_ind'; intros Hx; cbn [base_of]; try exact Hx.
  - apply IHT. exact Hx.
  - apply IHT. cbn [enc_ty] in Hx. apply andb_prop in Hx. apply Hx.
Qed.

Lemma val_of_imp t x v : val_of (TImp t x) v = val_of x v.
Proof. reflexivity. Qed.
Lemma val_of_exp t x v : val_of (TExp t x) v = val_of x v.
Proof. reflexivity. Qed.

Lemma concrete_encoder_compat c T cd fl : concrete_encoder c T = Ok (cd, fl) -> ecompat (key_of T) cd = true.
Proof.
  intros H. destruct (concrete_encoder_total c T) as (cd' & fl' & E & Hc). rewrite E in H. inversion H; subst. exact Hc.
Qed.

(* named versions of the encoder's local loops (convertible with them) *)
Definition enc_elems_c (c: codec) (t: ty) (o: eopts) : list val -> res (list bytes) :=
  fix go (xs: list val) : res (list bytes) :=
  match xs with
  | [] => Ok []
  | x :: r => do p <- enc_with c (enc_content c) t o x; do ps <- go r; Ok (p :: ps)
  end.

Definition seqof_finish (cd: enc_codec) (parts: list bytes) : res (bytes * bool) :=
  match cd with
  | EcSeqOfBer | EcSeqOfCer => Ok (concat parts, true)
  | EcSetOfCer => Ok (concat (sort_setof parts), true)
  | _ => Err EMalformed
  end.

Lemma enc_content_seqof_c c t cd fl o xs :
  enc_content c (TSeqOf t) cd fl o (VList xs) = (do parts <- enc_elems_c c t o xs; seqof_finish cd parts).
Proof. reflexivity. Qed.
Lemma enc_content_setof_c c t cd fl o xs :
  enc_content c (TSetOf t) cd fl o (VList xs) = (do parts <- enc_elems_c c t o xs; seqof_finish cd parts).
Proof. reflexivity. Qed.

Definition enc_rec_fields_c (c: codec) (cd: enc_codec) (omit: bool) (o: eopts)
  : list (presence * ty) -> list (option val) -> res (list (tagset * bytes)) :=
  fix go (fs: list (presence * ty)) (vs: list (option val)) : res (list (tagset * bytes)) :=
    match fs with
    | [] => Ok []
    | (p, ft) :: fs' =>
        let ov := match vs with x :: _ => x | [] => None end in
        let vs' := match vs with _ :: r => r | [] => [] end in
        let o' := if omit then mkOpts (o_def o) (o_chunk o) (match p with Opt => true | _ => false end) else o in
        let emit (x: val) := do b <- enc_with c (enc_content c) ft o' x; do rest <- go fs' vs';
                             Ok ((set_sort_key (match cd with EcSetDer => true | _ => false end) ft x, b) :: rest) in
        match p, ov with
        | Opt, None => go fs' vs'
        | Def d, None => go fs' vs'
        | Def d, Some x => match val_py_eq x d with
                           | Some true => go fs' vs'
                           | Some false => emit x
                           | None => Err EUnmodelled end
        | Req, None => if all_optional_container ft then emit (VRec []) else Err EMalformed
        | _, Some x => emit x
        end
    end.

Definition rec_finish (cd: enc_codec) (parts: list (tagset * bytes)) : res (bytes * bool) :=
  match cd with
  | EcSeq => Ok (concat (map snd parts), true)
  | EcSetCer | EcSetDer => Ok (concat (map snd (sort_by tagset_ltb fst parts)), true)
  | _ => Err EMalformed
  end.

Definition rec_omit (cd: enc_codec) (fl: enc_flags) : bool :=
  match cd with EcSeq => ef_omit_empty fl | EcSetCer | EcSetDer => true | _ => false end.

Lemma enc_content_seq_c c fs cd fl o vs :
  enc_content c (TSeq fs) cd fl o (VRec vs) = (do parts <- enc_rec_fields_c c cd (rec_omit cd fl) o fs vs; rec_finish cd parts).
Proof. reflexivity. Qed.
Lemma enc_content_set_c c fs cd fl o vs :
  enc_content c (TSet fs) cd fl o (VRec vs) = (do parts <- enc_rec_fields_c c cd (rec_omit cd fl) o fs vs; rec_finish cd parts).
Proof. reflexivity. Qed.

Definition enc_alt_c (c: codec) (o: eopts) (x: val) : list ty -> nat -> res (bytes * bool) :=
  fix go (alts: list ty) (k: nat) : res (bytes * bool) :=
    match alts, k with
    | a :: _, O => do p <- enc_with c (enc_content c) a o x; Ok (p, true)
    | _ :: r, S k' => go r k'
    | [], _ => Err EMalformed
    end.

Lemma enc_content_choice_c c alts fl o i x :
  enc_content c (TChoice alts) EcChoice fl o (VChoice i x) = enc_alt_c c o x alts i.
Proof. reflexivity. Qed.

(* sizes, named the same way *)
Definition elems_size (t: ty) (xs: list val) : nat :=
  fold_right (fun x acc => (tags_cost (tagset_of' t) + csize t x + acc)%nat) O xs.
Definition fields_size : list (presence * ty) -> list (option val) -> nat :=
  fix go (fs: list (presence * ty)) (vs: list (option val)) : nat :=
    match fs, vs with
    | (p, t) :: fs', ov :: vs' =>
        ((match ov with Some x => tags_cost (tagset_of' t) + csize t x | None => O end) + go fs' vs')%nat
    | _, _ => O
    end.
Definition alt_size (x: val) : list ty -> nat -> nat :=
  fix go (alts: list ty) (k: nat) : nat :=
    match alts, k with
    | a :: _, O => (tags_cost (tagset_of' a) + csize a x)%nat
    | _ :: r, S k' => go r k'
    | [], _ => O
    end.
Lemma csize_seqof t xs : csize (TSeqOf t) (VList xs) = elems_size t xs. Proof. reflexivity. Qed.
Lemma csize_setof t xs : csize (TSetOf t) (VList xs) = elems_size t xs. Proof. reflexivity. Qed.
Lemma csize_seq fs vs : csize (TSeq fs) (VRec vs) = fields_size fs vs. Proof. reflexivity. Qed.
Lemma csize_set fs vs : csize (TSet fs) (VRec vs) = fields_size fs vs. Proof. reflexivity. Qed.
Lemma csize_choice alts i x : csize (TChoice alts) (VChoice i x) = alt_size x alts i. Proof. reflexivity. Qed.

(* ------------------------------------------------------------------------------------------ *)
(* segmented strings                                                                          *)
(* ------------------------------------------------------------------------------------------ *)

Definition pieces_cost {A} (w: nat) (ps: list (list A)) : nat :=
  fold_right (fun p acc => (w + length p + acc)%nat) O ps.

(* cutting into pieces of at least one element: at most one header per element *)
Lemma chunks_cost {A} (w k: nat) : (1 <= k)%nat -> forall fuel (l: list A),
  (pieces_cost w (chunks fuel k l) <= (w + 1) * length l)%nat
  /\ Forall (fun p => (length p <= length l)%nat) (chunks fuel k l).
Proof.
  intros Hk. induction fuel as [|f IH]; intros l; cbn [chunks].
  - split; [cbn; lia|constructor].
  - destruct l as [|x r]; [split; [cbn; lia|constructor]|].
    destruct (IH (skipn k (x :: r))) as [Hc Hall].
    pose proof (firstn_skipn k (x :: r)) as Hsplit.
    assert (Hlen: (length (firstn k (x :: r)) + length (skipn k (x :: r)) = length (x :: r))%nat)
      by (rewrite <- app_length, Hsplit; reflexivity).
    assert (Hp: (1 <= length (firstn k (x :: r)))%nat).
    { rewrite firstn_length. cbn [length]. lia. }
    split.
    + cbn [pieces_cost fold_right]. fold (pieces_cost w (chunks f k (skipn k (x :: r)))). nia.
    + constructor; [lia|]. revert Hall. apply Forall_impl. intros p Hpl. lia.
Qed.

Lemma fold_pieces_gen {A} (tagnum: N) (f: list A -> bytes) : forall ps acc init, acc = Ok init ->
  Forall (fun p => N.of_nat (length (f p)) < max_len) ps ->
  exists s, fold_left (fun acc piece => do a <- acc; do p <- frame_piece tagnum (f piece); Ok (a ++ p)) ps acc = Ok s
            /\ (length s <= length init + fold_right (fun p acc => tag_cost (utag false tagnum) + length (f p) + acc) O ps)%nat.
Proof.
  induction ps as [|p ps IH]; intros acc init Hacc Hall; cbn [fold_left fold_right].
  - exists init. split; [exact Hacc|lia].
  - inversion Hall as [|? ? Hp Hps]; subst.
    destruct (frame_one_total' (utag false tagnum) false true true (f p) Hp) as (b & Eb & Hb).
    destruct (IH (do a <- Ok init; do p0 <- frame_piece tagnum (f p); Ok (a ++ p0)) (init ++ b)) as (s & Es & Hs).
    + cbn [bind]. unfold frame_piece. rewrite Eb. reflexivity.
    + exact Hps.
    + exists s. split; [exact Es|]. rewrite app_length in Hs. lia.
Qed.

Lemma fold_pieces {A} (tagnum: N) (f: list A -> bytes) : forall ps init,
  Forall (fun p => N.of_nat (length (f p)) < max_len) ps ->
  exists s, fold_left (fun acc piece => do a <- acc; do p <- frame_piece tagnum (f piece); Ok (a ++ p)) ps (Ok init) = Ok s
            /\ (length s <= length init + fold_right (fun p acc => tag_cost (utag false tagnum) + length (f p) + acc) O ps)%nat.
Proof. intros ps init. apply fold_pieces_gen. reflexivity. Qed.

Lemma bits_octets_le bs : (length (bits_octets bs) <= length bs)%nat.
Proof.
  unfold bits_octets. rewrite LeafInt.be_bytes_length, app_length, repeat_length.
  pose proof (LeafOidBits.pad_of_lt (length bs)) as Hp.
  destruct (length bs) as [|n] eqn:E; [reflexivity|].
  apply Nat.div_le_upper_bound; lia.
Qed.

Lemma octets_chunked_total v b k : octets_of v = Some b -> (1 <= k)%nat -> N.of_nat (131 * length b) < max_len ->
  exists s, enc_string_chunked v k = Ok s /\ (length s <= 131 * length b)%nat.
Proof.
  intros Hv Hk Hn.
  assert (Hgen: exists s, fold_left (fun acc piece => do a <- acc; do p <- frame_piece 4 piece; Ok (a ++ p))
                                    (chunks (S (length b)) k b) (Ok []) = Ok s /\ (length s <= 131 * length b)%nat).
  { destruct (chunks_cost 130 k Hk (S (length b)) b) as [Hc Hall].
    destruct (fold_pieces 4 (fun x => x) (chunks (S (length b)) k b) []) as (s & Es & Hs).
    - revert Hall. apply Forall_impl. intros p Hp. lia.
    - exists s. split; [exact Es|]. cbn [length] in Hs. unfold pieces_cost in Hc.
      change (tag_cost (utag false 4)) with 130%nat in Hs. lia. }
  unfold enc_string_chunked. destruct v; cbn [octets_of] in Hv; try discriminate; inversion Hv; subst; exact Hgen.
Qed.

Lemma bits_chunked_total bs k : (1 <= k)%nat -> N.of_nat (132 * length bs + 1) < max_len ->
  exists s, fold_left (fun acc piece => do a <- acc; do p <- frame_piece 3 (enc_bits_prim piece); Ok (a ++ p))
                      (chunks (S (length bs)) k bs) (Ok []) = Ok s /\ (length s <= 132 * length bs + 1)%nat.
Proof.
  intros Hk Hn. destruct (chunks_cost 131 k Hk (S (length bs)) bs) as [Hc Hall].
  assert (Hpiece: forall p: list bool, (length (enc_bits_prim p) <= 1 + length p)%nat).
  { intros p. unfold enc_bits_prim. cbn [length]. pose proof (bits_octets_le p). lia. }
  destruct (fold_pieces 3 enc_bits_prim (chunks (S (length bs)) k bs) []) as (s & Es & Hs).
  - revert Hall. apply Forall_impl. intros p Hp. pose proof (Hpiece p). lia.
  - exists s. split; [exact Es|]. cbn [length] in Hs. change (tag_cost (utag false 3)) with 130%nat in Hs.
    assert (Hsum: (fold_right (fun p acc => 130 + length (enc_bits_prim p) + acc) O (chunks (S (length bs)) k bs)
                   <= pieces_cost 131 (chunks (S (length bs)) k bs))%nat).
    { generalize (chunks (S (length bs)) k bs). induction l as [|p l IHl]; cbn [fold_right pieces_cost]; [lia|].
      fold (pieces_cost 131 l). pose proof (Hpiece p). lia. }
    lia.
Qed.

Lemma octets_like_total o v b : octets_of v = Some b -> N.of_nat (131 * length b) < max_len ->
  exists content ic, enc_octets_like o v = Ok (content, ic) /\ (length content <= 131 * length b)%nat.
Proof.
  intros Hv Hn. unfold enc_octets_like. rewrite Hv.
  destruct (N.eqb (o_chunk o) 0) eqn:E0; cbn [orb]; [eexists; eexists; split; [reflexivity|lia]|].
  destruct (Nat.leb (length b) (N.to_nat (o_chunk o))); [eexists; eexists; split; [reflexivity|lia]|].
  destruct (octets_chunked_total v b (N.to_nat (o_chunk o)) Hv) as (s & Es & Hs); [apply N.eqb_neq in E0; lia|exact Hn|].
  rewrite Es. cbn [bind]. eexists; eexists; split; [reflexivity|exact Hs].
Qed.

Lemma enc_bits_total o bs : N.of_nat (132 * length bs + 1) < max_len ->
  exists content ic, enc_bits o bs = Ok (content, ic) /\ (length content <= 132 * length bs + 1)%nat.
Proof.
  intros Hn. unfold enc_bits. cbv zeta.
  assert (Hprim: (length (enc_bits_prim bs) <= 132 * length bs + 1)%nat).
  { unfold enc_bits_prim. cbn [length]. pose proof (bits_octets_le bs). lia. }
  destruct (N.eqb (o_chunk o) 0) eqn:E0; cbn [orb]; [eexists; eexists; split; [reflexivity|exact Hprim]|].
  destruct (Nat.leb (length bs + pad_of (length bs)) (N.to_nat (o_chunk o) * 8)); [eexists; eexists; split; [reflexivity|exact Hprim]|].
  destruct (bits_chunked_total bs (N.to_nat (o_chunk o) * 8)) as (s & Es & Hs); [apply N.eqb_neq in E0; lia|exact Hn|].
  rewrite Es. cbn [bind]. eexists; eexists; split; [reflexivity|exact Hs].
Qed.

(* ------------------------------------------------------------------------------------------ *)
(* encoder totality                                                                           *)
(* ------------------------------------------------------------------------------------------ *)

Section Total.
  Variable c : codec.

  Definition Pw (T: ty) : Prop := forall o v,
    enc_ty c T = true -> val_of T v = true -> reals_fit v = true ->
    N.of_nat (esize T v) < max_len ->
    exists b, enc_with c (enc_content c) T o v = Ok b /\ (length b <= esize T v)%nat.

  Definition Pc (T: ty) : Prop := forall cd fl o v,
    concrete_encoder c T = Ok (cd, fl) ->
    enc_ty c T = true -> val_of T v = true -> reals_fit v = true ->
    N.of_nat (csize T v) < max_len ->
    exists content ic, enc_content c T cd fl o v = Ok (content, ic) /\ (length content <= csize T v)%nat.

  Lemma Pc_Pw T : Pc T -> Pw T.
  Proof.
    intros HP o v Hty Hv Hr Hn. unfold enc_with.
    destruct (concrete_encoder_total c T) as (cd & fl & Ece & _). rewrite Ece. cbn [bind].
    destruct (enc_ty_tagset c T Hty) as [ts Ets]. rewrite Ets. cbn [bind].
    unfold esize in *. rewrite (tagset_of'_ok _ _ Ets) in *.
    destruct (HP cd fl (mkOpts (o_def (fix_opts c o)) (o_chunk (fix_opts c o)) false) v Ece Hty Hv Hr) as (content & ic & E & Hl).
    - lia.
    - rewrite E. cbn [bind]. apply frame_total'; [exact Hl|exact Hn].
  Qed.

  (* ---- SEQUENCE OF / SET OF ---- *)
  Lemma elems_total t o : Pw t -> enc_ty c t = true -> forall xs,
    forallb (val_of t) xs = true -> forallb reals_fit xs = true -> N.of_nat (elems_size t xs) < max_len ->
    exists parts, enc_elems_c c t o xs = Ok parts /\ (length (concat parts) <= elems_size t xs)%nat.
  Proof.
    intros HP Hty. induction xs as [|x r IH]; intros Hv Hr Hn.
    - exists []. split; [reflexivity|cbn; lia].
    - cbn [forallb] in Hv, Hr. apply andb_prop in Hv. apply andb_prop in Hr. destruct Hv as [Hv1 Hv2]. destruct Hr as [Hr1 Hr2].
      cbn [elems_size fold_right] in Hn. fold (elems_size t r) in Hn.
      destruct (HP o x Hty Hv1 Hr1) as (p & Ep & Hp); [unfold esize; lia|].
      destruct (IH Hv2 Hr2) as (ps & Eps & Hps); [lia|].
      cbn [enc_elems_c]. fold (enc_elems_c c t o). rewrite Ep. cbn [bind]. rewrite Eps. cbn [bind].
      exists (p :: ps). split; [reflexivity|]. cbn [concat elems_size fold_right]. fold (elems_size t r).
      rewrite app_length. unfold esize in Hp. lia.
  Qed.

  Lemma seqof_finish_total cd parts n : (cd = EcSeqOfBer \/ cd = EcSeqOfCer \/ cd = EcSetOfCer) ->
    (length (concat parts) <= n)%nat ->
    exists content ic, seqof_finish cd parts = Ok (content, ic) /\ (length content <= n)%nat.
  Proof.
    intros [-> | [-> | ->]] Hl; cbn [seqof_finish]; eexists; eexists; (split; [reflexivity|]); try exact Hl.
    rewrite sort_setof_length. exact Hl.
  Qed.

  (* ---- CHOICE ---- *)
  Lemma alt_total o x : reals_fit x = true -> forall alts i a,
    Forall Pw alts -> forallb (enc_ty c) alts = true -> nth_error alts i = Some a -> val_of a x = true ->
    N.of_nat (alt_size x alts i) < max_len ->
    exists content ic, enc_alt_c c o x alts i = Ok (content, ic) /\ (length content <= alt_size x alts i)%nat.
  Proof.
    intros Hr. induction alts as [|a0 r IH]; intros [|i] a HP Hty Hn Hv Hs; try discriminate.
    - cbn [nth_error] in Hn. inversion Hn; subst a0. inversion HP as [|? ? HPa _]; subst.
      cbn [forallb] in Hty. apply andb_prop in Hty.
      destruct (HPa o x (proj1 Hty) Hv Hr) as (p & Ep & Hp); [exact Hs|].
      cbn [enc_alt_c]. rewrite Ep. cbn [bind]. eexists; eexists; split; [reflexivity|exact Hp].
    - inversion HP; subst. cbn [forallb] in Hty. apply andb_prop in Hty.
      apply (IH i a); try assumption. apply Hty.
  Qed.

  (* ---- SEQUENCE / SET ---- *)
  Lemma def_cmp t d x : def_ok t d = true -> val_of t x = true -> exists b, val_py_eq x d = Some b.
  Proof.
    unfold def_ok. rewrite (val_of_base t x), (val_of_base t d).
    destruct (base_of t); try discriminate; cbn [val_of];
      destruct x; try discriminate; destruct d; try discriminate; intros _ _; eexists; reflexivity.
  Qed.

  Definition field_ty_ok (f: presence * ty) : bool :=
    enc_ty c (snd f) && match fst f with Def d => def_ok (snd f) d | _ => true end.

  Lemma fields_total cd omit o : forall fs vs,
    Forall (fun f => Pw (snd f)) fs -> forallb field_ty_ok fs = true ->
    fields_ok val_of fs vs = true ->
    forallb (fun ov => match ov with Some x => reals_fit x | None => true end) vs = true ->
    N.of_nat (fields_size fs vs) < max_len ->
    exists parts, enc_rec_fields_c c cd omit o fs vs = Ok parts
                  /\ (length (concat (map snd parts)) <= fields_size fs vs)%nat.
  Proof.
    induction fs as [|[p t] fs IH]; intros [|ov vs] HP Hty Hv Hr Hn; try discriminate.
    - exists []. split; [reflexivity|cbn; lia].
    - inversion HP as [|? ? HPt HPr]; subst. cbn [snd] in HPt.
      cbn [forallb] in Hty, Hr. apply andb_prop in Hty. apply andb_prop in Hr.
      destruct Hty as [Ht Hty]. destruct Hr as [Hr1 Hr2]. unfold field_ty_ok in Ht. cbn [fst snd] in Ht.
      apply andb_prop in Ht. destruct Ht as [Htt Htd].
      cbn [fields_ok] in Hv. apply andb_prop in Hv. destruct Hv as [Hv1 Hv2].
      cbn [fields_size] in Hn. fold (fields_size fs vs) in Hn.
      assert (Hrest: exists parts, enc_rec_fields_c c cd omit o fs vs = Ok parts
                                   /\ (length (concat (map snd parts)) <= fields_size fs vs)%nat) by (apply IH; try assumption; lia).
      destruct Hrest as (rest & Erest & Hrest).
      cbn [enc_rec_fields_c]. fold (enc_rec_fields_c c cd omit o). cbv zeta.
      cbn [fields_size]. fold (fields_size fs vs).
      destruct ov as [x|].
      + (* present *)
        set (o' := if omit then mkOpts (o_def o) (o_chunk o) (match p with Opt => true | _ => false end) else o).
        destruct (HPt o' x Htt Hv1 Hr1) as (b & Eb & Hb); [unfold esize; lia|].
        assert (Hemit: exists parts,
                  (do b0 <- enc_with c (enc_content c) t o' x; do rest0 <- enc_rec_fields_c c cd omit o fs vs;
                   Ok ((set_sort_key (match cd with EcSetDer => true | _ => false end) t x, b0) :: rest0)) = Ok parts
                  /\ (length (concat (map snd parts)) <= tags_cost (tagset_of' t) + csize t x + fields_size fs vs)%nat).
        { rewrite Eb. cbn [bind]. rewrite Erest. cbn [bind]. eexists. split; [reflexivity|].
          cbn [map snd concat]. rewrite app_length. unfold esize in Hb. lia. }
        destruct p as [| |d]; try exact Hemit.
        destruct (def_cmp _ _ _ Htd Hv1) as [[|] Ecmp]; rewrite Ecmp; [|exact Hemit].
        exists rest. split; [exact Erest|lia].
      + (* absent *)
        destruct p as [| |d]; [discriminate Hv1| |]; (exists rest; split; [exact Erest|lia]).
  Qed.

  Lemma rec_finish_total cd parts n : (cd = EcSeq \/ cd = EcSetCer \/ cd = EcSetDer) ->
    (length (concat (map snd parts)) <= n)%nat ->
    exists content ic, rec_finish cd parts = Ok (content, ic) /\ (length content <= n)%nat.
  Proof.
    intros [-> | [-> | ->]] Hl; cbn [rec_finish]; eexists; eexists; (split; [reflexivity|]); try exact Hl;
      rewrite sorted_fields_length; exact Hl.
  Qed.

  (* ---- scalars ---- *)
  Lemma enc_integer_len cz z : (length (enc_integer cz z) <= S (length (twos_bytes z)))%nat.
  Proof. unfold enc_integer. destruct (Z.eqb z 0); [destruct cz; cbn; lia|lia]. Qed.

  Lemma oid_wf_enc a : oid_wf a = true -> exists b, enc_oid a = Ok b.
  Proof.
    unfold oid_wf, enc_oid, oid_first. destruct a as [|first [|second rest]]; try discriminate. intros H.
    destruct (N.eqb first 2) eqn:E2.
    - apply N.eqb_eq in E2. subst first. destruct (N.leb second 39); cbn; eexists; reflexivity.
    - cbn [orb] in H. apply andb_prop in H. destruct H as [H1 H2]. rewrite H1.
      destruct (N.eqb first 1); [cbn; eexists; reflexivity|]. destruct (N.eqb first 0); [cbn; eexists; reflexivity|discriminate].
  Qed.

  Lemma real_enc_total r : real_wf r = true -> reals_fit (VReal r) = true -> exists b, enc_real r = Ok b.
  Proof.
    destruct r as [| |m e|m e|]; intros Hw Hf; try discriminate; try (eexists; reflexivity).
    - cbn [reals_fit] in Hf. apply enc_real_bin_ok_iff. exact Hf.
    - cbn [enc_real]. destruct (Z.eqb m 0); eexists; reflexivity.
  Qed.

  Theorem content_total : forall T, Pc T.
  Proof.
    induction T as [| | | | | | | | n|fs IH|fs IH|t IH|t IH|alts IH| |tg x IH|tg x IH] using ty_ind';
      intros cd fl o v Hce Hty Hv Hr Hn; pose proof (concrete_encoder_compat _ _ _ _ Hce) as Hk;
      unfold key_of in Hk; cbn [base_of] in Hk.
    - (* BOOLEAN *)
      destruct v; try discriminate Hv. destruct cd; try discriminate Hk; cbn [enc_content]; eexists; eexists; (split; [reflexivity|cbn; lia]).
    - (* INTEGER *)
      destruct v; try discriminate Hv. destruct cd; try discriminate Hk. cbn [enc_content csize].
      eexists; eexists; split; [reflexivity|apply enc_integer_len].
    - (* ENUMERATED *)
      destruct v; try discriminate Hv. destruct cd; try discriminate Hk. cbn [enc_content csize].
      eexists; eexists; split; [reflexivity|apply enc_integer_len].
    - (* BIT STRING *)
      destruct v; try discriminate Hv. cbn [csize] in Hn. destruct cd; try discriminate Hk; cbn [enc_content csize].
      + apply enc_bits_total. exact Hn.
      + apply enc_bits_total. exact Hn.
    - (* OCTET STRING *)
      destruct v; try discriminate Hv. destruct cd; try discriminate Hk. cbn [enc_content csize octets_of] in *.
      apply (octets_like_total o (VOcts b) b eq_refl Hn).
    - (* NULL *)
      destruct v; try discriminate Hv. destruct cd; try discriminate Hk. cbn [enc_content csize].
      eexists; eexists; split; [reflexivity|cbn; lia].
    - (* OBJECT IDENTIFIER *)
      destruct v; try discriminate Hv. destruct cd; try discriminate Hk. cbn [enc_content csize].
      destruct (oid_wf_enc _ Hv) as [b Eb]. rewrite Eb. cbn [bind]. eexists; eexists; split; [reflexivity|lia].
    - (* REAL *)
      destruct v; try discriminate Hv. destruct (real_enc_total _ Hv Hr) as [b Eb].
      destruct cd; try discriminate Hk; cbn [enc_content csize]; rewrite Eb; cbn [bind]; eexists; eexists; (split; [reflexivity|lia]).
    - (* character / useful strings *)
      cbn [enc_ty] in Hty. rewrite Hce in Hty. destruct cd; try discriminate Hty.
      cbn [enc_content]. destruct v; try discriminate Hv; cbn [csize octets_of] in *.
      + apply (octets_like_total o (VOcts b) b eq_refl Hn).
      + apply (octets_like_total o (VChars cs) (concat cs) eq_refl Hn).
    - (* SEQUENCE *)
      destruct v as [| | | | | | | |vs| | |]; try discriminate Hv. rewrite enc_content_seq_c, csize_seq in *.
      rewrite val_of_seq in Hv.
      destruct (fields_total cd (rec_omit cd fl) o fs vs) as (parts & Ep & Hp); try assumption.
      { revert IH. apply Forall_impl. intros f Hf. apply Pc_Pw. exact Hf. }
      rewrite Ep. cbn [bind]. apply rec_finish_total; [|exact Hp].
      destruct cd; try discriminate Hk; auto.
    - (* SET *)
      destruct v as [| | | | | | | |vs| | |]; try discriminate Hv. rewrite enc_content_set_c, csize_set in *.
      rewrite val_of_set in Hv.
      destruct (fields_total cd (rec_omit cd fl) o fs vs) as (parts & Ep & Hp); try assumption.
      { revert IH. apply Forall_impl. intros f Hf. apply Pc_Pw. exact Hf. }
      rewrite Ep. cbn [bind]. apply rec_finish_total; [|exact Hp].
      destruct cd; try discriminate Hk; auto.
    - (* SEQUENCE OF *)
      destruct v as [| | | | | | | | |xs| |]; try discriminate Hv. rewrite enc_content_seqof_c, csize_seqof in *.
      destruct (elems_total t o (Pc_Pw _ IH) Hty xs Hv Hr Hn) as (parts & Ep & Hp).
      rewrite Ep. cbn [bind]. apply seqof_finish_total; [|exact Hp].
      destruct cd; try discriminate Hk; auto.
    - (* SET OF *)
      destruct v as [| | | | | | | | |xs| |]; try discriminate Hv. rewrite enc_content_setof_c, csize_setof in *.
      destruct (elems_total t o (Pc_Pw _ IH) Hty xs Hv Hr Hn) as (parts & Ep & Hp).
      rewrite Ep. cbn [bind]. apply seqof_finish_total; [|exact Hp].
      destruct cd; try discriminate Hk; auto.
    - (* CHOICE *)
      destruct v as [| | | | | | | | | |i x|]; try discriminate Hv. destruct cd; try discriminate Hk.
      rewrite enc_content_choice_c, csize_choice in *.
      apply choice_go_inv in Hv. destruct Hv as (a & Hna & Hva).
      apply (alt_total o x Hr alts i a); try assumption.
      revert IH. apply Forall_impl. intros a0 Ha0. apply Pc_Pw. exact Ha0.
    - (* ANY *)
      destruct cd; try discriminate Hk. cbn [enc_content csize].
      destruct v; try discriminate Hv; cbn [octets_of]; eexists; eexists; (split; [reflexivity|lia]).
    - (* IMPLICIT *)
      rewrite val_of_imp in Hv. cbn [enc_content csize enc_ty] in *.
      apply (IH cd fl o v); assumption.
    - (* EXPLICIT *)
      rewrite val_of_exp in Hv. cbn [enc_content csize enc_ty] in *. apply andb_prop in Hty.
      apply (IH cd fl o v); try apply Hty; assumption.
  Qed.

  Theorem enc_total : forall T, Pw T.
  Proof. intros T. apply Pc_Pw. apply content_total. Qed.
End Total.

(* ------------------------------------------------------------------------------------------ *)
(* main theorems: re-encodability                                                             *)
(* ------------------------------------------------------------------------------------------ *)

(* every well-formed value of a writable type is accepted by each codec's encoder in every mode
   (definite / indefinite, any segment size), unless its encoding would need 256^126 octets or more,
   or it holds a binary REAL with |exponent| >= 2^2039 *)
Theorem wellformed_is_encodable : forall c defm chunk T v,
  enc_ty c T = true -> val_of T v = true -> reals_fit v = true ->
  N.of_nat (esize T v) < max_len ->
  exists b', encode c defm chunk T v = Ok b' /\ (length b' <= esize T v)%nat.
Proof.
  intros c defm chunk T v Hty Hv Hr Hn. unfold encode, enc.
  apply (enc_total c T (mkOpts defm chunk false) v Hty Hv Hr Hn).
Qed.

(* whatever a decoder accepts under a guiding type of the fragment - for EVERY input - is a
   well-formed value of that type which the same codec's encoder accepts *)
Theorem accepted_is_reencodable : forall c fuel T b d tl,
  frag T = true -> enc_ty c T = true ->
  decode_with c fuel (Some T) b = Ok (d, tl) ->
  exists v, d = DV T v /\ val_of T v = true
            /\ (reals_fit v = true -> N.of_nat (esize T v) < max_len -> exists b', encode c true 0 T v = Ok b').
Proof.
  intros c fuel T b d tl HF Hty H.
  destruct (accepted_is_well_formed c fuel T b d tl HF H) as (v & -> & Hv & _).
  exists v. split; [reflexivity|]. split; [exact Hv|]. intros Hr Hn.
  destruct (wellformed_is_encodable c true 0 T v Hty Hv Hr Hn) as (b' & E & _). exists b'. exact E.
Qed.

Corollary accepted_is_reencodable_decode : forall c T b d tl,
  frag T = true -> enc_ty c T = true ->
  decode c (Some T) b = Ok (d, tl) ->
  exists v, d = DV T v /\ val_of T v = true
            /\ (reals_fit v = true -> N.of_nat (esize T v) < max_len -> exists b', encode c true 0 T v = Ok b').
Proof. intros c T b d tl. apply (accepted_is_reencodable c (dec_fuel (Some T) b) T b d tl). Qed.

Print Assumptions wellformed_is_encodable.
Print Assumptions accepted_is_reencodable.

(* the hypotheses are satisfiable on inputs no encoder writes, and the conclusion is what evaluation gives *)
Example accepted_is_reencodable_witness :
  enc_ty BER awf_T = true /\ enc_ty DER awf_T = true /\ frag awf_T = true
  /\ (let v := VRec [Some (VInt 5); Some (VChoice 0 (VBool true)); Some (VInt 7); Some (VChoice 0 VNull); Some (VList [VOcts [104; 105]])] in
      decode DER (Some awf_T) awf_der = Ok (DV awf_T v, [])
      /\ reals_fit v = true /\ N.ltb (N.of_nat (esize awf_T v)) max_len = true
      /\ encode DER true 0 awf_T v = Ok [48;19; 2;1;5; 160;3;1;1;255; 129;1;7; 5;0; 49;4;12;2;104;105])
  /\ (let T := TSeq [(Req, TInt); (Opt, TChoice [TNull; TImp (awf_ctx 5) TOid]); (Req, TSetOf TReal)] in
      let v := VRec [Some (VInt 5); Some (VChoice 1 (VOid [1; 2; 3])); Some (VList [VReal (RBin 5 (-1)); VReal RPInf])] in
      frag T = true /\ enc_ty BER T = true
      /\ decode BER (Some T) [48;128; 2;3;0;0;5; 133;2;42;3; 49;129;8; 9;3;128;255;5; 9;1;64; 0;0] = Ok (DV T v, [])
      /\ reals_fit v = true /\ N.ltb (N.of_nat (esize T v)) max_len = true
      /\ encode BER true 0 T v = Ok [48;17; 2;1;5; 133;2;42;3; 49;8; 9;3;128;255;5; 9;1;64]).
Proof. repeat split; vm_compute; reflexivity. Qed.

(* CER (indefinite, segmenting) and a BER mode with two-octet segments *)
Example accepted_is_reencodable_witness_cer :
  let T := TSeq [(Req, TOcts); (Opt, TBits); (Req, TSetOf TInt)] in
  let v := VRec [Some (VOcts [1;2;3;4;5]); Some (VBits [true;false;true;true]); Some (VList [VInt 9; VInt 3])] in
  frag T = true /\ enc_ty CER T = true
  /\ decode CER (Some T) [48;128; 36;128; 4;2;1;2; 4;3;3;4;5; 0;0; 3;2;4;176; 49;128; 2;1;9; 2;1;3; 0;0; 0;0] = Ok (DV T v, [])
  /\ reals_fit v = true /\ N.ltb (N.of_nat (esize T v)) max_len = true
  /\ encode CER true 0 T v = Ok [48;128; 4;5;1;2;3;4;5; 3;2;4;176; 49;128; 2;1;3; 2;1;9; 0;0; 0;0]
  /\ encode BER false 2 T v = Ok [48;128; 36;128; 4;2;1;2; 4;2;3;4; 4;1;5; 0;0; 3;2;4;176; 49;128; 2;1;9; 2;1;3; 0;0; 0;0].
Proof. repeat split; vm_compute; reflexivity. Qed.

(* ---------------- accepted by the decoder, refused by the same codec's encoder ---------------- *)

(* R1. CER/DER: GeneralizedTime / UTCTime contents are not examined by the decoder, while the encoder
   insists on the canonical form ('Missing "Z" time zone specifier', length limits) *)
Example der_time_accepted_not_reencodable :
  decode DER (Some (TStr 24)) [24;3;97;98;99] = Ok (DV (TStr 24) (VOcts [97;98;99]), [])
  /\ val_of (TStr 24) (VOcts [97;98;99]) = true
  /\ encode DER true 0 (TStr 24) (VOcts [97;98;99]) = Err EMalformed
  /\ decode DER (Some (TStr 23)) [23;1;90] = Ok (DV (TStr 23) (VOcts [90]), [])
  /\ encode DER true 0 (TStr 23) (VOcts [90]) = Err EMalformed
  /\ enc_ty DER (TStr 24) = false /\ enc_ty DER (TStr 23) = false /\ enc_ty BER (TStr 24) = true.
Proof. repeat split; vm_compute; reflexivity. Qed.

(* R2. a binary REAL in base 16 with a 255-octet exponent: accepted; its exponent times 4 no longer
   fits 255 octets and the encoder refuses ('Real exponent overflow').  262 octets of input. *)
Definition huge_real : bytes := [9;130;1;2; 163;255;127] ++ repeat 255 254 ++ [1].
Example real_exponent_accepted_not_reencodable :
  match decode BER (Some TReal) huge_real with
  | Ok (DV T v, tl) => T = TReal /\ tl = [] /\ val_of TReal v = true /\ reals_fit v = false
                       /\ encode BER true 0 TReal v = Err EMalformed
  | _ => False
  end.
Proof. vm_compute. repeat split; reflexivity. Qed.

(* R3 (repaired): the valueless tagged CHOICE, which the encoder refuses, is no longer produced by any
   decoder: see [valueless_tagged_choice_refused] in Proofs/AcceptedWellFormed.v *)

(* R4. outside [enc_ty] by the model's choice, not a refusal of the library: a DEFAULT of type REAL
   (or of a constructed type) is compared by float / object equality, which the model declines *)
Example default_real_unmodelled :
  let T := TSeq [(Def (VReal (RBin 1 0)), TReal)] in
  decode BER (Some T) [48;5;9;3;128;0;3] = Ok (DV T (VRec [Some (VReal (RBin 3 0))]), [])
  /\ encode BER true 0 T (VRec [Some (VReal (RBin 3 0))]) = Err EUnmodelled /\ enc_ty BER T = false.
Proof. repeat split; vm_compute; reflexivity. Qed.

(* ---------------- DER: re-encoding does NOT give back the consumed octets ---------------- *)

(* the property's last clause (for DER, b' = the consumed part of b) is false of the model: the DER
   decoder accepts padded INTEGERs, long-form lengths and tags, an empty INTEGER, unsorted SET OF
   and an encoded DEFAULT value *)
Example der_accepts_non_canonical :
  decode DER (Some TInt) [2;2;0;5] = Ok (DV TInt (VInt 5), []) /\ encode DER true 0 TInt (VInt 5) = Ok [2;1;5]
  /\ decode DER (Some TInt) [2;129;1;5] = Ok (DV TInt (VInt 5), [])
  /\ decode DER (Some TInt) [31;2;1;5] = Ok (DV TInt (VInt 5), [])
  /\ decode DER (Some TInt) [2;0] = Ok (DV TInt (VInt 0), []) /\ encode DER true 0 TInt (VInt 0) = Ok [2;1;0]
  /\ decode DER (Some (TSetOf TInt)) [49;6;2;1;9;2;1;3] = Ok (DV (TSetOf TInt) (VList [VInt 9; VInt 3]), [])
  /\ encode DER true 0 (TSetOf TInt) (VList [VInt 9; VInt 3]) = Ok [49;6;2;1;3;2;1;9]
  /\ decode DER (Some (TSeq [(Def (VBool false), TBool)])) [48;3;1;1;0]
     = Ok (DV (TSeq [(Def (VBool false), TBool)]) (VRec [Some (VBool false)]), [])
  /\ encode DER true 0 (TSeq [(Def (VBool false), TBool)]) (VRec [Some (VBool false)]) = Ok [48;0].
Proof. repeat split; vm_compute; reflexivity. Qed.
